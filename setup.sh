#!/usr/bin/env bash
# Builds the whole framework offline from files on disk (run once after a fresh restore).
set -u
ROOT="$(cd "$(dirname "$0")" && pwd)"
export CARGO_NET_OFFLINE=true
mkdir -p "$ROOT/evidence" "$ROOT/.run" "$ROOT/.target"
fail=0
( cd "$ROOT/engines/zb" && CARGO_TARGET_DIR="$ROOT/.target/zb" cargo build --release --offline ) || fail=1
for c in gv plain oaa gv-oaa; do
  case "$c" in plain) F="";; gv) F="gvariant";; oaa) F="option-as-array";; gv-oaa) F="gvariant,option-as-array";; esac
  ( cd "$ROOT/engines/zv" && CARGO_TARGET_DIR="$ROOT/.target/zv-$c" cargo build --release --offline --features "$F" ) || fail=1
done
# C35: pre-compile the third-party dependency seed used by the feature-combination check
VERIF_ROOT="$ROOT" VERIF_FEAT_PREPARE_ONLY=1 python3 "$ROOT/engines/feat/run.py" C35 >/dev/null 2>&1 || echo "setup: C35 seed pre-build failed" >&2
# Every check rebuilds what it needs itself (and reports a build failure as exit 2), so a
# failed pre-build is reported here but does not stop the checks from being attempted.
[ $fail -eq 0 ] || echo "setup: some pre-builds failed (see above); checks will rebuild on demand" >&2
exit 0
