#!/usr/bin/env python3
"""Generates /verif/MANIFEST.json from the table below. Usage: engines/mkmanifest.py [ID ...]
Only the listed IDs (default: READY) are claimed; every other property goes to not_applicable
with the reason given in PENDING (or 'check under construction')."""
import json, subprocess, sys

EX, MC, FE = "exploration", "model_checking", "fault_enumeration"

# id: (engine, level, technique, level text, level note, design ref)
T = {
 "C01": ("zv", EX, "exhaustive small-scope input enumeration vs reference marshaller",
         "Every D-Bus type up to a signature-node bound × small leaf domains × both endians × start offsets is encoded by the real zvariant (dynamic and typed routes) and compared byte for byte with an independently written reference marshaller; serialized_size and fd counts compared too. Exhaustive within the bound, which is where alignment/length/offset bugs live.",
         "Reference marshaller written from the D-Bus specification (audited against libdbus where possible); values beyond the leaf domains and signatures beyond the node bound are not covered.", "§6 C01"),
 "C02": ("zv", EX, "exhaustive small-scope encode→decode enumeration",
         "Same space as C01 in both formats (D-Bus, GVariant), dynamic and typed values: decode(encode(v)) == v and consumed == encoded length for every case.",
         "Equality is bitwise for floats and set-wise for maps; bounds as C01.", "§6 C02"),
 "C03": ("zv", EX, "exhaustive byte-string and mutation enumeration vs strict reference decoder",
         "All byte strings up to a length over a 9-byte alphabet for every small type, plus every 1-byte substitution/truncation of every valid encoding, plus nesting around the limits through variants: the real decoder accepts iff the strict reference decoder accepts a prefix, with equal value and consumed length.",
         "Reference decoder implements exactly the reject classes the property names; byte alphabet and length are the bound.", "§6 C03"),
 "C04": ("zv", EX, "exhaustive hostile-input enumeration in child processes with panic/alloc/stack monitors",
         "C03's inputs plus structural stress, in four feature builds and both formats, decoded in child processes under a counting allocator and a small stack: never a panic/abort/overflow/gross allocation; re-encoding decoded values never panics.",
         "overflow-checks are on in the harness build; allocation bound is generous (64 KiB + 64×input).", "§6 C04"),
 "C05": ("zv", EX, "exhaustive small-scope input enumeration vs reference GVariant serializer",
         "Every GVariant type (incl. maybe) up to a node bound × leaf domains × endians × offsets, plus containers crossing the 255/65535 framing thresholds, compared byte for byte with a reference normal-form serializer that is itself audited against GLib.",
         "Reference serializer audited against libglib's g_variant_parse/get_data; bounds as C01.", "§6 C05"),
 "C06": ("zv", EX, "exhaustive string enumeration vs reference grammar",
         "Every string up to a length over an 11-symbol alphabet plus limit-boundary strings: accepted iff the reference grammar accepts; print/length/equality/hash laws on every accepted string.",
         "Reference grammar audited against libdbus dbus_signature_validate; alphabet has one representative per character class.", "§6 C06"),
 "C07": ("zv", EX, "exhaustive enumeration of nesting-depth triples",
         "All (arrays, structs, variants) depth triples around the limits × several nesting orders × both formats × encode/decode: success iff within 32/32/64, failure is a depth error.",
         "Orders: block permutations and round-robin; innermost value is a byte.", "§6 C07"),
 "C08": ("zv", EX, "exhaustive pair/triple enumeration over a value universe",
         "All pairs (and triples on a prefix) of a deduplicated universe of dynamic values incl. NaN and ±0.0: equivalence, total order consistent with ==, hash, clone/owned conversion, signature and std-type round-trip laws.",
         "Universe = values of all types with ≤ 2 signature nodes over the leaf domains.", "§6 C08"),
 "C09": ("zv", EX, "enumerated bank of generated type definitions × leaf-domain values",
         "A generated, enumerated bank of Rust type definitions (derives, enums, dict-structs, std/net/time impls): declared signature == independently derived expectation, serialized bytes decode under that signature by the reference decoder to the expected tree, and round-trip.",
         "Programs are the enumerated grammar to depth 2, not every definition a user could write.", "§6 C09"),
 "C10": ("zv", EX, "exhaustive string enumeration vs reference acceptors on every construction route",
         "Every string up to a length over a 10-symbol class alphabet plus 254–257-byte boundary strings, per name type/object path/GUID, through every construction route: accepted iff the reference acceptor accepts, identically on all routes.",
         "Reference acceptors audited against libdbus dbus_validate_*; the GUID part runs in the zbus harness.", "§6 C10"),
 "C11": ("zb", EX, "exhaustive enumeration of message shapes vs reference message layout",
         "Message type × header-field subsets × flags × endian × bodies: built messages have the prescribed fixed header, a valid field array with exactly the logical fields, 8-aligned body, correct lengths/fd counts, and re-parse to the same content.",
         "Reference layout written from the message format section; field order is compared as a set.", "§6 C11"),
 "C12": ("zb", EX, "exhaustive mutation enumeration in child processes",
         "Every 1-byte substitution over a byte alphabet, every truncation and length-word values for ~60 messages, plus all short byte strings: from_bytes errs or yields a message whose every accessor/Display/Debug returns without panic.",
         "Only the listed mutation classes; overflow-checks on.", "§6 C12"),
 "C13": ("zb", EX, "exhaustive enumeration of unknown codes, alone and inside a stream read by a real connection",
         "Every unknown header field code × payload types, every unknown flag bit, every unknown type code: parse tolerates them and a connection reading them between two normal messages keeps delivering.",
         "Stream part runs a real connection over a scripted transport on the default schedule.", "§6 C13"),
 "C14": ("zb", MC, "explicit enumeration of all read splits and handshake leftovers on the real reader",
         "Every sequence of 1–3 corpus messages × every way to cut the stream at ≤ k positions (+ byte-at-a-time) × every prefix length handed over by a real client handshake, executed on the real connection: yielded messages byte-identical, in order, with their fds and increasing positions; oversize headers rejected without reading on.",
         "Transport is a scripted in-memory ReadHalf; a read carries the start of at most one fd-bearing message (kernel semantics); inside a case the default schedule is used (the only other task is the reader).", "§6 C14"),
 "C15": ("zb", MC, "shuttle DFS over all interleavings of the hooked serial-counter operations",
         "All interleavings of the atomic operations of 2–4 threads building messages, from counter values at 0 and the wrap boundary: serials non-zero and pairwise distinct in every schedule.",
         "Scheduling points are the operations on the counter (hook H4); memory orderings not modelled (property needs only RMW atomicity).", "§6 C15"),
 "C16": ("zb", MC, "full history tree of client transcripts on the real server handshake vs reference SASL machine",
         "All client line sequences up to a length over ~20 symbols × mechanisms × credential/fd configurations × read splits, each run on the real server handshake: authenticated iff the reference machine authenticates, replies as the property states, never a panic.",
         "Reference machine written from the authentication protocol section; no state merging.", "§6 C16"),
 "C17": ("zb", MC, "full history tree of server transcripts on the real client handshake vs reference SASL machine",
         "All server reply sequences up to a length × expected-GUID/fd/bus configurations × trailing bytes × read splits on the real client handshake: success only on proper OK/GUID, fd capability iff agreed, trailing bytes/fds delivered as the start of the stream, no panic.",
         "Expected GUID injected through hook H5; no state merging.", "§6 C17"),
 "C18": ("zb", MC, "stateless DFS over task polls and sendmsg answers (deviation-bounded)",
         "2–3 sender tasks on one real connection; sendmsg answers (all/1 byte/half/Pending) and task polls are explorer choices: the peer's byte stream parses into exactly the sent messages, fds with first bytes, per-sender order kept, in every explored schedule.",
         "Interleaving granularity is one task poll on one thread; deviation bound reported in the evidence.", "§6 C18"),
 "C19": ("zb", MC, "stateless DFS over task polls and peer emissions (deviation-bounded)",
         "1–3 concurrent callers (Connection::call_method, Proxy::call_method, Proxy::call_with_flags) against a scripted peer, optionally with a scheduling point right after each write, whose replies/errors/strays/signals/EOF and virtual timer expiry are environment events in every order: each call completes exactly once with its own reply or a legitimate error; no-reply calls complete without inbound traffic; nothing hangs.",
         "Peer answers only calls it has completely received; time is virtual (hook H2).", "§6 C19"),
 "C20": ("zb", MC, "full operation-history tree + deviation-bounded schedule DFS with back-pressure",
         "Every history of create/clone/drop/inbound/poll up to a depth on a real connection against a list model (exactly-once, in order, subscription lifetime), plus consumer tasks with queue capacity 1–2 and rotated fan-out order under all schedules up to a bound.",
         "p2p connection; fan-out order made deterministic by hook H3.", "§6 C20"),
 "C21": ("zb", EX, "exhaustive rule × near-miss message enumeration vs reference matcher",
         "A product of rules over per-key option sets × near-miss messages: rule.matches(msg) equals the reference match-rule semantics (modulo the documented well-known-name exception).",
         "Reference semantics from the specification's Match Rules section (audited against dbus-daemon on a reduced grid).", "§6 C21"),
 "C22": ("zb", EX, "exhaustive rule/value enumeration: print-parse both ways",
         "Rules with quoting-hostile values: the string form parses back (by zbus and by a conformant reference parser) to an equal rule; parse→print→parse is stable for every accepted string.",
         "Reference parser implements dbus-daemon's quoting rules.", "§6 C22"),
 "C23": ("zb", EX, "exhaustive address enumeration: print-parse and percent-decoding vs reference",
         "Every transport × option subsets × values over byte classes: parse(print(a)) == a, and parsing applies the specification's percent-decoding to every value.",
         "Value alphabet has one representative per byte class; lengths ≤ 3.", "§6 C23"),
 "C24": ("zb", MC, "explicit-state BFS over at/remove/lookup histories on the real object server",
         "The full history tree of at/remove over 4 paths × 2 interfaces to a depth, in two path universes (parent/child/sibling; grandchild below an unregistered node with a prefix-named sibling); after every step every (path, interface) is probed by lookup, by a call over the wire and by Introspect and compared with a set model; no panic.",
         "Each transition = one API call + quiescence on the default schedule.", "§6 C24"),
 "C25": ("zb", MC, "explicit-state BFS with a client-side ObjectManager mirror",
         "C24's alphabet (both path universes) plus ObjectManager at two paths; after every step the client's mirror (listing + InterfacesAdded/Removed applied in order) equals GetManagedObjects, with current properties.",
         "As C24.", "§6 C25"),
 "C26": ("zb", EX, "enumerated interface bank × right/wrong calls on a real p2p pair",
         "A generated bank of methods × correct and mis-addressed/mis-typed calls: handler runs exactly when everything matches; exactly one reply (or the standard error) per call.",
         "Programs = the enumerated bank; default schedule.", "§6 C26"),
 "C27": ("zb", EX, "enumerated interface bank: introspection XML vs independent parser and wire behaviour",
         "For the bank on several trees: XML well-formed under expat, read back by zbus_xml, lists exactly interfaces/children, declared types equal what the wire shows.",
         "As C26.", "§6 C27"),
 "C28": ("zb", MC, "BFS over Get/GetAll/Set histories on generated property definitions",
         "Property kinds × access × emits-changed modes under every short history of Get/GetAll/Set (valid, invalid, refused by the setter): values, errors and exactly-one PropertiesChanged as the definitions say.",
         "As C24.", "§6 C28"),
 "C29": ("zb", MC, "stateless DFS over task polls with yielding handlers (deviation-bounded)",
         "Bursts of 3 calls to handlers that yield 0–2 times at harness-controlled points: with spawn=false the handler intervals are disjoint and in arrival order in every schedule; with spawning every call is answered exactly once.",
         "Yield points are Pending+self-wake, no clock.", "§6 C29"),
 "C30": ("zb", MC, "stateless full DFS over task polls and call arrival",
         "Handlers (method, &mut method, property getter/setter, GetAll) that register/remove objects or emit signals, and a call arriving right after on-demand object-server creation: in every schedule every delivered call is answered (deadlock = nothing runnable with the call outstanding).",
         "Full DFS (these scenarios are tiny).", "§6 C30"),
 "C31": ("zb", MC, "stateless DFS over arrival orders and task polls (deviation-bounded)",
         "Every subset of update events × every order of {GetAll reply, changes, invalidation, other interface, uncached} × task polls: once ready the cached values equal those implied by the receive order; uncached never cached; the property stream's last report is the latest value.",
         "Scripted peer; receive order = push order.", "§6 C31"),
 "C32": ("zb", MC, "full history tree of fake-bus events on a real proxy signal stream",
         "Owner lookup answers × histories of genuine/forged ownership changes and signals from owner/former owner/strangers: the stream yields exactly the signals whose sender owned the name when received.",
         "Fake bus written in the harness (audited against dbus-daemon replies); no state merging.", "§6 C32"),
 "C33": ("zb", EX, "enumerated interface/proxy bank × leaf-domain arguments (async in the controlled world, blocking free-running)",
         "Every bank method/property/signal through the generated proxy with every argument tuple of the leaf domains: handler sees the caller's arguments, caller gets the handler's result.",
         "Blocking proxies run with uncontrolled real threads (inputs exhaustive, schedule not).", "§6 C33"),
 "C34": ("zv", EX, "exhaustive document enumeration from the introspection grammar",
         "Every introspection document from the grammar to depth 2: parse(write(parse(x))) == parse(x) and accessors return the generator's content.",
         "Grammar bounded to depth 2, ≤ 2 children per list.", "§6 C34"),
 "C35": ("feat", EX, "exhaustive enumeration of feature subsets and downstream mixes, decided by cargo check",
         "Per crate: no features, singles, pairs over the core set, all (thorough: powerset) plus synthetic downstream crates mixing zbus with zvariant feature variants; oracle is the compiler's exit status on every element.",
         "Platform-only features excluded and listed in the evidence.", "§6 C35"),
 "C36": ("zb", MC, "full history tree of request/release/bus events against a consistent fake bus",
         "Every history of request_name/release_name with flags, other peers taking/releasing the name and forged driver signals: AlreadyOwner/InQueue/release results follow what the bus last granted.",
         "Fake bus implements the message-bus name rules; no state merging.", "§6 C36"),
 "C37": ("zb", MC, "full history tree of stream/proxy create/clone/drop against a recording fake bus",
         "Every history of creating (also two at once, also refused by the bus, also right after a drop), cloning and (async-)dropping streams and proxy signal streams: AddMatch minus RemoveMatch seen by the bus equals the distinct rules with a live subscriber; never a double add or a remove in use.",
         "As C36.", "§6 C37"),
 "C38": ("zb", FE, "fault injection at every inbound byte offset and every write call + deviation-bounded schedule DFS",
         "One scripted session × {EOF, I/O error} at every byte offset of the inbound stream and I/O error at every sendmsg call; around each fault all schedules up to a bound: pending calls end with errors, streams yield exactly the completely received messages then end, later work fails promptly, nothing hangs or panics.",
         "A write error kills the socket in both directions; one session shape.", "§6 C38"),
 "C39": ("zb", MC, "stateless DFS over drop orders, task polls and handler release",
         "Every subset of handle kinds dropped in every order, and graceful shutdown with a gated in-flight handler: the transport closes exactly when the last handle goes; shutdown completes only after, and once, the handler replied.",
         "Peer observes closing as the write half being dropped.", "§6 C39"),
}

READY = []  # filled from the command line or engines/ready.txt

def main():
    ids = sys.argv[1:]
    if not ids:
        try:
            ids = open("/verif/engines/ready.txt").read().split()
        except FileNotFoundError:
            ids = []
    pending = {}
    try:
        for line in open("/verif/engines/pending.txt"):
            if line.strip():
                k, _, why = line.strip().partition(" ")
                pending[k] = why
    except FileNotFoundError:
        pass
    hooks = subprocess.run(["git", "-C", "/repo", "log", "--format=%h %s", "--grep=^verif hooks"],
                           capture_output=True, text=True).stdout.strip().splitlines()
    checks = []
    for pid in sorted(T):
        if pid not in ids:
            continue
        eng, level, tech, text, note, ref = T[pid]
        checks.append({
            "property_id": pid,
            "quick_cmd": f"./check {pid} --tier quick",
            "thorough_cmd": f"./check {pid} --tier thorough",
            "evidence_file": f"/verif/evidence/{pid}.json",
            "replay_cmd_template": f"./check {pid} --replay {{path}}",
            "engine": eng,
            "level_claimed": {"category": level, "text": text, "design_ref": "DESIGN.md " + ref},
            "level_note": note,
            "technique": tech,
        })
    na = [{"property_id": pid, "reason": pending.get(pid, "check under construction in this session; not claimed until it runs clean on the unchanged tree")}
          for pid in sorted(T) if pid not in ids]
    m = {
        "version": 1,
        "setup_cmd": "./setup.sh",
        "hooks": {
            "guard": "--cfg zbus_verif",
            "enable": "RUSTFLAGS=\"--cfg zbus_verif\" via /verif/engines/zb/.cargo/config.toml (target dir /verif/.target/zb); the seams in zbus/src/verif.rs are inert unless a harness installs them on its own thread",
            "baseline_off_cmd": "/verif/engines/baseline.sh",
            "source_commits": [h.split()[0] for h in hooks],
            "add_only": True,
        },
        "engines": [
            {"name": "zv", "path": "engines/zv", "serves_properties": [p for p in sorted(T) if T[p][0] == "zv"],
             "kind_free_text": "E-enum: exhaustive small-scope input enumeration of the real codec (zvariant, zvariant_utils, zbus_names, zbus_xml) against reference models written in the harness; four feature builds"},
            {"name": "zb", "path": "engines/zb", "serves_properties": [p for p in sorted(T) if T[p][0] == "zb"],
             "kind_free_text": "E-sched / E-bfs / E-enum on the real zbus connection code: single-threaded world with scripted in-memory transports, every task (incl. those zbus spawns, via the H1 seam) in a harness-owned pool, stateless DFS with re-execution and deviation bound, history trees, fault injection; shuttle DFS for the serial counter"},
            {"name": "feat", "path": "engines/feat", "serves_properties": ["C35"],
             "kind_free_text": "E-config: exhaustive feature-subset enumeration decided by cargo check"},
        ],
        "checks": checks,
        "not_applicable": na,
        "notes": "Every check enumerates a finite space completely on the real code (bounds in the evidence). exit 0 = held (known findings print KNOWN-FINDING lines), 1 = VIOLATION, 2 = machinery failure. Known findings: /verif/KNOWN_FINDINGS.jsonl. Mutants used to demonstrate detection: /verif/mutants, /verif/seeded.",
    }
    json.dump(m, open("/verif/MANIFEST.json", "w"), indent=1)
    print(f"claimed {len(checks)} not_applicable {len(na)}")

if __name__ == "__main__":
    main()
