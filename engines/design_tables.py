#!/usr/bin/env python3
"""Regenerates the tables of DESIGN.md §12.1 (fix: commits) and §12.2 (recorded findings) from
KNOWN_FINDINGS.jsonl and /repo's git log, and drops §12.3 bullets whose lead finding is no longer
recorded.  usage: python3 engines/design_tables.py"""
import json, re, subprocess, collections, os
ROOT = os.path.dirname(os.path.dirname(os.path.abspath(__file__)))
kf = open(os.path.join(ROOT, 'KNOWN_FINDINGS.jsonl')).read().splitlines()
fixed = collections.OrderedDict()   # commit -> (props set, ids list)
known = []
for l in kf:
    l = l.strip()
    if l.startswith('fixed:'):
        m = re.match(r'fixed: property=(C\d+) ([0-9a-f]{7,40}) (\S+)', l)
        if not m: continue
        p, c, fid = m.groups()
        if not re.match(r'C\d+(-F\d+)?$', fid): fid = p
        e = fixed.setdefault(c, (set(), []))
        e[0].add(p); e[1].append(fid)
    elif l.startswith('{'):
        known.append(json.loads(l))
log = subprocess.run(['git', '-C', '/repo', 'log', '--format=%h %H %s', '--abbrev=8'], capture_output=True, text=True).stdout.splitlines()
order = []
for line in reversed(log):
    h, full, subj = line.split(' ', 2)
    if subj.startswith('fix:'):
        order.append((h, full, subj))
t1 = ['| properties | commit | findings it repairs |', '|---|---|---|']
seen = set()
for h, full, subj in order:
    key = next((c for c in fixed if full.startswith(c) or c.startswith(h)), None)
    if key is None:
        t1.append(f'| — | `{h}` {subj} | (follow-up, no finding of its own) |'); continue
    seen.add(key)
    props, ids = fixed[key]
    t1.append(f'| {", ".join(sorted(props))} | `{h}` {subj} | {", ".join(ids)} |')
for c in fixed:
    if c not in seen:
        props, ids = fixed[c]
        t1.append(f'| {", ".join(sorted(props))} | `{c}` (not in /repo log!) | {", ".join(ids)} |')
t2 = ['| id | what fails | identity (clause + feature predicate) |', '|---|---|---|']
for k in known:
    what = k['what'][:160].replace('|', '\\|')
    t2.append(f"| {k['id']} | {what} | `{k['clause']}` {json.dumps(k['match'])} |")
p = os.path.join(ROOT, 'DESIGN.md')
s = open(p).read()
def replace_table(s, header_re, table):
    m = re.search(header_re, s)
    start = s.index('\n|', m.end()) + 1
    end = start
    lines = s[start:].split('\n')
    n = 0
    for ln in lines:
        if ln.startswith('|'): n += 1
        else: break
    end = start + sum(len(x) + 1 for x in lines[:n])
    return s[:start] + '\n'.join(table) + '\n' + s[end:]
s = replace_table(s, r'### 12\.1 [^\n]*\n', t1)
s = replace_table(s, r'### 12\.2 [^\n]*\n', t2)
ids = {k['id'] for k in known}
def keep(m):
    return m.group(0) if m.group(1) in ids else ''
s = re.sub(r'^\* \*\*(C\d+-F\d+)\*\* \(and the findings with the same root\):[^\n]*\n', keep, s, flags=re.M)
open(p, 'w').write(s)
print(f'fix commits={len(order)} fixed findings={sum(len(v[1]) for v in fixed.values())} recorded={len(known)}')
