#!/usr/bin/env python3
"""C35 -- "Every supported feature combination builds" (engine E-config, level exploration).

Usage:  python3 engines/feat/run.py C35 [--tier quick|thorough] [--replay <path>]

Enumerates (no sampling, fixed order) a finite set of build configurations and asks the compiler
about every one of them:

  * per workspace crate: feature subsets, checked with
      cargo check --offline --locked --manifest-path <repo>/<crate>/Cargo.toml \
                  --no-default-features --features <subset>
  * synthetic DOWNSTREAM crates (Cargo.toml + empty lib.rs, generated under <run dir>) that depend
    by path on several workspace crates with different feature selections.

Oracle: exit status 0 of `cargo check` (nothing else).  A failing configuration is a violation of
clause `crate-builds` / `downstream-builds` unless it matches an entry of KNOWN_FINDINGS.jsonl.

Nothing is ever written below the repository: CARGO_TARGET_DIR points to <target base>/feat-*,
workspace crates are checked with --locked (so Cargo.lock cannot change), downstream crates live
outside the repository with their own copy of Cargo.lock.

Environment: VERIF_ROOT (evidence/, replays/, KNOWN_FINDINGS.jsonl; default /verif), VERIF_REPO
(repository under test; default /repo), VERIF_SEED (recorded only; nothing is random), VERIF_JOBS
(number of parallel workers), VERIF_FEAT_TARGET_BASE (default /verif/.target), VERIF_FEAT_RUN_DIR
(default /verif/.run/feat), VERIF_FEAT_KEEP_SEED=0 to also remove the warm seed target dir,
VERIF_FEAT_ONLY=<regex> to run only the configurations whose description matches (partial run).

Exit: 0 held (known findings print KNOWN-FINDING lines), 1 unlisted violation, 2 machinery failure.
"""
import hashlib
import itertools
import json
import os
import re
import shutil
import subprocess
import sys
import threading
import time

PROPERTY = "C35"
ROOT = os.environ.get("VERIF_ROOT", "/verif")
REPO = os.path.realpath(os.environ.get("VERIF_REPO", "/repo"))
TARGET_BASE = os.environ.get("VERIF_FEAT_TARGET_BASE", os.path.join(ROOT, ".target"))
RUN_BASE = os.environ.get("VERIF_FEAT_RUN_DIR", os.path.join(ROOT, ".run", "feat"))
SEED_DIR = os.path.join(TARGET_BASE, "feat-seed")
PID = os.getpid()


def machinery_failure(msg):
    sys.stderr.write("MACHINERY-FAILURE: %s\n" % msg)
    sys.stderr.flush()
    cleanup()
    sys.exit(2)


# ------------------------------------------------------------------------------------------------
# The configuration space
# ------------------------------------------------------------------------------------------------

# Workspace crates, in the order they are checked (dependency order, cheapest first).
CRATES = ["zvariant_utils", "zvariant_derive", "zvariant", "zbus_names", "zbus_xml",
          "zbus_macros", "zbus", "zbus_xmlgen"]

# Features that are left out of the *combinatorial* part of the enumeration, with the reason.
# (They are still checked alone and as part of "all features".)
EXCLUDED_FROM_COMBINATIONS = {
    ("zvariant", "ostree-tests"):
        "alias of `gvariant` for library builds; it only gates tests that need external ostree "
        "test data, which `cargo check` of the library never touches",
    ("zbus", "async-fs"):
        "documented dummy feature (`async-fs = []`, kept for cargo-semver), gates no code",
    ("zbus", "async-executor"): "implicit feature of an optional dependency pulled in by `async-io`",
    ("zbus", "async-lock"): "implicit feature of an optional dependency pulled in by `async-io`",
    ("zbus", "async-process"): "implicit feature of an optional dependency pulled in by `async-io`",
    ("zbus", "async-task"): "implicit feature of an optional dependency pulled in by `async-io`",
    ("zbus", "blocking"): "implicit feature of an optional dependency pulled in by `async-io`",
}

# Documented-unsupported configurations: zbus/src/lib.rs has
#   #[cfg(all(not(feature = "async-io"), not(feature = "tokio")))] mod error_message { compile_error!(..) }
# so every zbus feature set that enables neither runtime is *meant* not to build.  Those sets are
# excluded from the oracle; a few of them are run as controls and must fail with that message.
ZBUS_RUNTIMES = ["async-io", "tokio"]
ZBUS_COMPILE_ERROR_TEXT = 'Either "async-io" (default) or "tokio" must be enabled'

# No feature of any workspace crate is platform-only on Linux: `vsock` / `tokio-vsock` (zbus) are
# Linux features and their dependencies resolve offline here, so they are included.

CORE = {
    "zvariant": ["gvariant", "option-as-array", "enumflags2", "serde_bytes"],
    "zbus": ["p2p", "bus-impl", "blocking-api"],  # on top of each runtime (async-io / tokio)
}


def load_features():
    """Feature tables of the workspace members, from cargo itself (includes implicit features of
    optional dependencies, which a hand parse of [features] would miss)."""
    try:
        out = subprocess.run(
            ["cargo", "metadata", "--offline", "--no-deps", "--format-version", "1",
             "--manifest-path", os.path.join(REPO, "Cargo.toml")],
            stdout=subprocess.PIPE, stderr=subprocess.PIPE, check=True, env=cargo_env(None))
    except (OSError, subprocess.CalledProcessError) as e:
        machinery_failure("cargo metadata failed: %s %s" % (e, getattr(e, "stderr", b"")[-400:]))
    meta = json.loads(out.stdout)
    feats = {}
    for p in meta["packages"]:
        feats[p["name"]] = sorted(f for f in p["features"] if f != "default")
    missing = [c for c in CRATES if c not in feats]
    if missing:
        machinery_failure("workspace members not found in cargo metadata: %s" % missing)
    extra = sorted(set(feats) - set(CRATES))
    return feats, extra


def subsets_upto(items, k):
    for n in range(0, k + 1):
        for c in itertools.combinations(items, n):
            yield list(c)


def crate_job(crate, features, note=""):
    return {"kind": "crate", "crate": crate, "features": sorted(set(features)), "note": note}


def zbus_supported(features):
    return any(r in features for r in ZBUS_RUNTIMES) or "tokio-vsock" in features


def enumerate_crate_jobs(feats, tier):
    """All per-crate feature sets of the tier, de-duplicated, in a fixed order."""
    jobs, controls = [], []
    seen = set()

    def add(crate, fs, note=""):
        fs = sorted(set(fs))
        key = (crate, tuple(fs))
        if key in seen:
            return
        seen.add(key)
        if crate == "zbus" and not zbus_supported(fs):
            # documented compile_error: excluded from the oracle; a few are kept as controls
            if len(fs) <= 1 and len(controls) < 3:
                controls.append(crate_job(crate, fs, "control: documented compile_error"))
            return
        jobs.append(crate_job(crate, fs, note))

    for crate in CRATES:
        all_f = feats[crate]
        comb = [f for f in all_f if (crate, f) not in EXCLUDED_FROM_COMBINATIONS]
        if crate == "zbus":
            others = [f for f in all_f if f not in ZBUS_RUNTIMES]
            comb_others = [f for f in comb if f not in ZBUS_RUNTIMES]
            add(crate, [])                       # -> control
            for f in others[:2]:
                add(crate, [f])                  # -> controls (no runtime)
            # Features that only forward to zvariant (`x = ["zvariant/x"]`) gate no zbus code, so the
            # quick tier pairs them with the default runtime only; everything else with both.
            forwarding = [f for f in others if f in feats.get("zvariant", [])]
            for rt in ZBUS_RUNTIMES:
                add(crate, [rt], "runtime alone")
                for f in others:
                    if tier == "quick" and rt != ZBUS_RUNTIMES[0] and f in forwarding:
                        continue
                    add(crate, [rt, f], "runtime + single feature")
            add(crate, ZBUS_RUNTIMES, "both runtimes")
            for rt in ZBUS_RUNTIMES:
                for a, b in itertools.combinations(CORE["zbus"], 2):
                    add(crate, [rt, a, b], "runtime + core pair")
                add(crate, [rt] + CORE["zbus"], "runtime + core")
            add(crate, all_f, "all features")
            if tier == "thorough":
                for rt in ZBUS_RUNTIMES:
                    for a, b in itertools.combinations(comb_others, 2):
                        add(crate, [rt, a, b], "runtime + pair")
                    for f in comb_others:       # complements of singles, per runtime
                        add(crate, [rt] + [g for g in comb_others if g != f], "runtime + all but one")
                for f in all_f:
                    add(crate, [g for g in all_f if g != f], "all but one")
            continue
        add(crate, [], "no features")
        for f in all_f:
            add(crate, [f], "single feature")
        if all_f:
            add(crate, all_f, "all features")
        core = [f for f in CORE.get(crate, comb) if f in all_f]
        for a, b in itertools.combinations(core, 2):
            add(crate, [a, b], "core pair")
        if tier == "thorough":
            if len(comb) <= 8:
                for fs in subsets_upto(comb, len(comb)):
                    add(crate, fs, "powerset")
            else:
                small = list(subsets_upto(comb, 3))
                for fs in small:
                    add(crate, fs, "subset of size <= 3")
                for fs in small:
                    add(crate, [g for g in comb if g not in fs], "complement of a subset of size <= 3")
    return jobs, controls


def ds_job(name, deps, note=""):
    """deps: list of (crate, default_features: bool, [features])."""
    return {"kind": "downstream", "name": name,
            "deps": [{"crate": c, "default_features": d, "features": sorted(f)} for c, d, f in deps],
            "note": note}


ZV_VARIANTS = [[], ["gvariant"], ["option-as-array"], ["gvariant", "option-as-array"]]


def enumerate_downstream_jobs(tier):
    jobs = []

    def tag(fs):
        return "+".join(fs) if fs else "none"

    # {zbus (default features)} x {zvariant with none, gvariant, option-as-array, both}
    for zv in ZV_VARIANTS:
        jobs.append(ds_job("zbus-default__zvariant-%s" % tag(zv),
                           [("zbus", True, []), ("zvariant", False, zv)],
                           "zbus (default features) together with a zvariant feature selection"))
    # the same zvariant selections next to the crates that do not involve a proc-macro user of
    # zvariant (what the codec harness itself looks like): tells the two situations apart
    for zv in ZV_VARIANTS:
        jobs.append(ds_job("names-xml__zvariant-%s" % tag(zv),
                           [("zbus_names", True, []), ("zbus_xml", True, []), ("zvariant", False, zv)],
                           "zbus_names + zbus_xml together with a zvariant feature selection"))
    # zbus runtimes x blocking-api on/off x {p2p, bus-impl}; depends on zbus_names and zvariant too
    zv_sets = ZV_VARIANTS if tier == "thorough" else [[]]
    for rt in ZBUS_RUNTIMES:
        for blocking in (False, True):
            for x in ("p2p", "bus-impl"):
                for zv in zv_sets:
                    fs = [rt, x] + (["blocking-api"] if blocking else [])
                    jobs.append(ds_job(
                        "zbus-%s-%s-%s__zvariant-%s" % (rt, x, "blocking" if blocking else "async", tag(zv)),
                        [("zbus", False, fs), ("zbus_names", True, []), ("zvariant", False, zv)],
                        "zbus runtime x blocking-api x p2p/bus-impl"))
    return jobs


# ------------------------------------------------------------------------------------------------
# Running cargo
# ------------------------------------------------------------------------------------------------

def cargo_env(target_dir, jobs=None):
    env = dict(os.environ)
    for k in ("RUSTFLAGS", "CARGO_ENCODED_RUSTFLAGS", "RUSTC_WRAPPER", "CARGO_BUILD_TARGET_DIR"):
        env.pop(k, None)
    env["CARGO_NET_OFFLINE"] = "true"
    env["CARGO_TERM_COLOR"] = "never"
    env["CARGO_INCREMENTAL"] = "0"          # small target dirs, no cross-job state besides rmeta files
    env["CARGO_PROFILE_DEV_DEBUG"] = "0"
    if target_dir:
        env["CARGO_TARGET_DIR"] = target_dir
    if jobs:
        env["CARGO_BUILD_JOBS"] = str(jobs)
    return env


def ds_dir(job, run_dir):
    return os.path.join(run_dir, "ds-" + job["name"])


def write_downstream(job, run_dir):
    d = ds_dir(job, run_dir)
    os.makedirs(os.path.join(d, "src"), exist_ok=True)
    lines = ["[package]", 'name = "ds_%s"' % re.sub(r"[^a-z0-9]", "_", job["name"].lower()),
             'version = "0.0.0"', 'edition = "2021"', "", "[dependencies]"]
    for dep in job["deps"]:
        lines.append('%s = { path = "%s/%s", default-features = %s, features = [%s] }' % (
            dep["crate"], REPO, dep["crate"], "true" if dep["default_features"] else "false",
            ", ".join('"%s"' % f for f in dep["features"])))
    lines += ["", "[workspace]", ""]
    with open(os.path.join(d, "Cargo.toml"), "w") as f:
        f.write("\n".join(lines))
    with open(os.path.join(d, "src", "lib.rs"), "w") as f:
        f.write("")
    # a copy of the repository's lock file so that resolution works offline with the same versions
    shutil.copyfile(os.path.join(REPO, "Cargo.lock"), os.path.join(d, "Cargo.lock"))
    return d


def command_for(job, run_dir):
    if job["kind"] == "crate":
        cmd = ["cargo", "check", "--offline", "--locked", "--manifest-path",
               os.path.join(REPO, job["crate"], "Cargo.toml"), "--no-default-features"]
        if job["features"]:
            cmd += ["--features", ",".join(job["features"])]
        return cmd
    d = write_downstream(job, run_dir)
    # no --locked: the copied lock file is pruned/extended for the synthetic package (outside the repo)
    return ["cargo", "check", "--offline", "--manifest-path", os.path.join(d, "Cargo.toml")]


ERR_RE = re.compile(r"^error(?:\[(E\d+)\])?: (.*)$")
LOC_RE = re.compile(r"^\s*--> (\S+?):(\d+):(\d+)")
FAILED_CRATE_RE = re.compile(r"^error: could not compile `([^`]+)`")

MACHINERY_PATTERNS = [
    "--locked was passed", "--offline was specified", "failed to download", "no matching package",
    "failed to get `", "failed to select a version", "failed to load source", "No space left on device",
    "failed to read `", "failed to parse manifest", "could not execute process",
]


def analyse(output):
    """Extract the error codes, first error location and failing crate from cargo's output."""
    codes, locs, failed, msgs = [], [], [], []
    lines = output.splitlines()
    for i, line in enumerate(lines):
        m = FAILED_CRATE_RE.match(line)
        if m:
            failed.append(m.group(1))
            continue
        m = ERR_RE.match(line)
        if m and not line.startswith("error: aborting"):
            codes.append(m.group(1) or "error")
            msgs.append(m.group(2)[:160])
            for nxt in lines[i + 1:i + 4]:
                lm = LOC_RE.match(nxt)
                if lm:
                    p = lm.group(1)
                    if p.startswith(REPO + "/"):
                        p = p[len(REPO) + 1:]
                    locs.append("%s:%s" % (p, lm.group(2)))
                    break
    machinery = [p for p in MACHINERY_PATTERNS if p in output]
    return {
        "error_codes": ",".join(sorted(set(codes))),
        "failing_crate": ",".join(sorted(set(failed))),
        "error_locations": sorted(set(locs)),
        "first_message": msgs[0] if msgs else "",
        "machinery": machinery,
    }


def run_job(job, target_dir, run_dir, jobs=None):
    cmd = command_for(job, run_dir)
    t0 = time.time()
    try:
        p = subprocess.run(cmd, stdout=subprocess.PIPE, stderr=subprocess.STDOUT,
                           env=cargo_env(target_dir, jobs), cwd=run_dir)
    except OSError as e:
        machinery_failure("cannot run cargo: %s" % e)
    out = p.stdout.decode("utf-8", "replace")
    res = {"job": job, "cmd": cmd, "exit": p.returncode, "wall_s": round(time.time() - t0, 2),
           "output_tail": out[-6000:]}
    if p.returncode != 0:
        res.update(analyse(out))
        res["documented_compile_error"] = ZBUS_COMPILE_ERROR_TEXT in out
    return res


def tree_fingerprint():
    """HEAD + a hash of the uncommitted changes of the repository under test ("" if not a git tree)."""
    try:
        head = subprocess.run(["git", "-C", REPO, "rev-parse", "HEAD"], stdout=subprocess.PIPE,
                              stderr=subprocess.DEVNULL).stdout.decode().strip()
        diff = subprocess.run(["git", "-C", REPO, "diff", "HEAD"], stdout=subprocess.PIPE,
                              stderr=subprocess.DEVNULL).stdout
        return head + ":" + hashlib.sha256(diff).hexdigest()[:16]
    except OSError:
        return ""


def features_of(job, res):
    """Narrow, declarative identity of a failing configuration (all values strings)."""
    f = {"kind": job["kind"],
         "error_codes": res.get("error_codes", ""),
         "failing_crate": res.get("failing_crate", "")}
    if job["kind"] == "crate":
        f["crate"] = job["crate"]
        f["features"] = ",".join(job["features"])
    else:
        crates = sorted(d["crate"] for d in job["deps"])
        f["crates"] = ",".join(crates)
        f["with_zbus"] = "true" if "zbus" in crates else "false"
        for d in job["deps"]:
            f["%s_features" % d["crate"]] = ",".join(d["features"])
            if d["crate"] == "zvariant":
                f["zvariant_gvariant"] = "true" if "gvariant" in d["features"] else "false"
    return f


def describe(job):
    if job["kind"] == "crate":
        return "%s --no-default-features --features [%s]" % (job["crate"], ",".join(job["features"]))
    return "downstream{%s}" % "; ".join(
        "%s%s[%s]" % (d["crate"], "" if d["default_features"] else "(no-default)", ",".join(d["features"]))
        for d in job["deps"])


def canon(job):
    if job["kind"] == "crate":
        return "crate|%s|%s" % (job["crate"], ",".join(job["features"]))
    return "downstream|" + "|".join(
        "%s:%s:%s" % (d["crate"], d["default_features"], ",".join(d["features"])) for d in job["deps"])


def nonempty_feature_set(job):
    if job["kind"] == "crate":
        return bool(job["features"])
    return any(d["features"] for d in job["deps"])


# ------------------------------------------------------------------------------------------------
# Target directories: one warm "seed" (third-party dependencies compiled once), copied per worker
# ------------------------------------------------------------------------------------------------

_worker_dirs = []
_dirs_lock = threading.Lock()
_run_dir = None


def cleanup():
    for d in _worker_dirs:
        shutil.rmtree(d, ignore_errors=True)
    if _run_dir:
        shutil.rmtree(_run_dir, ignore_errors=True)
    if os.environ.get("VERIF_FEAT_KEEP_SEED", "1") == "0":
        shutil.rmtree(SEED_DIR, ignore_errors=True)


def remove_stale_dirs():
    """Worker dirs / run dirs of runs that are no longer alive (killed before their cleanup)."""
    for base, pat in ((TARGET_BASE, r"^feat-(\d+)-w\d+$"), (RUN_BASE, r"^run-(\d+)$")):
        try:
            names = os.listdir(base)
        except OSError:
            continue
        for n in names:
            m = re.match(pat, n)
            if m and not os.path.exists("/proc/%s" % m.group(1)):
                shutil.rmtree(os.path.join(base, n), ignore_errors=True)


def prepare_seed(run_dir, ncpu, n_workers, log):
    """Compile the third-party dependency graph once (all optional dependencies of zvariant and
    zbus) into the seed dir, then copy it once per worker.  Purely an accelerator: cargo's own
    fingerprints decide what is fresh.  Failures here are ignored (the jobs decide)."""
    import fcntl
    os.makedirs(SEED_DIR, exist_ok=True)
    t0 = time.time()
    with open(os.path.join(TARGET_BASE, ".feat-seed.lock"), "w") as lf:
        fcntl.flock(lf, fcntl.LOCK_EX)
        # The seed only has to hold the compiled third-party dependencies; they are determined by
        # the lock file and the toolchain, so the seed is rebuilt only when those change.
        stamp_path = os.path.join(SEED_DIR, ".verif-seed-stamp")
        try:
            rustc_v = subprocess.run(["rustc", "-V"], stdout=subprocess.PIPE).stdout.decode()
        except OSError:
            rustc_v = "?"
        with open(os.path.join(REPO, "Cargo.lock"), "rb") as f:
            stamp = hashlib.sha256(f.read() + rustc_v.encode()).hexdigest()
        try:
            fresh = open(stamp_path).read().strip() == stamp
        except OSError:
            fresh = False
        if not fresh:
            ok = True
            # Third-party crates (syn, serde, futures, ..) are compiled once per *unified feature set*,
            # which differs between dependency graphs; seed the main graphs: every crate with no and
            # with all features, zbus with each runtime.
            variants = []
            for crate in CRATES:
                variants.append((crate, ["--no-default-features"] if crate != "zbus" else []))
                variants.append((crate, ["--all-features"]))
            for rt in ZBUS_RUNTIMES:
                variants.append(("zbus", ["--no-default-features", "--features", rt]))
            for crate, extra in variants:
                r = subprocess.run(["cargo", "check", "--offline", "--locked", "--manifest-path",
                                    os.path.join(REPO, crate, "Cargo.toml")] + extra,
                                   stdout=subprocess.DEVNULL, stderr=subprocess.DEVNULL,
                                   env=cargo_env(SEED_DIR, ncpu), cwd=run_dir)
                ok = ok and r.returncode == 0
            if ok:
                with open(stamp_path, "w") as f:
                    f.write(stamp + "\n")
        log("seed target dir %s in %.1fs" % ("reused" if fresh else "built", time.time() - t0))
        fcntl.flock(lf, fcntl.LOCK_SH)
        dirs = [None] * n_workers
        ts = [threading.Thread(target=lambda k=k: dirs.__setitem__(k, make_worker_dir(k))) for k in range(n_workers)]
        for t in ts:
            t.start()
        for t in ts:
            t.join()
        fcntl.flock(lf, fcntl.LOCK_UN)
    log("%d worker target dirs ready in %.1fs" % (n_workers, time.time() - t0))
    return dirs


def make_worker_dir(k):
    d = os.path.join(TARGET_BASE, "feat-%d-w%d" % (PID, k))
    shutil.rmtree(d, ignore_errors=True)
    with _dirs_lock:
        _worker_dirs.append(d)
    if os.path.isdir(os.path.join(SEED_DIR, "debug")):
        r = subprocess.run(["cp", "-a", "--reflink=auto", SEED_DIR, d],
                           stdout=subprocess.DEVNULL, stderr=subprocess.DEVNULL)
        if r.returncode != 0:
            shutil.rmtree(d, ignore_errors=True)
            os.makedirs(d, exist_ok=True)
    else:
        os.makedirs(d, exist_ok=True)
    return d


# ------------------------------------------------------------------------------------------------
# Known findings, evidence, replay artefacts (same conventions as engines/vcommon)
# ------------------------------------------------------------------------------------------------

def load_known():
    path = os.path.join(ROOT, "KNOWN_FINDINGS.jsonl")
    out = []
    try:
        text = open(path).read()
    except OSError:
        return out
    for n, line in enumerate(text.splitlines()):
        line = line.strip()
        if not line or line.startswith("#") or line.startswith("fixed:"):
            continue
        try:
            v = json.loads(line)
        except ValueError as e:
            machinery_failure("KNOWN_FINDINGS.jsonl line %d: %s" % (n + 1, e))
        if v.get("property") != PROPERTY or v.get("status") != "known":
            continue
        match = {k: (x if isinstance(x, str) else json.dumps(x)) for k, x in (v.get("match") or {}).items()}
        out.append({"id": v.get("id", "?"), "what": v.get("what", ""), "clause": v.get("clause", ""),
                    "match": match})
    return out


def known_match(known, clause, feats):
    for k in known:
        if k["clause"] == clause and all(feats.get(a) == b for a, b in k["match"].items()):
            return k
    return None


def fnv64(s):
    h = 0xcbf29ce484222325
    for b in s.encode():
        h ^= b
        h = (h * 0x100000001b3) & 0xFFFFFFFFFFFFFFFF
    return h


def write_replay(clause, feats, detail, payload):
    d = os.path.join(ROOT, "replays", PROPERTY)
    os.makedirs(d, exist_ok=True)
    name = "%s-%016x.json" % (re.sub(r"[^A-Za-z0-9]", "_", clause), fnv64(canon(payload["job"])))
    path = os.path.join(d, name)
    with open(path, "w") as f:
        json.dump({"property": PROPERTY, "clause": clause, "features": feats, "detail": detail,
                   "replay": payload}, f, indent=1, sort_keys=True)
        f.write("\n")
    return path


def replay(path, ncpu):
    global _run_dir
    try:
        art = json.load(open(path))
    except (OSError, ValueError) as e:
        machinery_failure("cannot read replay %s: %s" % (path, e))
    job = art["replay"]["job"]
    _run_dir = os.path.join(RUN_BASE, "run-%d" % PID)
    os.makedirs(_run_dir, exist_ok=True)
    td = make_worker_dir(0)
    res = run_job(job, td, _run_dir, ncpu)
    print("replay: %s" % describe(job))
    print("command: %s" % " ".join(res["cmd"]))
    print("exit status: %d (%.1fs)" % (res["exit"], res["wall_s"]))
    if res["exit"] != 0:
        print("failing crate: %s; error codes: %s; locations: %s" % (
            res.get("failing_crate"), res.get("error_codes"), ", ".join(res.get("error_locations", []))))
        print("---- compiler output (tail) ----")
        print(res["output_tail"][-3000:])
    print("observation: configuration %s" % ("BUILDS" if res["exit"] == 0 else "DOES NOT BUILD"))
    cleanup()
    return 0 if res["exit"] == 0 else 1


# ------------------------------------------------------------------------------------------------
# main
# ------------------------------------------------------------------------------------------------

def main():
    global _run_dir
    argv = sys.argv[1:]
    if not argv or argv[0] != PROPERTY:
        machinery_failure("usage: run.py C35 [--tier quick|thorough] [--replay path]")
    tier = os.environ.get("VERIF_TIER", "quick")
    replay_path = None
    i = 1
    while i < len(argv):
        if argv[i] == "--tier" and i + 1 < len(argv):
            tier = argv[i + 1]
            i += 2
        elif argv[i] == "--replay" and i + 1 < len(argv):
            replay_path = argv[i + 1]
            i += 2
        else:
            machinery_failure("unknown argument %s" % argv[i])
    if tier not in ("quick", "thorough"):
        machinery_failure("bad --tier")
    try:
        seed = int(os.environ.get("VERIF_SEED", "0"))
    except ValueError:
        seed = 0
    ncpu = os.cpu_count() or 4
    if not os.path.isfile(os.path.join(REPO, "Cargo.lock")):
        machinery_failure("no repository at %s" % REPO)
    os.makedirs(TARGET_BASE, exist_ok=True)
    os.makedirs(RUN_BASE, exist_ok=True)
    remove_stale_dirs()
    if replay_path:
        return replay(replay_path, ncpu)
    if os.environ.get("VERIF_FEAT_PREPARE_ONLY") == "1":
        # used by setup.sh: compile the third-party dependency seed once so that the check itself
        # does not have to
        prep = os.path.join(RUN_BASE, "prepare-%d" % PID)
        os.makedirs(prep, exist_ok=True)
        for d in prepare_seed(prep, ncpu, 0, lambda m: sys.stderr.write("[C35 setup] %s\n" % m)):
            pass
        shutil.rmtree(prep, ignore_errors=True)
        return 0

    t_start = time.time()
    tree_before = tree_fingerprint()

    def log(msg):
        sys.stderr.write("[C35 %.0fs] %s\n" % (time.time() - t_start, msg))
        sys.stderr.flush()

    feats, extra_pkgs = load_features()
    crate_jobs, controls = enumerate_crate_jobs(feats, tier)
    ds_jobs = enumerate_downstream_jobs(tier)
    if tier == "quick":
        # The quick tier is the check one runs on every change: a fixed, much smaller slice of the
        # enumeration (the thorough tier runs all of it and more).
        def quick_keep(job):
            if job["kind"] == "downstream":
                return job["name"] in ("zbus-default__zvariant-none", "zbus-default__zvariant-gvariant",
                                       "zbus-tokio-bus-impl-blocking__zvariant-none")
            c, note, fs = job["crate"], job.get("note", ""), job["features"]
            if c == "zbus":
                return note in ("runtime alone", "all features", "runtime + core")
            if c == "zvariant":
                return (note in ("no features", "all features")
                        or fs in (["gvariant"], ["option-as-array"], ["gvariant", "option-as-array"]))
            if c in ("zvariant_utils", "zvariant_derive", "zbus_macros"):
                return note == "all features"
            return note == "no features"
        crate_jobs = [j for j in crate_jobs if quick_keep(j)]
        ds_jobs = [j for j in ds_jobs if quick_keep(j)]
        controls = controls[:1]
    only = os.environ.get("VERIF_FEAT_ONLY")
    if only:
        # development / demonstration aid: restrict the run to the configurations whose description
        # matches the regular expression (reported as a cap; the evidence then covers only that part)
        rx = re.compile(only)
        crate_jobs = [j for j in crate_jobs if rx.search(describe(j))]
        ds_jobs = [j for j in ds_jobs if rx.search(describe(j))]
        controls = [j for j in controls if rx.search(describe(j))]
    jobs = crate_jobs + ds_jobs + controls
    if not jobs:
        machinery_failure("VERIF_FEAT_ONLY=%r selects no configuration" % only)
    log("%d crate configurations, %d downstream crates, %d controls" % (len(crate_jobs), len(ds_jobs), len(controls)))

    _run_dir = os.path.join(RUN_BASE, "run-%d" % PID)
    shutil.rmtree(_run_dir, ignore_errors=True)
    os.makedirs(_run_dir, exist_ok=True)

    try:
        workers = int(os.environ.get("VERIF_JOBS", "0")) or ncpu
    except ValueError:
        workers = ncpu
    workers = max(1, min(workers, len(jobs)))
    per_cargo = max(1, (2 * ncpu) // workers)
    worker_dirs = prepare_seed(_run_dir, ncpu, workers, log)

    # Group affinity: jobs that share most compiled artefacts go to the same workers.  Every job is
    # in a shared list per group; a worker first drains its own group, then helps the others.
    def group(job):
        if job["kind"] == "downstream":
            return "ds"
        return "zbus" if job["crate"] in ("zbus", "zbus_macros", "zbus_xmlgen") else "zv"

    queues = {"zv": [], "zbus": [], "ds": []}
    for idx, job in enumerate(jobs):
        queues[group(job)].append(idx)
    weight = {"zv": 1.0, "zbus": 2.0, "ds": 2.0}
    total_w = sum(len(q) * weight[g] for g, q in queues.items()) or 1.0
    order = ["zbus", "ds", "zv"]
    home = []
    for g in order:
        n = max(1, int(round(workers * len(queues[g]) * weight[g] / total_w))) if queues[g] else 0
        home += [g] * n
    home = (home + ["zbus"] * workers)[:workers]
    qlock = threading.Lock()
    results = [None] * len(jobs)
    done = [0]

    def take(pref):
        with qlock:
            for g in [pref] + [x for x in order if x != pref]:
                if queues[g]:
                    return queues[g].pop(0)
        return None

    def worker(k):
        td = worker_dirs[k]
        while True:
            idx = take(home[k])
            if idx is None:
                return
            results[idx] = run_job(jobs[idx], td, _run_dir, per_cargo)
            with qlock:
                done[0] += 1
                if done[0] % 20 == 0:
                    log("%d/%d configurations checked" % (done[0], len(jobs)))

    threads = [threading.Thread(target=worker, args=(k,)) for k in range(workers)]
    for t in threads:
        t.start()
    for t in threads:
        t.join()

    # The repository may be edited by somebody else while this run is in progress (a half-applied
    # change makes unrelated configurations fail).  Every failing configuration is therefore checked
    # a second time at the end, one after the other; the verdict is the second observation.
    tree_after = tree_fingerprint()
    rechecked, recovered = 0, []
    for idx, (job, res) in enumerate(zip(jobs, results)):
        if res is None or res["exit"] == 0 or job["note"].startswith("control"):
            continue
        rechecked += 1
        again = run_job(job, worker_dirs[0], _run_dir, ncpu)
        if again["exit"] == 0:
            recovered.append(describe(job))
        results[idx] = again
    if recovered:
        log("%d configurations failed during the run but build now (repository edited concurrently?): %s"
            % (len(recovered), "; ".join(recovered[:5])))

    # ---------------------------------------------------------------- verdicts (deterministic order)
    known = load_known()
    matched, unmatched, outcomes = {}, [], {}
    samples, machinery = [], []
    nontrivial = set()
    n_fail = 0
    control_ok = 0
    for job, res in zip(jobs, results):
        if res is None:
            machinery_failure("job was not run: %s" % describe(job))
        is_control = job["note"].startswith("control")
        if res["exit"] != 0 and res.get("machinery") and not res.get("error_codes", "").startswith("E"):
            machinery.append("%s: %s" % (describe(job), res["machinery"]))
            continue
        if nonempty_feature_set(job):
            nontrivial.add(canon(job))
        if is_control:
            if res["exit"] != 0 and res.get("documented_compile_error"):
                control_ok += 1
                outcomes["control-rejected-by-documented-compile_error"] = \
                    outcomes.get("control-rejected-by-documented-compile_error", 0) + 1
            else:
                outcomes["control-unexpected"] = outcomes.get("control-unexpected", 0) + 1
            if len([s for s in samples if s.get("control")]) < 1:
                samples.append({"control": True, "config": describe(job), "cmd": " ".join(res["cmd"]),
                                "exit": res["exit"], "first_message": res.get("first_message", "")})
            continue
        if res["exit"] == 0:
            cls = "builds:" + job["kind"]
            outcomes[cls] = outcomes.get(cls, 0) + 1
            continue
        n_fail += 1
        clause = "crate-builds" if job["kind"] == "crate" else "downstream-builds"
        f = features_of(job, res)
        detail = "%s does not build: %s in `%s` at %s (%s)" % (
            describe(job), f["error_codes"] or "error", f["failing_crate"],
            ", ".join(res.get("error_locations", [])[:6]), res.get("first_message", ""))
        k = known_match(known, clause, f)
        cls = "fails:%s:%s:%s" % (job["kind"], f["failing_crate"], f["error_codes"])
        outcomes[cls] = outcomes.get(cls, 0) + 1
        payload = {"job": job, "cmd": res["cmd"], "exit": res["exit"], "repo": REPO,
                   "error_locations": res.get("error_locations", []), "output_tail": res["output_tail"][-3000:]}
        if k:
            m = matched.setdefault(k["id"], {"what": k["what"], "cases": []})
            m["cases"].append(describe(job))
        else:
            unmatched.append((clause, f, detail, payload))

    if machinery:
        for m in machinery[:10]:
            sys.stderr.write("machinery: %s\n" % m)
        machinery_failure("%d configurations could not be decided (lock file / offline resolution)" % len(machinery))

    # samples: a spread of the actual configurations
    picks = []
    for want in ("crate", "downstream"):
        rs = [(j, r) for j, r in zip(jobs, results) if j["kind"] == want and not j["note"].startswith("control")]
        step = max(1, len(rs) // 4)
        picks += rs[::step][:4]
        picks += [x for x in rs if x[1]["exit"] != 0][:2]
    seen_s = set()
    for j, r in picks:
        if canon(j) in seen_s:
            continue
        seen_s.add(canon(j))
        s = {"config": describe(j), "cmd": " ".join(r["cmd"]).replace(_run_dir, "<run>"), "exit": r["exit"],
             "wall_s": r["wall_s"]}
        if r["exit"] != 0:
            s["error"] = "%s in %s at %s" % (r.get("error_codes"), r.get("failing_crate"),
                                           ", ".join(r.get("error_locations", [])[:5]))
        samples.append(s)

    for kid in sorted(matched):
        print("KNOWN-FINDING: property=%s %s %s" % (PROPERTY, kid, matched[kid]["what"]))
    for k in known:
        if k["id"] not in matched:
            print("note: known finding %s (%s) was not reproduced by this run" % (k["id"], k["what"]))
    replays = []
    seen_ident = set()
    for clause, f, detail, payload in unmatched:
        ident = (clause, json.dumps(f, sort_keys=True))
        if ident in seen_ident:
            continue
        seen_ident.add(ident)
        if len(replays) >= 20:
            break
        p = write_replay(clause, f, detail, payload)
        replays.append(p)
        print("violation: clause=%s %s" % (clause, detail))
        print("VIOLATION property=%s replay=%s" % (PROPERTY, p))

    excluded = ["zbus feature sets enabling neither `async-io` nor `tokio`: documented compile_error in "
                "zbus/src/lib.rs (checked as controls: %d of %d controls failed with that message)"
                % (control_ok, len(controls))]
    for (c, f), why in sorted(EXCLUDED_FROM_COMBINATIONS.items()):
        excluded.append("%s/%s left out of pairs/powersets (still checked alone and in all-features): %s" % (c, f, why))
    caps = []
    if tier == "quick":
        caps.append("quick tier: a fixed slice of the enumeration only — per crate no-features/all-features, zvariant's "
                    "gvariant/option-as-array singles and pair, zbus per runtime alone and with the core set %s, and three "
                    "downstream mixes; the thorough tier runs singles, pairs, subsets and all downstream mixes"
                    % json.dumps(CORE["zbus"]))
    else:
        caps.append("thorough tier: zvariant subsets of size <= 3 and their complements (not the full 2^%d powerset); "
                    "zbus: runtime x pairs, all-but-one (not the full powerset)" % len(feats["zvariant"]))
    if only:
        caps.append("VERIF_FEAT_ONLY=%r: only the matching configurations were run" % only)
    wall = round(time.time() - t_start, 3)
    evaluations = len(jobs)
    cov = {
        "evaluations": evaluations,
        "distinct_nontrivial": len(nontrivial),
        "rule": "cases = cargo check invocations: per workspace crate the feature sets {none, each single, "
                "all, pairs of the core set%s} (zbus: each set on top of each runtime async-io/tokio), plus "
                "synthetic downstream crates {zbus | zbus_names+zbus_xml} x zvariant{none,gvariant,option-as-array,both} "
                "and zbus{async-io,tokio} x blocking-api on/off x {p2p,bus-impl}; enumerated in fixed order, "
                "de-duplicated. distinct_nontrivial = number of distinct configurations whose requested feature "
                "set is non-empty (set of canonical strings, measured)." % (
                    "" if tier == "quick" else ", subsets of size<=3 + complements / powerset for <=8 features"),
        "samples": samples[:14],
        "exhaustive": False,
        "caps_hit": caps,
        "configurations": {"crate": len(crate_jobs), "downstream": len(ds_jobs), "controls": len(controls)},
        "per_crate": {c: len([j for j in crate_jobs if j["crate"] == c]) for c in CRATES},
        "features_per_crate": {c: feats[c] for c in CRATES},
        "excluded": excluded,
        "outcome_classes": dict(sorted(outcomes.items())),
        "distinct_outcome_classes": len(outcomes),
        "failing_configurations_total": n_fail,
        "known_findings_matched": [{"id": k, "what": matched[k]["what"], "cases": len(matched[k]["cases"]),
                                    "examples": matched[k]["cases"][:4]} for k in sorted(matched)],
        "workers": workers,
        "repo": REPO,
        "failing_configurations_rechecked": rechecked,
        "failed_first_but_built_on_recheck": recovered,
        "repository_changed_during_run": tree_before != tree_after,
    }
    if replays:
        cov["replays"] = replays
    ev = {
        "property_id": PROPERTY, "tier": tier, "seed": seed, "level": "exploration", "coverage": cov,
        "assumptions": [
            "the oracle is `cargo check` exit status 0 for the host target (x86_64 Linux), library and binary targets "
            "only (no tests/examples/benches), with the dependency versions of the repository's Cargo.lock, offline",
            "cargo's fingerprinting is trusted: worker target dirs start as copies of a seed dir in which the "
            "third-party dependencies were compiled once",
            "windows/macos-only code paths are not compiled",
        ],
        "wall_s": wall,
        "violations": len(seen_ident),
    }
    os.makedirs(os.path.join(ROOT, "evidence"), exist_ok=True)
    with open(os.path.join(ROOT, "evidence", "%s.json" % PROPERTY), "w") as f:
        json.dump(ev, f, indent=1)
        f.write("\n")
    print("%s: tier=%s evaluations=%d distinct_nontrivial=%d outcome_classes=%d violations=%d known=%d wall=%.1fs" % (
        PROPERTY, tier, evaluations, len(nontrivial), len(outcomes), len(seen_ident), len(matched), wall))
    cleanup()
    return 1 if unmatched else 0


if __name__ == "__main__":
    try:
        code = main()
    except KeyboardInterrupt:
        cleanup()
        code = 2
    sys.exit(code)
