//! C15 — message serial numbers are never zero and never repeat.
//!
//! Real threads (shuttle's controlled threads) build messages concurrently; every operation on the
//! process-wide serial counter (hook H4) is a scheduling point, and shuttle's DFS scheduler runs
//! ALL interleavings of those points, from start values around 0 and the u32 wrap boundary.

use std::sync::{
    atomic::{AtomicU64, Ordering},
    Arc, Mutex,
};

use serde_json::json;
use vcommon::{Args, Report, Violation};
use zbus::Message;

fn hook() {
    TRACE.with(|_| ());
    if let Some(t) = CUR_TRACE.lock().unwrap().as_mut() {
        t.push(format!("{:?}", shuttle::thread::current().id()));
    }
    shuttle::thread::yield_now();
}

thread_local! { static TRACE: () = (); }
static CUR_TRACE: Mutex<Option<Vec<String>>> = Mutex::new(None);

struct Case {
    threads: usize,
    per: usize,
    start: u32,
}

fn explore(case: &Case, report: &Report, find_trace: Option<&Vec<String>>) -> u64 {
    let schedules = Arc::new(AtomicU64::new(0));
    let bad: Arc<Mutex<Vec<(Vec<Vec<u32>>, Vec<String>, String)>>> = Default::default();
    let outcomes: Arc<Mutex<std::collections::BTreeSet<Vec<Vec<u32>>>>> = Default::default();
    let (threads, per, start) = (case.threads, case.per, case.start);
    let (s2, b2, o2) = (schedules.clone(), bad.clone(), outcomes.clone());
    let want = find_trace.cloned();
    zbus::verif::set_atomic_hook(Some(hook));
    shuttle::check_dfs(
        move || {
            zbus::verif::SERIAL_NUM.set(start);
            *CUR_TRACE.lock().unwrap() = Some(vec![]);
            let hs: Vec<_> = (0..threads)
                .map(|_| {
                    shuttle::thread::spawn(move || {
                        (0..per)
                            .map(|_| {
                                // a panic while building (e.g. a zero serial hitting NonZeroU32)
                                // is recorded as serial 0
                                vcommon::catch(|| {
                                    Message::signal("/p", "a.b", "S")
                                        .unwrap()
                                        .build(&())
                                        .unwrap()
                                        .primary_header()
                                        .serial_num()
                                        .get()
                                })
                                .unwrap_or(0)
                            })
                            .collect::<Vec<u32>>()
                    })
                })
                .collect();
            let got: Vec<Vec<u32>> = hs.into_iter().map(|h| h.join().unwrap()).collect();
            let trace = CUR_TRACE.lock().unwrap().take().unwrap_or_default();
            s2.fetch_add(1, Ordering::Relaxed);
            let all: Vec<u32> = got.iter().flatten().cloned().collect();
            let mut problem = None;
            if all.iter().any(|s| *s == 0) {
                problem = Some("zero".to_string());
            }
            let mut sorted = all.clone();
            sorted.sort();
            sorted.dedup();
            if sorted.len() != all.len() {
                problem = Some("repeat".to_string());
            }
            if let Some(w) = &want {
                if *w == trace {
                    println!("replayed interleaving {trace:?}: serials per thread {got:?} problem={problem:?}");
                }
            }
            o2.lock().unwrap().insert(got.clone());
            if let Some(p) = problem {
                let mut b = b2.lock().unwrap();
                if b.len() < 4 {
                    b.push((got, trace, p));
                }
            }
        },
        None,
    );
    zbus::verif::set_atomic_hook(None);
    let n = schedules.load(Ordering::Relaxed);
    report.eval(n);
    for o in outcomes.lock().unwrap().iter() {
        report.nontrivial(vcommon::hash64(&(case.threads, case.per, case.start, o)));
    }
    report.outcome_n("distinct-serial-assignments", outcomes.lock().unwrap().len() as u64);
    for (got, trace, p) in bad.lock().unwrap().iter() {
        report.violation(
            Violation::new(
                if p == "zero" { "never-zero" } else { "never-repeats" },
                format!(
                    "{} threads × {} messages from counter value {}: serials per thread {:?} ({p}); interleaving of counter operations by thread: {:?}",
                    case.threads, case.per, case.start, got, trace
                ),
                json!({"threads": case.threads, "per": case.per, "start": case.start, "trace": trace}),
            )
            .feat("kind", p),
        );
    }
    n
}

pub fn main(args: &Args) -> i32 {
    if let Some(p) = &args.replay {
        let j = vcommon::load_replay(p);
        let r = &j["replay"];
        let case = Case {
            threads: r["threads"].as_u64().unwrap() as usize,
            per: r["per"].as_u64().unwrap() as usize,
            start: r["start"].as_u64().unwrap() as u32,
        };
        let trace: Vec<String> = r["trace"].as_array().unwrap().iter().map(|s| s.as_str().unwrap().to_string()).collect();
        let report = Report::new("C15-replay", args.tier, args.seed, "model_checking");
        explore(&case, &report, Some(&trace));
        return 0;
    }
    let report = Report::new("C15", args.tier, args.seed, "model_checking");
    let shapes: Vec<(usize, usize)> = args.tier.pick(vec![(2, 2), (3, 1)], vec![(2, 3), (3, 2), (4, 1)]);
    let starts = [0u32, 1, u32::MAX - 2, u32::MAX - 1, u32::MAX];
    let mut total = 0u64;
    let mut per_case = vec![];
    for (threads, per) in shapes {
        for start in starts {
            let case = Case { threads, per, start };
            let n = explore(&case, &report, None);
            per_case.push(json!({"threads": threads, "messages_per_thread": per, "counter_start": start, "interleavings": n}));
            total += n;
        }
    }
    report.sample(per_case[0].clone());
    report.sample(per_case[per_case.len() - 1].clone());
    report.set("cases", json!(per_case));
    report.set("states", json!(report.evaluations()));
    report.set("transitions", json!(total));
    report.set("traces_validated_against_impl", json!(total));
    report.assume("scheduling points are exactly the operations on the serial counter (hook H4 wraps fetch_add/load/store/swap/compare_exchange/fetch_update); memory orderings are not modelled — the property needs only atomicity of the read-modify-write");
    report.assume("shuttle's DFS scheduler explores all interleavings of those points exhaustively (no bound)");
    report.finish(
        "all interleavings (shuttle DFS, unbounded) of the counter operations of N threads building M messages each, from counter values 0, 1 and around the u32 wrap; distinct_nontrivial = distinct serial assignments observed",
        true,
    )
}
