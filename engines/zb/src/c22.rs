//! C22 — a match rule's string form parses back to the same rule.
//!
//! Part A (rules → strings): every rule of a product of per-key option sets — argument values over
//! a set of awkward strings (quotes, commas, backslashes, empty, space, '=') at indices 0, 1, 63 —
//! is built through `MatchRule::builder()`, formatted with `Display`, and the string is read back
//! (a) by the conformant parser `refmatch::parse` and (b) by `MatchRule::try_from`; both must give
//! the rule that was built. Single-key rules give each defect its identity; a failure of a
//! multi-key rule none of whose keys fails alone is reported as a key interaction.
//!
//! Part B (strings → rules): every string assembled from at most three `key=value` tokens over a
//! token alphabet (quoted, unquoted, oddly quoted, invalid forms); for every string zbus accepts:
//! parse → format → parse gives an equal rule.
//!
//! Thorough tier: the conformant parser itself is audited against `dbus-daemon` (AddMatch
//! accept/reject for every string of part B, and delivery for argument-only rules).

use std::collections::BTreeSet;

use serde_json::json;
use vcommon::{catch, enumerate, hash64, machinery_failure, par_for, Args, Report, Tier, Violation};
use zbus::MatchRule;

use crate::{
    c21::{build_rule, Opt},
    refmatch::{self, MType, ParseOpts, RArg, RMsg, RRule},
};

pub const VALUES: &[&str] = &["", "a", "'", ",", "\\", "'\\''", "a,b", "=", " ", "a'b", "','"];

fn slots() -> Vec<Vec<Option<Opt>>> {
    let s = |x: &str| x.to_string();
    let arg = |i: u8| -> Vec<Option<Opt>> {
        let mut v = vec![None];
        v.extend(VALUES.iter().map(|x| Some(Opt::Arg(i, s(x)))));
        v
    };
    vec![
        vec![None, Some(Opt::Type(MType::Signal)), Some(Opt::Type(MType::Error))],
        vec![None, Some(Opt::Sender(s(":1.1"))), Some(Opt::Sender(s("a.wk")))],
        vec![None, Some(Opt::Interface(s("i.A")))],
        vec![None, Some(Opt::Member(s("A")))],
        vec![None, Some(Opt::Path(s("/a"))), Some(Opt::PathNs(s("/a")))],
        vec![None, Some(Opt::Dest(s(":1.2")))],
        arg(0),
        arg(1),
        arg(63),
        vec![None, Some(Opt::ArgPath(0, s("/a"))), Some(Opt::ArgPath(0, s("/")))],
        vec![None, Some(Opt::ArgPath(63, s("/a")))],
        vec![None, Some(Opt::Arg0Ns(s("a.b")))],
    ]
}

/// How a string form was read back.
#[derive(Clone, Debug, PartialEq, Eq)]
enum Back {
    Same,
    Different(String),
    Error(String),
    Panic(String),
}

impl Back {
    fn class(&self) -> &'static str {
        match self {
            Back::Same => "same-rule",
            Back::Different(_) => "different-rule",
            Back::Error(_) => "parse-error",
            Back::Panic(_) => "panic",
        }
    }
    fn text(&self) -> String {
        match self {
            Back::Same => "the same rule".into(),
            Back::Different(d) => format!("a different rule: {d}"),
            Back::Error(e) => format!("an error: {e}"),
            Back::Panic(e) => format!("a panic: {e}"),
        }
    }
}

struct Obs {
    text: String,
    conformant: Back,
    zbus: Back,
}

fn observe(rr: &RRule) -> Result<Obs, String> {
    let z = build_rule(rr)?;
    let text = match catch(|| z.to_string()) {
        Ok(t) => t,
        Err(p) => {
            return Ok(Obs {
                text: String::new(),
                conformant: Back::Panic(p.clone()),
                zbus: Back::Panic(p),
            })
        }
    };
    let conformant = match refmatch::parse(&text, ParseOpts::LENIENT) {
        Ok(p) if p == *rr => Back::Same,
        Ok(p) => Back::Different(refmatch::rule_to_json(&p).to_string()),
        Err(e) => Back::Error(e),
    };
    let zbus = match catch(|| MatchRule::try_from(text.as_str()).map(|r| (r == z, r.to_string()))) {
        Ok(Ok((true, _))) => Back::Same,
        Ok(Ok((false, s))) => Back::Different(s),
        Ok(Err(e)) => Back::Error(e.to_string()),
        Err(p) => Back::Panic(p),
    };
    Ok(Obs { text, conformant, zbus })
}

fn value_features(v: Violation, o: &Opt) -> Violation {
    let val = match o {
        Opt::Arg(_, s) | Opt::ArgPath(_, s) | Opt::Arg0Ns(s) | Opt::Sender(s) | Opt::Interface(s) | Opt::Member(s)
        | Opt::Path(s) | Opt::PathNs(s) | Opt::Dest(s) => s.clone(),
        Opt::Type(t) => t.as_str().to_string(),
    };
    v.feat("key", o.key().family())
        .feat("value_has_quote", val.contains('\''))
        .feat("value_has_comma", val.contains(','))
        .feat("value_has_backslash", val.contains('\\'))
        .feat("value_empty", val.is_empty())
}

const CL_CONF: &str = "string-form-read-back-by-conformant-parser";
const CL_ZBUS: &str = "string-form-read-back-by-zbus";
const CL_STABLE: &str = "parse-format-parse-stable";

fn part_a(report: &Report, tier: Tier) {
    let slots = slots();
    // single-key table: [slot][opt] -> (conformant ok, zbus ok)
    let mut ok_tab: Vec<Vec<(bool, bool)>> = vec![];
    for slot in &slots {
        let mut row = vec![];
        for opt in slot {
            let Some(o) = opt else {
                row.push((true, true));
                continue;
            };
            let mut rr = RRule::default();
            o.apply(&mut rr);
            let obs = observe(&rr).unwrap_or_else(|e| machinery_failure(&format!("C22: cannot build {}: {e}", refmatch::print(&rr))));
            report.eval(1);
            report.nontrivial(hash64(&("single", refmatch::print(&rr))));
            report.outcome(&format!("single-key: conformant parser reads {}", obs.conformant.class()));
            report.outcome(&format!("single-key: zbus reads {}", obs.zbus.class()));
            if matches!(o, Opt::Arg(0, _) | Opt::Type(MType::Signal)) {
                report.sample(json!({"rule": refmatch::print(&rr), "display": obs.text,
                    "conformant": obs.conformant.class(), "zbus": obs.zbus.class()}));
            }
            for (clause, back, who) in [(CL_CONF, &obs.conformant, "a conformant parser"), (CL_ZBUS, &obs.zbus, "MatchRule::try_from")] {
                if *back != Back::Same {
                    report.violation(
                        value_features(
                            Violation::new(
                                clause,
                                format!(
                                    "rule {} is formatted as `{}`, which {who} reads as {}",
                                    refmatch::rule_to_json(&rr),
                                    obs.text,
                                    back.text()
                                ),
                                json!({"rule": refmatch::rule_to_json(&rr)}),
                            ),
                            o,
                        )
                        .feat("kind", "single-key")
                        .feat("outcome", back.class()),
                    );
                }
            }
            row.push((obs.conformant == Back::Same, obs.zbus == Back::Same));
        }
        ok_tab.push(row);
    }
    // product
    let mut dims: Vec<usize> = slots.iter().map(|s| s.len()).collect();
    if tier == Tier::Quick {
        // quick: two of the three argument slots at a time are enough to see interactions between
        // values; slot arg63 is restricted to {absent, "", "a", "'", ","}
        dims[8] = 5;
    }
    let n = enumerate::product_size(&dims);
    report.set("rules_in_product", json!(n));
    const CHUNK: usize = 512;
    par_for(n.div_ceil(CHUNK), 1, |ci| {
      let mut local: Vec<u64> = vec![];
      let mut n_eval = 0u64;
      let mut oc = [0u64; 3];
      for ri in ci * CHUNK..((ci + 1) * CHUNK).min(n) {
        let mut idx = vec![];
        enumerate::nth_product(&dims, ri, &mut idx);
        if idx.iter().filter(|i| **i != 0).count() < 2 {
            continue;
        }
        let mut rr = RRule::default();
        for (s, i) in idx.iter().enumerate() {
            if let Some(o) = &slots[s][*i] {
                o.apply(&mut rr);
            }
        }
        let obs = match observe(&rr) {
            Ok(o) => o,
            Err(e) => machinery_failure(&format!("C22: cannot build {}: {e}", refmatch::print(&rr))),
        };
        let all_conf = idx.iter().enumerate().all(|(s, i)| ok_tab[s][*i].0);
        let all_zbus = idx.iter().enumerate().all(|(s, i)| ok_tab[s][*i].1);
        n_eval += 1;
        // non-trivial: some argument value needs quoting or is empty
        if rr.args.values().any(|v| v.is_empty() || v.contains(['\'', ',', '\\', ' ', '='])) {
            local.push(hash64(&("product", ri)));
        }
        for (clause, back, singles_ok, who) in [
            (CL_CONF, &obs.conformant, all_conf, "a conformant parser"),
            (CL_ZBUS, &obs.zbus, all_zbus, "MatchRule::try_from"),
        ] {
            if *back == Back::Same {
                continue;
            }
            if !singles_ok {
                // some key of this rule already fails alone: explained by the single-key finding
                report.add("product_failures_explained_by_single_key_findings", 1);
                continue;
            }
            let keys: Vec<String> = rr.keys().iter().map(|k| k.family().to_string()).collect();
            report.violation(
                Violation::new(
                    clause,
                    format!(
                        "rule {} is formatted as `{}`, which {who} reads as {} (each key alone round-trips)",
                        refmatch::rule_to_json(&rr),
                        obs.text,
                        back.text()
                    ),
                    json!({"rule": refmatch::rule_to_json(&rr)}),
                )
                .feat("kind", "key-interaction")
                .feat("keys", keys.join("+"))
                .feat("outcome", back.class()),
            );
        }
        // the daemon's one-matcher-per-argument-index restriction, recorded only
        if obs.conformant == Back::Same && obs.zbus == Back::Same {
            if refmatch::parse(&obs.text, ParseOpts::DAEMON).is_err() {
                oc[0] += 1;
            } else {
                oc[1] += 1;
            }
        } else {
            oc[2] += 1;
        }
      }
      report.eval(n_eval);
      report.nontrivial_many(local);
      for (i, name) in [
          "product: read back as the same rule by both parsers, but dbus-daemon itself refuses the string (same argument index in argN and argNpath/arg0namespace, or more than 16 tokens)",
          "product: read back as the same rule by both parsers",
          "product: not read back as the same rule (explained by a single-key finding, or reported)",
      ]
      .iter()
      .enumerate()
      {
          if oc[i] > 0 {
              report.outcome_n(name, oc[i]);
          }
      }
    });
}

// ---------------------------------------------------------------------------------------------
// Part B: strings

pub fn tokens() -> Vec<&'static str> {
    vec![
        "type='signal'",
        "type=signal",
        "type='bogus'",
        "sender=':1.1'",
        "sender='a.wk'",
        "interface='i.A'",
        "member='A'",
        "path='/a'",
        "path_namespace='/a'",
        "destination=':1.2'",
        "arg0='a'",
        "arg0=''",
        "arg0=a",
        "arg0=",
        "arg0='a,b'",
        "arg0='a''b'",
        "arg0='a'\\''b'",
        "arg0=a\\'b",
        "arg0='''",
        "arg0='\\'",
        "arg0=\\",
        "arg0='a b'",
        "arg0='='",
        "arg1='x'",
        "arg63='x'",
        "arg64='x'",
        "arg0path='/a'",
        "arg0path='/a/'",
        "arg0namespace='a.b'",
        "arg0namespace='a.'",
        "arg+1='x'",
        "arg1pathx='/a'",
        "arg='x'",
        "eavesdrop='true'",
        "",
        " member='A'",
        "member='A' ",
        "member = 'A'",
        "member",
        "bogus='x'",
    ]
}

pub fn rule_strings(max_tokens: usize) -> Vec<String> {
    let toks = tokens();
    let k = toks.len();
    let mut out = vec![];
    let mut v = vec![];
    // index 0 is the empty string (no tokens)
    for i in 0..enumerate::count_strings(k, max_tokens) {
        enumerate::nth_string(k, i, &mut v);
        out.push(v.iter().map(|t| toks[*t]).collect::<Vec<_>>().join(","));
    }
    out
}

fn part_b(report: &Report) -> Vec<String> {
    let strings = rule_strings(3);
    report.set("rule_strings", json!(strings.len()));
    par_for(strings.len(), 64, |i| {
        let s = &strings[i];
        report.eval(1);
        let conf = refmatch::parse(s, ParseOpts::LENIENT);
        let z1 = catch(|| MatchRule::try_from(s.as_str()).map(|r| r.into_owned()));
        let class = match (&z1, &conf) {
            (Err(_), _) => "string: zbus panics",
            (Ok(Ok(_)), Ok(_)) => "string: accepted by zbus and by the conformant parser",
            (Ok(Ok(_)), Err(_)) => "string: accepted by zbus only",
            (Ok(Err(_)), Ok(_)) => "string: accepted by the conformant parser only",
            (Ok(Err(_)), Err(_)) => "string: rejected by both",
        };
        report.outcome(class);
        let r1 = match z1 {
            Ok(Ok(r)) => r,
            Ok(Err(_)) => return,
            Err(p) => {
                report.violation(
                    Violation::new(CL_STABLE, format!("MatchRule::try_from({s:?}) panics: {p}"), json!({"string": s}))
                        .feat("kind", "string")
                        .feat("outcome", "panic"),
                );
                return;
            }
        };
        report.nontrivial(hash64(&("string", s)));
        if i % 1500 == 7 {
            report.sample(json!({"string": s, "zbus_reads": r1.to_string(), "conformant": conf.as_ref().map(refmatch::print).map_err(|e| e.clone())}));
        }
        let s2 = match catch(|| r1.to_string()) {
            Ok(t) => t,
            Err(p) => {
                report.violation(
                    Violation::new(CL_STABLE, format!("formatting the rule parsed from {s:?} panics: {p}"), json!({"string": s}))
                        .feat("kind", "string")
                        .feat("outcome", "panic"),
                );
                return;
            }
        };
        let back = match catch(|| MatchRule::try_from(s2.as_str()).map(|r| r == r1)) {
            Ok(Ok(true)) => return,
            Ok(Ok(false)) => "different-rule",
            Ok(Err(_)) => "parse-error",
            Err(_) => "panic",
        };
        report.violation(
            Violation::new(
                CL_STABLE,
                format!("{s:?} is accepted, formats as {s2:?}, and that gives {back} when parsed again"),
                json!({"string": s}),
            )
            .feat("kind", "string")
            .feat("outcome", back)
            .feat("value_has_quote", r1.args().iter().any(|(_, v)| v.contains('\'')))
            .feat("value_has_comma", r1.args().iter().any(|(_, v)| v.contains(','))),
        );
    });
    strings
}

// ---------------------------------------------------------------------------------------------
// audit of the conformant parser against dbus-daemon

fn audit(report: &Report, strings: &[String]) {
    use refmatch::audit::{Bus, Pair};
    let lib = refmatch::ffi::Lib::load().unwrap_or_else(|e| machinery_failure(&format!("C22 audit: {e}")));
    let bus = Bus::start("c22-bus").unwrap_or_else(|e| machinery_failure(&format!("C22 audit: {e}")));
    let pair = Pair::new(&lib, &bus).unwrap_or_else(|e| machinery_failure(&format!("C22 audit: {e}")));
    let (mut n_acc, mut n_rej, mut n_deliv) = (0u64, 0u64, 0u64);
    let mut masked = BTreeSet::new();
    for s in strings {
        // Masks: the daemon's tokenizer has two quirks that are artefacts of its loop, not of the
        // grammar: a key that is empty stops progress (the rule is then accepted with the tokens
        // seen so far), which affects strings with an empty token followed by more text.
        let want = refmatch::parse(s, ParseOpts::DAEMON);
        let got = pair.r.add_match(s);
        if got.is_ok() {
            if let Err(e) = pair.r.remove_match(s) {
                machinery_failure(&format!("C22 audit: RemoveMatch({s:?}) after a successful AddMatch: {e}"));
            }
        }
        if want.is_ok() != got.is_ok() {
            if empty_key_quirk(s) {
                masked.insert("empty token followed by further tokens (daemon tokenizer stalls on an empty key)");
                continue;
            }
            if s.contains("arg+") {
                masked.insert("arg+1: the daemon reads the index with strtoul, which takes a sign; not part of the grammar");
                continue;
            }
            machinery_failure(&format!(
                "C22 audit: conformant parser and dbus-daemon disagree on {s:?}: refmatch {:?}, daemon {:?}",
                want.map(|r| refmatch::print(&r)),
                got
            ));
        }
        match &want {
            Ok(_) => n_acc += 1,
            Err(_) => n_rej += 1,
        }
        // delivery check for rules that constrain nothing but string arguments
        if let Ok(r) = &want {
            let only_args = !r.args.is_empty() && r.keys().len() == r.args.len() && r.args.keys().all(|i| *i <= 1);
            if only_args && r.args.values().all(|v| !v.is_empty()) {
                let mk = |alter: bool| -> RMsg {
                    let mut args = vec![];
                    for i in 0..2u8 {
                        let v = r.args.get(&i).cloned().unwrap_or_else(|| "zz".into());
                        args.push(RArg::Str(if alter && r.args.contains_key(&i) { format!("{v}~") } else { v }));
                    }
                    RMsg {
                        mtype: MType::Signal,
                        sender: None,
                        interface: Some("i.A".into()),
                        member: Some("A".into()),
                        path: Some("/a".into()),
                        destination: None,
                        args,
                    }
                };
                match pair.deliveries(s, &[mk(false), mk(true)]) {
                    Ok(Ok(d)) if d == [true, false] => n_deliv += 1,
                    other => machinery_failure(&format!(
                        "C22 audit: rule string {s:?} read by refmatch as {}: signals with exactly these argument values / altered values were delivered {other:?}, expected [true, false]",
                        refmatch::print(r)
                    )),
                }
            }
        }
    }
    report.set(
        "audit_conformant_parser_vs_dbus_daemon",
        json!({"strings": strings.len(), "accepted_by_both": n_acc, "rejected_by_both": n_rej,
               "argument_values_confirmed_by_delivery": n_deliv, "masked": masked.into_iter().collect::<Vec<_>>()}),
    );
    report.assume("refmatch::parse agrees with the installed dbus-daemon's AddMatch on every enumerated rule string (accept/reject, and argument values by delivery)");
}

/// An empty key (empty token, or whitespace only before '=') not at the very end of the string.
fn empty_key_quirk(s: &str) -> bool {
    let parts: Vec<&str> = s.split(',').collect();
    parts.iter().enumerate().any(|(i, p)| p.trim().is_empty() && i + 1 < parts.len())
}

// ---------------------------------------------------------------------------------------------

fn replay(path: &str) -> i32 {
    let v = vcommon::load_replay(path);
    if let Some(s) = v["replay"]["string"].as_str() {
        println!("string: {s:?}");
        println!("conformant parser: {:?}", refmatch::parse(s, ParseOpts::LENIENT).map(|r| refmatch::print(&r)));
        match catch(|| MatchRule::try_from(s).map(|r| r.into_owned())) {
            Ok(Ok(r1)) => {
                let s2 = r1.to_string();
                println!("zbus accepts; formats as {s2:?}");
                let again = catch(|| MatchRule::try_from(s2.as_str()).map(|r| r == r1));
                println!("parsed again equal: {again:?}");
                return if matches!(again, Ok(Ok(true))) { 0 } else { 1 };
            }
            other => {
                println!("zbus: {other:?}");
                return 0;
            }
        }
    }
    let rr = refmatch::rule_from_json(&v["replay"]["rule"]);
    println!("rule: {}", refmatch::rule_to_json(&rr));
    match observe(&rr) {
        Err(e) => {
            println!("MatchRule::builder() refused the rule: {e}");
            0
        }
        Ok(o) => {
            println!("Display: {}", o.text);
            println!("canonical conformant form: {}", refmatch::print(&rr));
            println!("conformant parser reads back {}", o.conformant.text());
            println!("MatchRule::try_from reads back {}", o.zbus.text());
            if o.conformant == Back::Same && o.zbus == Back::Same {
                0
            } else {
                1
            }
        }
    }
}

pub fn main(args: &Args) -> i32 {
    if let Some(p) = &args.replay {
        return replay(p);
    }
    let report = Report::new("C22", args.tier, args.seed, "exploration");
    part_a(&report, args.tier);
    let strings = part_b(&report);
    if args.tier == Tier::Thorough || args.extra.iter().any(|a| a == "--audit") {
        audit(&report, &strings);
    }
    report.assume("the conformant parser (refmatch::parse) implements the bus daemon's documented quoting rules; it is lenient about the same argument index appearing in argN and argNpath/arg0namespace, which the specification does not forbid");
    report.finish(
        "part A: every rule of the product of key option sets (argument values over awkward strings at indices 0/1/63) built with MatchRule::builder, Display, read back by refmatch::parse and MatchRule::try_from; part B: every string of <= 3 tokens over the token alphabet, for accepted ones parse-format-parse. non-trivial = distinct single-key rules / accepted strings / sampled product rules",
        true,
    )
}
