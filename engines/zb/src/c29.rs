//! C29 — interfaces that disable task spawning handle calls in arrival order; with spawning
//! enabled every call still gets its reply.

use std::{
    future::Future,
    pin::Pin,
    sync::{Arc, Mutex},
    task::{Context, Poll},
};

use serde_json::json;
use vcommon::{Args, Report};
use zbus::connection::Builder;

use crate::{
    explore::ExecResult,
    sched::{finish_model_checking, run_scenario, v, SchedPlan, Totals},
    world::{parse_message, split_messages, Link, SockCfg, Step, World, GUID},
};

/// A harness-controlled suspension point: returns Pending once and wakes itself, so the
/// scheduler may run any other task before the handler continues. No clock involved.
struct YieldNow(bool);
impl Future for YieldNow {
    type Output = ();
    fn poll(mut self: Pin<&mut Self>, cx: &mut Context<'_>) -> Poll<()> {
        if self.0 {
            Poll::Ready(())
        } else {
            self.0 = true;
            cx.waker().wake_by_ref();
            Poll::Pending
        }
    }
}

type Log = Arc<Mutex<Vec<String>>>;

struct Serial(Log);
#[zbus::interface(name = "a.b.Serial", spawn = false)]
impl Serial {
    #[zbus(property)]
    async fn level(&self) -> u32 {
        0
    }
    /// A `&mut self` setter that suspends: while it is in flight (it is dispatched by the
    /// Properties interface, from a spawned task) the interface's write lock is taken.
    #[zbus(property)]
    async fn set_level(&mut self, yields: u32) {
        self.0.lock().unwrap().push("set:start".into());
        for _ in 0..yields {
            YieldNow(false).await;
        }
        self.0.lock().unwrap().push("set:end".into());
    }
    async fn work(&self, id: u32, yields: u32) -> u32 {
        self.0.lock().unwrap().push(format!("start {id}"));
        for _ in 0..yields {
            YieldNow(false).await;
        }
        self.0.lock().unwrap().push(format!("end {id}"));
        id
    }
    async fn work_mut(&mut self, id: u32, yields: u32) -> u32 {
        self.0.lock().unwrap().push(format!("start {id}"));
        for _ in 0..yields {
            YieldNow(false).await;
        }
        self.0.lock().unwrap().push(format!("end {id}"));
        id
    }
}

struct Spawning(Log);
#[zbus::interface(name = "a.b.Spawning")]
impl Spawning {
    async fn work(&self, id: u32, yields: u32) -> u32 {
        self.0.lock().unwrap().push(format!("start {id}"));
        for _ in 0..yields {
            YieldNow(false).await;
        }
        self.0.lock().unwrap().push(format!("end {id}"));
        id
    }
    async fn work_mut(&mut self, id: u32, yields: u32) -> u32 {
        self.0.lock().unwrap().push(format!("start {id}"));
        for _ in 0..yields {
            YieldNow(false).await;
        }
        self.0.lock().unwrap().push(format!("end {id}"));
        id
    }
}

#[derive(Clone, Copy, Debug)]
struct Params {
    spawn: bool,
    /// yields of the three handlers
    yields: [u32; 3],
    /// which of the calls use the `&mut self` method
    muts: [bool; 3],
    /// deliver the burst in one read (true) or as three environment events (false)
    burst: bool,
    /// precede the calls with a `Properties.Set` whose `&mut self` setter yields this many times
    /// (0 = no Set): something else then holds / waits for the interface's write lock
    set_yields: u32,
    /// register BOTH interfaces (the spawn=false one and its spawning twin) on the same object
    /// path; the calls still go to the one `spawn` selects
    both: bool,
    /// which of the calls carry the NoReplyExpected flag (they are still executed, in their
    /// place in the arrival order; no reply is due for them)
    noreply: [bool; 3],
}

fn scenario(p: Params) -> ExecResult {
    let mut w = World::new();
    w.horizon = 300;
    let link = Link::new();
    let sock = link.end_a(SockCfg::default());
    let log: Log = Default::default();
    let l2 = log.clone();
    let spawn = p.spawn;
    let both = p.both;
    let conn = w
        .complete("build", async move {
            let b = Builder::authenticated_socket(sock, GUID)
                .unwrap()
                .p2p()
                .internal_executor(false);
            let b = if both {
                // the twin gets its own log: only the addressed interface's handlers are judged
                b.serve_at("/s", Spawning(if spawn { l2.clone() } else { Default::default() }))
                    .unwrap()
                    .serve_at("/s", Serial(if spawn { Default::default() } else { l2 }))
                    .unwrap()
            } else if spawn {
                b.serve_at("/s", Spawning(l2)).unwrap()
            } else {
                b.serve_at("/s", Serial(l2)).unwrap()
            };
            b.build().await.unwrap()
        })
        .expect("build");
    let iface = if p.spawn { "a.b.Spawning" } else { "a.b.Serial" };
    let calls: Vec<zbus::Message> = (0..3)
        .map(|i| {
            let b = zbus::Message::method_call("/s", if p.muts[i] { "WorkMut" } else { "Work" })
                .unwrap()
                .interface(iface)
                .unwrap();
            let b = if p.noreply[i] { b.with_flags(zbus::message::Flags::NoReplyExpected).unwrap() } else { b };
            b.build(&(i as u32, p.yields[i])).unwrap()
        })
        .collect();
    let serials: Vec<_> = calls.iter().map(|c| c.primary_header().serial_num()).collect();
    let mut next = 0;
    if p.set_yields > 0 && !p.spawn {
        let set = zbus::Message::method_call("/s", "Set")
            .unwrap()
            .interface("org.freedesktop.DBus.Properties")
            .unwrap()
            .build(&("a.b.Serial", "Level", zbus::zvariant::Value::from(p.set_yields)))
            .unwrap();
        link.b2a.push(set.data().bytes(), vec![]);
    }
    if p.burst {
        let all: Vec<u8> = calls.iter().flat_map(|c| c.data().bytes().to_vec()).collect();
        link.b2a.push(&all, vec![]);
        next = 3;
    }
    loop {
        let env = (next < 3) as usize;
        match w.step(env) {
            Step::Ran(_) => {}
            Step::Env(_) => {
                link.b2a.push(calls[next].data().bytes(), vec![]);
                next += 1;
            }
            _ => break,
        }
    }
    let mut res = ExecResult {
        capped: w.hit_horizon,
        steps: w.steps,
        ..Default::default()
    };
    let events = log.lock().unwrap().clone();
    // replies
    let out = link.a2b.written();
    let (msgs, _) = split_messages(&out);
    let mut replies = [0usize; 3];
    for r in msgs {
        if let Ok(m) = parse_message(&out[r]) {
            for (i, s) in serials.iter().enumerate() {
                if m.header().reply_serial() == Some(*s) {
                    replies[i] += 1;
                    if m.message_type() != zbus::message::Type::MethodReturn
                        || m.body().deserialize::<u32>().ok() != Some(i as u32)
                    {
                        res.violations.push(v("reply-correct", format!("call {i} got a wrong reply: {m}")).feat("spawn", p.spawn));
                    }
                }
            }
        }
    }
    if !w.hit_horizon {
        for i in 0..3 {
            if p.noreply[i] {
                // whether a reply is (wrongly) sent to a no-reply call is C26's subject
                continue;
            }
            if replies[i] != 1 {
                res.violations.push(
                    v("every-call-replied-once", format!("call {i} got {} replies (spawn={}); handler events {events:?}; trace={:?}", replies[i], p.spawn, w.trace))
                        .feat("spawn", p.spawn),
                );
            }
        }
        if !p.spawn {
            // calls arrive in order 0,1,2: the handler intervals must be disjoint and in that order
            let want: Vec<String> = (0..3).flat_map(|i| [format!("start {i}"), format!("end {i}")]).collect();
            // the property setter's own marks are not method calls of the interface
            let method_events: Vec<String> = events.iter().filter(|e| !e.starts_with("set:")).cloned().collect();
            if method_events != want {
                res.violations.push(
                    v("one-after-another-in-arrival-order", format!("handlers of a spawn=false interface ran as {events:?}, expected {want:?}"))
                        .feat("spawn", false),
                );
            }
        }
    }
    res.log = events;
    res.log.push(format!("replies={replies:?}"));
    drop(conn);
    res
}

pub fn main(args: &Args) -> i32 {
    if let Some(p) = &args.replay {
        return crate::sched::replay(p, |_, j| {
            let arr3 = |k: &str| -> Vec<serde_json::Value> { j[k].as_array().cloned().unwrap_or_default() };
            let y = arr3("yields");
            let m = arr3("muts");
            let p = Params {
                spawn: j["spawn"].as_bool().unwrap_or(false),
                yields: [0, 1, 2].map(|i| y.get(i).and_then(|v| v.as_u64()).unwrap_or(0) as u32),
                muts: [0, 1, 2].map(|i| m.get(i).and_then(|v| v.as_bool()).unwrap_or(false)),
                burst: j["burst"].as_bool().unwrap_or(true),
                set_yields: j["set_yields"].as_u64().unwrap_or(0) as u32,
                both: j["both"].as_bool().unwrap_or(false),
                noreply: {
                    let n = arr3("noreply");
                    [0, 1, 2].map(|i| n.get(i).and_then(|v| v.as_bool()).unwrap_or(false))
                },
            };
            Some(Box::new(move || scenario(p)))
        });
    }
    let report = Report::new("C29", args.tier, args.seed, "model_checking");
    let totals = Mutex::new(Totals::default());
    let quick = args.tier == vcommon::Tier::Quick;
    let mut scenarios = vec![];
    for (yn, yields) in [("y210", [2u32, 1, 0]), ("y111", [1, 1, 1]), ("y012", [0, 1, 2])] {
        for (mn, muts) in [("ref", [false, false, false]), ("mixed", [true, false, true])] {
            for burst in [true, false] {
                for spawn in [false, true] {
                    if !quick || (yn != "y012" || !burst) {
                        scenarios.push((
                            format!("{}-{yn}-{mn}-{}", if spawn { "spawn" } else { "nospawn" }, if burst { "burst" } else { "trickle" }),
                            Params { spawn, yields, muts, burst, set_yields: 0, both: false, noreply: [false; 3] },
                        ));
                        if (yn == "y210" && mn == "ref" && burst) || (yn == "y111" && mn == "mixed" && !burst) {
                            scenarios.push((
                                format!("{}-{yn}-{mn}-{}-two-interfaces-on-the-path", if spawn { "spawn" } else { "nospawn" }, if burst { "burst" } else { "trickle" }),
                                Params { spawn, yields, muts, burst, set_yields: 0, both: true, noreply: [false; 3] },
                            ));
                        }
                        if mn == "ref" && yn != "y012" {
                            for (nn, noreply) in [("first", [true, false, false]), ("first-two", [true, true, false])] {
                                if quick && (burst != (nn == "first")) {
                                    continue;
                                }
                                scenarios.push((
                                    format!("{}-{yn}-{mn}-{}-noreply-{nn}", if spawn { "spawn" } else { "nospawn" }, if burst { "burst" } else { "trickle" }),
                                    Params { spawn, yields, muts, burst, set_yields: 0, both: false, noreply },
                                ));
                            }
                        }
                        if !spawn && mn == "ref" {
                            scenarios.push((
                                format!("nospawn-{yn}-{mn}-{}-setter-in-flight", if burst { "burst" } else { "trickle" }),
                                Params { spawn, yields, muts, burst, set_yields: 2, both: false, noreply: [false; 3] },
                            ));
                        }
                    }
                }
            }
        }
    }
    for (name, p) in scenarios {
        let plan = SchedPlan {
            bounds: if quick { vec![Some(6)] } else { vec![Some(8), None] },
            max_execs: args.tier.pick(2_000_000, 40_000_000),
            time_budget_s: args.tier.pick(120.0, 300.0),
        };
        run_scenario(
            &report,
            &totals,
            &name,
            json!({"spawn": p.spawn, "yields": p.yields, "muts": p.muts, "burst": p.burst, "set_yields": p.set_yields, "both": p.both, "noreply": p.noreply}),
            &plan,
            move || scenario(p),
        );
    }
    report.assume("handlers suspend at harness-controlled yield points (Pending + self-wake), never on a clock");
    finish_model_checking(
        &report,
        &totals,
        "3 calls (burst in one read, or one environment event each) to handlers yielding 0–2 times, &self and &mut self, spawn=false and spawn=true twins; all schedules up to the completed deviation bound",
    )
}
