//! C17 — the client-side handshake succeeds only on a proper server acceptance.
//!
//! The real client handshake (`connection::Builder::socket(..)[.p2p()].build()`) runs against a
//! scripted server: every sequence of server lines over an alphabet on which the client is still
//! waiting for input is extended (history tree, no merging), each node is combined with every
//! expected-GUID / fd-capability / mechanism configuration, with p2p and bus flavours (Hello
//! reply: return / error / signal first), with every kind of trailing bytes, and with read splits.
//! Oracle: the wire monitor of `refsasl::client_verdict` (acceptance, fd agreement, which bytes
//! are handshake lines), and the trailing bytes/fds must come out of a `MessageStream` first and
//! intact.

use std::{
    collections::{BTreeMap, BTreeSet},
    os::fd::{AsRawFd, OwnedFd},
    sync::{Arc, Mutex},
};

use futures_lite::StreamExt;
use serde_json::{json, Value};
use vcommon::{catch, hash64, par_for, Args, Report, Violation};
use zbus::{connection::Builder, zvariant::Fd, AuthMechanism, Connection, Message, MessageStream};

use crate::{
    refsasl::{client_verdict, parse_client_stream, parse_server_line, ClientCmd, Mech, ServerLine, CRLF},
    world::{inode_of, new_fd, Link, SockCfg, World, GUID},
};

const OTHER_GUID: &str = "fedcba9876543210fedcba9876543210";
const THIRD_GUID: &str = "00112233445566778899aabbccddeeff";
const HYPHEN_GUID: &str = "01234567-89ab-cdef-0123-456789abcdef";

const CL_ACCEPT: &str = "completes-only-on-ok-with-valid-expected-guid";
const CL_PROPER: &str = "proper-acceptance-completes";
const CL_FD: &str = "fd-capability-iff-server-agreed";
const CL_TRAIL: &str = "trailing-bytes-and-fds-delivered-first-and-intact";
const CL_PANIC: &str = "no-panic";
const CL_SPLIT: &str = "result-independent-of-read-splitting";

#[derive(Clone, Copy, Debug, PartialEq, Eq, Hash, PartialOrd, Ord)]
enum Expect {
    None,
    Equal,
    Different,
}

#[derive(Clone, Copy, Debug, PartialEq, Eq, Hash, PartialOrd, Ord)]
enum Mode {
    P2p,
    BusReturn,
    BusError,
    BusSignalFirst,
}

#[derive(Clone, Copy, Debug, PartialEq, Eq, Hash, PartialOrd, Ord)]
enum Trailing {
    None,
    One,
    OneAndHalf,
    WithFd,
    /// An fd-less message followed by a message carrying an fd.
    PlainThenFd,
}

const MODES: [Mode; 4] = [Mode::P2p, Mode::BusReturn, Mode::BusError, Mode::BusSignalFirst];
const TRAILINGS: [Trailing; 5] = [
    Trailing::None,
    Trailing::One,
    Trailing::OneAndHalf,
    Trailing::WithFd,
    Trailing::PlainThenFd,
];

#[derive(Clone, Copy, Debug, PartialEq, Eq, Hash)]
struct Cfg {
    expect: Expect,
    fd: bool,
    mech: Mech,
}

impl Cfg {
    fn expected_guid(&self) -> Option<&'static str> {
        match self.expect {
            Expect::None => None,
            Expect::Equal => Some(GUID),
            Expect::Different => Some(THIRD_GUID),
        }
    }
    fn json(&self) -> Value {
        json!({"expect": format!("{:?}", self.expect), "fd": self.fd, "mech": self.mech.name()})
    }
    fn from_json(v: &Value) -> Cfg {
        Cfg {
            expect: match v["expect"].as_str() {
                Some("Equal") => Expect::Equal,
                Some("Different") => Expect::Different,
                _ => Expect::None,
            },
            fd: v["fd"].as_bool().unwrap_or(true),
            mech: Mech::parse(v["mech"].as_str().unwrap_or("EXTERNAL")).unwrap_or(Mech::External),
        }
    }
}

fn mode_from(s: &str) -> Mode {
    match s {
        "BusReturn" => Mode::BusReturn,
        "BusError" => Mode::BusError,
        "BusSignalFirst" => Mode::BusSignalFirst,
        _ => Mode::P2p,
    }
}
fn trailing_from(s: &str) -> Trailing {
    match s {
        "One" => Trailing::One,
        "OneAndHalf" => Trailing::OneAndHalf,
        "WithFd" => Trailing::WithFd,
        "PlainThenFd" => Trailing::PlainThenFd,
        _ => Trailing::None,
    }
}

/// Server line alphabet (raw bytes with terminator) and a class name per symbol.
fn alphabet(thorough: bool) -> Vec<(Vec<u8>, &'static str)> {
    let mut a: Vec<(String, &'static str)> = vec![
        (format!("OK {GUID}\r\n"), "ok-guid"),
        (format!("OK {OTHER_GUID}\r\n"), "ok-other-guid"),
        (format!("OK {}\r\n", &GUID[..31]), "ok-31-hex"),
        ("OK\r\n".into(), "ok-no-guid"),
        (format!("OK {HYPHEN_GUID}\r\n"), "ok-hyphenated-guid"),
        ("REJECTED EXTERNAL\r\n".into(), "rejected"),
        ("REJECTED\r\n".into(), "rejected"),
        ("ERROR\r\n".into(), "error"),
        ("DATA\r\n".into(), "data"),
        ("AGREE_UNIX_FD\r\n".into(), "agree-unix-fd"),
        ("FOO\r\n".into(), "unknown-line"),
        ("\r\n".into(), "empty-line"),
        ("\n".into(), "bare-lf-empty-line"),
        (format!("OK {GUID}\n"), "bare-lf-line"),
        (format!("OK {}\r\n", GUID.to_uppercase()), "ok-uppercase-guid"),
    ];
    if thorough {
        a.extend([
            (format!("OK {GUID} x\r\n"), "ok-guid-extra-arg"),
            (format!("OK {}\r\n", &GUID[..30].to_string().replace('0', "g")), "ok-non-hex"),
            (format!("OK {{{HYPHEN_GUID}}}\r\n"), "ok-braced-guid"),
            ("REJECTED ANONYMOUS EXTERNAL\r\n".into(), "rejected"),
            ("ERROR \"no\"\r\n".into(), "error"),
            ("DATA 00\r\n".into(), "data"),
            ("AGREE_UNIX_FD x\r\n".into(), "agree-extra-arg"),
            ("BEGIN\r\n".into(), "unknown-line"),
            (" \r\n".into(), "empty-line"),
            ("\r\r\n".into(), "stray-cr-line"),
        ]);
    }
    a.into_iter().map(|(s, c)| (s.into_bytes(), c)).collect()
}

/// Messages a scripted server sends after its handshake lines, built once.
struct Bank {
    hello_return: Vec<u8>,
    hello_error: Vec<u8>,
    signal_first: Vec<u8>,
    m1: Vec<u8>,
    m2: Vec<u8>,
    mfd: Vec<u8>,
    /// The descriptor that travels with `mfd` (dup'ed per execution).
    fd: OwnedFd,
    fd_inode: u64,
    /// An fd-carrying message the client tries to send after the handshake (capability probe).
    probe: Message,
}

fn serial(n: u32) -> std::num::NonZeroU32 {
    std::num::NonZeroU32::new(n).unwrap()
}

fn build_bank() -> Bank {
    // The client's Hello is the first message of its process-private serial counter: serial 1.
    let hello = Message::method_call("/org/freedesktop/DBus", "Hello")
        .unwrap()
        .destination("org.freedesktop.DBus")
        .unwrap()
        .interface("org.freedesktop.DBus")
        .unwrap()
        .serial(serial(1))
        .build(&())
        .unwrap();
    let hdr = hello.header();
    let hello_return = Message::method_return(&hdr)
        .unwrap()
        .sender("org.freedesktop.DBus")
        .unwrap()
        .serial(serial(101))
        .build(&(":1.42"))
        .unwrap();
    let hello_error = Message::error(&hdr, "org.freedesktop.DBus.Error.LimitsExceeded")
        .unwrap()
        .sender("org.freedesktop.DBus")
        .unwrap()
        .serial(serial(101))
        .build(&("too many connections"))
        .unwrap();
    let signal_first = Message::signal("/org/freedesktop/DBus", "org.freedesktop.DBus", "NameAcquired")
        .unwrap()
        .sender("org.freedesktop.DBus")
        .unwrap()
        .serial(serial(100))
        .build(&(":1.42"))
        .unwrap();
    let m1 = Message::signal("/t", "x.y.T", "One")
        .unwrap()
        .serial(serial(102))
        .build(&(7u32, "trailing one"))
        .unwrap();
    let m2 = Message::signal("/t", "x.y.T", "Two")
        .unwrap()
        .serial(serial(103))
        .build(&(8u32, "trailing two, a little longer than the first"))
        .unwrap();
    let fd = new_fd("c17-trailing");
    let mfd = Message::signal("/t", "x.y.T", "WithFd")
        .unwrap()
        .serial(serial(104))
        .build(&(Fd::from(&fd),))
        .unwrap();
    let b = |m: &Message| m.data().bytes().to_vec();
    let fd_inode = inode_of(&fd);
    let probe = Message::signal("/p", "x.y.P", "Probe")
        .unwrap()
        .serial(serial(900))
        .build(&(Fd::from(&fd),))
        .unwrap();
    Bank {
        probe,
        hello_return: b(&hello_return),
        hello_error: b(&hello_error),
        signal_first: b(&signal_first),
        m1: b(&m1),
        m2: b(&m2),
        mfd: b(&mfd),
        fd,
        fd_inode,
    }
}

/// The server's byte stream for one case.
struct Script {
    /// Everything sent up front.
    bytes: Vec<u8>,
    /// Length of the handshake-line region.
    lines_len: usize,
    /// Offset at which a descriptor is attached (first byte of the fd message).
    fd_at: Option<usize>,
    /// Bytes sent later (second half of the 1½ case).
    late: Vec<u8>,
    /// Start offsets and lengths of the messages in `bytes` (for the reduced 2-cut positions).
    msgs: Vec<(usize, usize)>,
    /// The trailing messages the stream has to yield, in order: (bytes, carries fd).
    expect_items: Vec<(Vec<u8>, bool)>,
    /// Messages that have to be there before `late` is sent.
    expect_before_late: usize,
}

fn script(bank: &Bank, lines: &[&[u8]], mode: Mode, trailing: Trailing) -> Script {
    let mut bytes: Vec<u8> = lines.concat();
    let lines_len = bytes.len();
    let mut msgs = vec![];
    let mut push = |bytes: &mut Vec<u8>, m: &[u8]| {
        msgs.push((bytes.len(), m.len()));
        bytes.extend_from_slice(m);
    };
    match mode {
        Mode::P2p => {}
        Mode::BusReturn => push(&mut bytes, &bank.hello_return),
        Mode::BusError => push(&mut bytes, &bank.hello_error),
        Mode::BusSignalFirst => {
            push(&mut bytes, &bank.signal_first);
            push(&mut bytes, &bank.hello_return);
        }
    }
    let mut fd_at = None;
    let mut late = vec![];
    let mut expect_items = vec![];
    let mut expect_before_late = 0;
    match trailing {
        Trailing::None => {}
        Trailing::One => {
            push(&mut bytes, &bank.m1);
            expect_items.push((bank.m1.clone(), false));
            expect_before_late = 1;
        }
        Trailing::OneAndHalf => {
            push(&mut bytes, &bank.m1);
            let half = bank.m2.len() / 2;
            bytes.extend_from_slice(&bank.m2[..half]);
            late = bank.m2[half..].to_vec();
            expect_items.push((bank.m1.clone(), false));
            expect_items.push((bank.m2.clone(), false));
            expect_before_late = 1;
        }
        Trailing::WithFd => {
            fd_at = Some(bytes.len());
            push(&mut bytes, &bank.mfd);
            expect_items.push((bank.mfd.clone(), true));
            expect_before_late = 1;
        }
        Trailing::PlainThenFd => {
            push(&mut bytes, &bank.m1);
            fd_at = Some(bytes.len());
            push(&mut bytes, &bank.mfd);
            expect_items.push((bank.m1.clone(), false));
            expect_items.push((bank.mfd.clone(), true));
            expect_before_late = 2;
        }
    }
    Script {
        bytes,
        lines_len,
        fd_at,
        late,
        msgs,
        expect_items,
        expect_before_late,
    }
}

#[derive(Clone, Debug, PartialEq, Eq)]
enum Status {
    Waiting,
    Completed,
    Failed(String),
    Panic(String),
}

impl Status {
    fn class(&self) -> &'static str {
        match self {
            Status::Waiting => "waiting",
            Status::Completed => "completed",
            Status::Failed(_) => "failed",
            Status::Panic(_) => "panic",
        }
    }
}

#[derive(Clone, Debug, PartialEq, Eq)]
enum Item {
    Msg { bytes: Vec<u8>, fds: Vec<u64> },
    Err(String),
}

#[derive(Clone, Debug, PartialEq, Eq)]
struct Obs {
    status: Status,
    /// `Some(true)` = an fd-carrying message could be sent, `Some(false)` = `Unsupported`.
    cap: Option<Result<bool, String>>,
    /// What the message stream yielded before / after the late bytes.
    items_before_late: Vec<Item>,
    items: Vec<Item>,
    /// What the client wrote during the handshake (before the probe message).
    client_wrote: Vec<u8>,
}

/// How the server's bytes reach the client.
#[derive(Clone, Debug)]
enum Delivery {
    /// One chunk per handshake line, each delivered after the client went quiet; then the rest.
    Reactive,
    /// The whole stream cut at these positions, every chunk followed by a run to quiescence.
    /// `glue_fd`: do not force a chunk boundary in front of the fd-carrying message.
    Cuts { cuts: Vec<usize>, glue_fd: bool },
}

fn execute(cfg: &Cfg, bank: &Bank, lines: &[&[u8]], mode: Mode, trailing: Trailing, delivery: &Delivery) -> Obs {
    let sc = script(bank, lines, mode, trailing);
    let mut w = World::new();
    let link = Link::new();
    let mechanism = match cfg.mech {
        Mech::External => AuthMechanism::External,
        Mech::Anonymous => AuthMechanism::Anonymous,
    };
    let sock = link.end_a(SockCfg {
        uid: Some(1000),
        can_pass_fd: cfg.fd,
        mechanism,
    });
    let result: Arc<Mutex<Option<Result<Connection, String>>>> = Arc::new(Mutex::new(None));
    let items: Arc<Mutex<Vec<Item>>> = Arc::new(Mutex::new(vec![]));
    let (r2, i2) = (result.clone(), items.clone());
    let expected = cfg.expected_guid().map(|g| zbus::OwnedGuid::from(zbus::Guid::try_from(g).unwrap()));
    let p2p = mode == Mode::P2p;
    let mut root = w.spawn("client", async move {
        let mut b = Builder::socket(sock);
        if p2p {
            b = b.p2p();
        }
        if let Some(g) = expected {
            b = b.verif_expected_server_guid(g);
        }
        match b.internal_executor(false).build().await {
            Err(e) => *r2.lock().unwrap() = Some(Err(e.to_string())),
            Ok(conn) => {
                // Subscribe before the socket reader task gets to run.
                let mut stream = MessageStream::from(&conn);
                *r2.lock().unwrap() = Some(Ok(conn));
                while let Some(it) = stream.next().await {
                    let it = match it {
                        Ok(m) => Item::Msg {
                            bytes: m.data().bytes().to_vec(),
                            fds: m.data().fds().iter().map(|f| inode_of(&f.as_raw_fd())).collect(),
                        },
                        Err(e) => Item::Err(e.to_string()),
                    };
                    i2.lock().unwrap().push(it);
                }
            }
        }
    });

    // chunk boundaries
    let total = sc.bytes.len();
    let mut bounds: Vec<usize> = match delivery {
        Delivery::Reactive => {
            let mut v = vec![];
            let mut p = 0;
            for l in lines {
                p += l.len();
                v.push(p);
            }
            v
        }
        Delivery::Cuts { cuts, .. } => cuts.clone(),
    };
    let glue = matches!(delivery, Delivery::Cuts { glue_fd: true, .. });
    if let Some(at) = sc.fd_at {
        // A descriptor travels with the first byte of its message, which starts a new write of
        // the server; the reader gets it with the first read that reaches that write.
        if !glue {
            bounds.push(at);
        }
    }
    bounds.retain(|b| *b > 0 && *b < total);
    bounds.sort();
    bounds.dedup();
    bounds.push(total);

    let mut panic: Option<String> = None;
    let mut run = |w: &mut World| {
        if panic.is_none() {
            if let Err(p) = catch(|| w.settle()) {
                panic = Some(format!("{p} at {}", vcommon::last_panic_location()));
            }
        }
    };
    run(&mut w);
    let mut prev = 0;
    for b in bounds {
        if b == prev {
            continue;
        }
        let fds = match sc.fd_at {
            Some(at) if at >= prev && at < b => vec![bank.fd.try_clone().expect("dup")],
            _ => vec![],
        };
        link.b2a.push(&sc.bytes[prev..b], fds);
        prev = b;
        run(&mut w);
    }
    let client_wrote = link.a2b.written();
    let items_before_late = items.lock().unwrap().clone();
    if !sc.late.is_empty() {
        link.b2a.push(&sc.late, vec![]);
        run(&mut w);
    }
    let conn = result.lock().unwrap().take();
    let mut status = match &conn {
        None => Status::Waiting,
        Some(Ok(_)) => Status::Completed,
        Some(Err(e)) => Status::Failed(e.clone()),
    };
    let mut cap = None;
    let no_panic = panic.is_none();
    if let (Some(Ok(conn)), true) = (&conn, no_panic) {
        // fd capability: sending a message that carries an fd is refused with `Unsupported`
        // exactly when fd passing was not agreed.
        let conn = conn.clone();
        let m = bank.probe.clone();
        let r = catch(|| {
            w.complete("fd-probe", async move {
                match conn.send(&m).await {
                    Ok(()) => Ok(true),
                    Err(zbus::Error::Unsupported) => Ok(false),
                    Err(e) => Err(e.to_string()),
                }
            })
        });
        match r {
            Ok(Some(r)) => cap = Some(r),
            Ok(None) => cap = Some(Err("send did not complete".into())),
            Err(p) => panic = Some(format!("{p} at {}", vcommon::last_panic_location())),
        }
    }
    if let Some(p) = panic {
        status = Status::Panic(p);
    }
    let items_final = items.lock().unwrap().clone();
    // Tear down without leaking (see c16::execute).
    drop(conn);
    root.cancel();
    drop(root);
    drop(w);
    for ch in [&link.a2b, &link.b2a] {
        let (a, b) = ch.with(|c| (c.read_waker.take(), c.write_waker.take()));
        drop(a);
        drop(b);
    }
    Obs {
        status,
        cap,
        items_before_late,
        items: items_final,
        client_wrote,
    }
}

fn show(bytes: &[u8]) -> String {
    let mut s = String::new();
    for b in bytes.iter().take(200) {
        match b {
            b'\r' => s.push_str("\\r"),
            b'\n' => s.push_str("\\n"),
            0 => s.push_str("\\0"),
            0x20..=0x7e => s.push(*b as char),
            _ => s.push_str(&format!("\\x{b:02x}")),
        }
    }
    s
}

fn show_lines(lines: &[&[u8]]) -> String {
    lines.iter().map(|l| format!("\"{}\"", show(l))).collect::<Vec<_>>().join(" ")
}

fn show_item(i: &Item, bank: &Bank) -> String {
    match i {
        Item::Err(e) => format!("Err({e})"),
        Item::Msg { bytes, fds } => {
            let name = if *bytes == bank.m1 {
                "M1".to_string()
            } else if *bytes == bank.m2 {
                "M2".to_string()
            } else if *bytes == bank.mfd {
                "Mfd".to_string()
            } else if *bytes == bank.hello_return {
                "HelloReturn".to_string()
            } else if *bytes == bank.signal_first {
                "NameAcquired".to_string()
            } else {
                format!("msg[{} bytes]", bytes.len())
            };
            format!(
                "{name}(fds:{})",
                fds.iter()
                    .map(|f| if *f == bank.fd_inode { "sent-fd" } else { "other-fd" })
                    .collect::<Vec<_>>()
                    .join(",")
            )
        }
    }
}

/// Split the line region at CRLF as the protocol does.
fn crlf_lines(region: &[u8]) -> (Vec<&[u8]>, &[u8]) {
    let mut out = vec![];
    let mut pos = 0;
    while let Some(rel) = region[pos..].windows(2).position(|w| w == CRLF) {
        out.push(&region[pos..pos + rel]);
        pos += rel + 2;
    }
    (out, &region[pos..])
}

fn line_class(l: &ServerLine, raw: &[u8], expected: Option<&str>) -> String {
    match l {
        ServerLine::OkGuid(g) => match expected {
            Some(e) if e != g => "ok-guid-differs-from-expected".into(),
            _ => "ok-valid-guid".into(),
        },
        ServerLine::OkBad => {
            let s = String::from_utf8_lossy(raw);
            let arg = s.split(' ').filter(|w| !w.is_empty()).nth(1).unwrap_or("");
            if arg.is_empty() {
                "ok-without-guid".into()
            } else if arg.contains('-') {
                "ok-hyphenated-guid".into()
            } else if s.split(' ').filter(|w| !w.is_empty()).count() > 2 {
                "ok-guid-extra-arg".into()
            } else {
                "ok-malformed-guid".into()
            }
        }
        ServerLine::Rejected => "rejected".into(),
        ServerLine::Error => "error".into(),
        ServerLine::Data => "data".into(),
        ServerLine::AgreeUnixFd => "agree-unix-fd".into(),
        ServerLine::Unknown => {
            if raw.is_empty() {
                "empty-line".into()
            } else if raw.contains(&b'\n') || raw.contains(&b'\r') {
                "line-with-stray-line-ending".into()
            } else {
                "unknown-line".into()
            }
        }
    }
}

struct Judged {
    violations: Vec<Violation>,
    outcome: String,
    state_key: u64,
}

fn judge(
    cfg: &Cfg,
    bank: &Bank,
    lines: &[&[u8]],
    mode: Mode,
    trailing: Trailing,
    obs: &Obs,
    replay: &Value,
) -> Judged {
    let region: Vec<u8> = lines.concat();
    let (contents, rest) = crlf_lines(&region);
    let parsed: Vec<ServerLine> = contents.iter().map(|c| parse_server_line(c)).collect();
    let (_nul, sent, _begin_at) = parse_client_stream(&obs.client_wrote);
    let verdict = client_verdict(&sent, &parsed, cfg.expected_guid());
    let negotiated = sent.contains(&ClientCmd::NegotiateUnixFd);
    // classes of the lines that answer AUTH and NEGOTIATE_UNIX_FD
    let auth_pos = sent.iter().position(|c| *c == ClientCmd::Auth);
    let nego_pos = sent.iter().position(|c| *c == ClientCmd::NegotiateUnixFd);
    let class_at = |p: Option<usize>| match p {
        Some(p) => match parsed.get(p) {
            Some(l) => line_class(l, contents[p], cfg.expected_guid()),
            None => {
                if p == parsed.len() && !rest.is_empty() {
                    "unterminated-or-bare-lf-line".to_string()
                } else {
                    "none".to_string()
                }
            }
        },
        None => "not-sent".to_string(),
    };
    let auth_reply = class_at(auth_pos);
    let nego_reply = class_at(nego_pos);

    // Each clause carries only the features that bear on it (the rest is in the detail text).
    let f_accept = |v: Violation| {
        v.feat("expected_guid", format!("{:?}", cfg.expect).to_lowercase())
            .feat("auth_reply", &auth_reply)
    };
    let f_fd = |v: Violation| v.feat("socket_fd_capable", cfg.fd).feat("negotiate_reply", &nego_reply);
    let f_flavour = |v: Violation| v.feat("flavour", format!("{mode:?}"));
    let f_trail = |v: Violation| v.feat("flavour", format!("{mode:?}")).feat("trailing", format!("{trailing:?}"));
    let ctx = |what: &str| {
        format!(
            "expected-guid={:?} fd-socket={} mech={} {:?} trailing={:?}: server lines {} — {what}; client status {:?}, fd capability {:?}, stream yielded [{}]",
            cfg.expect,
            cfg.fd,
            cfg.mech.name(),
            mode,
            trailing,
            show_lines(lines),
            obs.status,
            obs.cap,
            obs.items.iter().map(|i| show_item(i, bank)).collect::<Vec<_>>().join(", ")
        )
    };
    let mut vs = vec![];

    if let Status::Panic(p) = &obs.status {
        // where in the server's stream the panic was provoked
        let site = if lines.iter().any(|l| *l == b"\n") {
            "bare-lf-empty-line"
        } else if lines.iter().any(|l| !l.ends_with(CRLF)) {
            "bare-lf-line"
        } else if verdict.may_complete {
            "after-acceptance"
        } else {
            "crlf-lines-only"
        };
        vs.push(
            Violation::new(CL_PANIC, ctx(&format!("the client panicked: {p}")), replay.clone())
                .feat("provoked_by", site)
                .feat("flavour", if site == "after-acceptance" { format!("{mode:?}") } else { "any".into() })
                .feat("trailing", if site == "after-acceptance" { format!("{trailing:?}") } else { "any".into() }),
        );
    }
    let completed = obs.status == Status::Completed;
    if completed && !verdict.may_complete {
        vs.push(f_accept(Violation::new(
            CL_ACCEPT,
            ctx(&format!("the handshake completed although {}", verdict.why_not)),
            replay.clone(),
        )));
    }
    // A proper conversation has to succeed (otherwise everything above is vacuous).
    let all_crlf = rest.is_empty();
    let exact = all_crlf && parsed.len() == verdict.replies_expected;
    let proper = verdict.may_complete
        && exact
        && (!negotiated || matches!(parsed.get(nego_pos.unwrap_or(usize::MAX)), Some(ServerLine::AgreeUnixFd | ServerLine::Error)))
        && matches!(mode, Mode::P2p | Mode::BusReturn);
    if proper && !completed && !matches!(obs.status, Status::Panic(_)) {
        vs.push(f_flavour(f_fd(Violation::new(
            CL_PROPER,
            ctx("the server accepted properly (OK with the right GUID, a valid answer to NEGOTIATE_UNIX_FD, Hello answered) but the handshake did not complete"),
            replay.clone(),
        ))));
    }
    if completed && verdict.may_complete {
        match &obs.cap {
            Some(Ok(cap)) => {
                if *cap != verdict.fd_agreed {
                    vs.push(
                        f_fd(Violation::new(
                            CL_FD,
                            ctx(&format!(
                                "fd passing is {} on the connection but the server {}",
                                if *cap { "enabled" } else { "disabled" },
                                if verdict.fd_agreed { "agreed to it" } else { "did not agree to it" }
                            )),
                            replay.clone(),
                        ))
                        .feat("capability", cap)
                        .feat("server_agreed", verdict.fd_agreed),
                    );
                }
            }
            Some(Err(e)) => {
                // The probe failed for another reason (e.g. the write side is gone): nothing the
                // statement talks about; recorded in the outcome class only.
                let _ = e;
            }
            None => {}
        }
    }
    // Trailing bytes: checked when it is unambiguous which bytes follow the handshake lines.
    let fd_in_trailing = matches!(trailing, Trailing::WithFd | Trailing::PlainThenFd);
    if completed && verdict.may_complete && exact && matches!(mode, Mode::P2p | Mode::BusReturn) && (!fd_in_trailing || verdict.fd_agreed) {
        let sc = script(bank, lines, mode, trailing);
        let want: Vec<Item> = sc
            .expect_items
            .iter()
            .map(|(b, fd)| Item::Msg {
                bytes: b.clone(),
                fds: if *fd { vec![bank.fd_inode] } else { vec![] },
            })
            .collect();
        let before_ok = obs.items_before_late.len() >= sc.expect_before_late.min(want.len())
            && obs.items_before_late[..] == want[..obs.items_before_late.len().min(want.len())]
            && obs.items_before_late.len() <= want.len();
        if obs.items != want || !before_ok {
            let what = if obs.items.iter().any(|i| matches!(i, Item::Err(_))) {
                "stream-error"
            } else if obs.items.len() < want.len() {
                "message-missing"
            } else if obs.items.len() > want.len() {
                "extra-message"
            } else if obs.items.iter().zip(&want).any(|(a, b)| match (a, b) {
                (Item::Msg { bytes: x, .. }, Item::Msg { bytes: y, .. }) => x != y,
                _ => true,
            }) {
                "bytes-differ"
            } else if obs.items == want {
                "delivered-late"
            } else {
                "fds-differ"
            };
            vs.push(
                f_trail(Violation::new(
                    CL_TRAIL,
                    ctx(&format!(
                        "the bytes after the handshake lines are [{}] but the message stream did not start with exactly these (before the late bytes: [{}])",
                        want.iter().map(|i| show_item(i, bank)).collect::<Vec<_>>().join(", "),
                        obs.items_before_late.iter().map(|i| show_item(i, bank)).collect::<Vec<_>>().join(", "),
                    )),
                    replay.clone(),
                ))
                .feat("what", what),
            );
        }
    }
    let outcome = format!(
        "{}/{}{}",
        obs.status.class(),
        auth_reply,
        match &obs.cap {
            Some(Ok(true)) => "/fd",
            Some(Ok(false)) => "/nofd",
            Some(Err(_)) => "/probe-error",
            None => "",
        }
    );
    let state_key = hash64(&(
        verdict.may_complete,
        verdict.fd_agreed,
        parsed.len().min(verdict.replies_expected),
        obs.status.class(),
        &obs.cap,
        obs.items.len(),
        &auth_reply,
        &nego_reply,
    ));
    Judged {
        violations: vs,
        outcome,
        state_key,
    }
}

fn payload(cfg: &Cfg, lines: &[&[u8]], mode: Mode, trailing: Trailing, delivery: &Delivery) -> Value {
    json!({
        "cfg": cfg.json(),
        "lines": lines.iter().map(|l| String::from_utf8_lossy(l).into_owned()).collect::<Vec<_>>(),
        "mode": format!("{mode:?}"),
        "trailing": format!("{trailing:?}"),
        "delivery": match delivery {
            Delivery::Reactive => json!("reactive"),
            Delivery::Cuts { cuts, glue_fd } => json!({"cuts": cuts, "glue_fd": glue_fd}),
        },
    })
}

/// Comparable result of an execution (for split independence).
fn result_key(o: &Obs) -> (Status, Option<Result<bool, String>>, Vec<Item>, Vec<u8>) {
    (o.status.clone(), o.cap.clone(), o.items.clone(), o.client_wrote.clone())
}

/// Cut positions used for 2-cut splits of streams that carry messages: everything in and right
/// after the line region, and around every message's start, fixed header end and end.
fn reduced_positions(sc: &Script, wide: bool) -> Vec<usize> {
    let total = sc.bytes.len();
    let after = if wide { 48 } else { 18 };
    let mut p: BTreeSet<usize> = (1..=(sc.lines_len + after).min(total.saturating_sub(1))).collect();
    for (s, l) in &sc.msgs {
        if wide {
            p.extend(*s..s + 25.min(*l));
            p.extend(s + l - 8.min(*l)..=s + l);
        }
        for q in [s + 1, s + 15, s + 16, s + 17, s + l - 1, s + l] {
            p.insert(q);
        }
    }
    p.into_iter().filter(|q| *q > 0 && *q < total).collect()
}

pub fn main(args: &Args) -> i32 {
    if let Some(p) = &args.replay {
        return replay(p);
    }
    let report = Report::new("C17", args.tier, args.seed, "model_checking");
    let thorough = args.tier == vcommon::Tier::Thorough;
    let alpha = alphabet(thorough);
    let k = alpha.len();
    let max_len = args.tier.pick(3usize, 4usize);
    let bank = build_bank();

    let mut cfgs = vec![];
    for expect in [Expect::None, Expect::Equal, Expect::Different] {
        for fd in [true, false] {
            for mech in [Mech::External, Mech::Anonymous] {
                cfgs.push(Cfg { expect, fd, mech });
            }
        }
    }

    let executions = std::sync::atomic::AtomicU64::new(0);
    let lines_fed = std::sync::atomic::AtomicU64::new(0);
    let split_runs = std::sync::atomic::AtomicU64::new(0);
    let states: Mutex<BTreeSet<u64>> = Mutex::new(BTreeSet::new());
    let per_depth: Mutex<BTreeMap<usize, (u64, u64)>> = Mutex::new(BTreeMap::new());
    let tree_exhausted = std::sync::atomic::AtomicBool::new(true);
    let vsummary: Mutex<BTreeMap<String, u64>> = Mutex::new(BTreeMap::new());
    use std::sync::atomic::Ordering::Relaxed;

    // ---- phase 1: the history tree per configuration (p2p, nothing trailing, line by line) ----
    // node = (cfg index, symbols, status class of the base run)
    let mut nodes: Vec<(usize, Vec<u8>, &'static str)> = vec![];
    for (ci, cfg) in cfgs.iter().enumerate() {
        let root = execute(cfg, &bank, &[], Mode::P2p, Trailing::None, &Delivery::Reactive);
        if root.status != Status::Waiting {
            // a client that does not wait for the server's answer at all
            report.violation(
                Violation::new(
                    CL_ACCEPT,
                    format!("client did not wait for any server line: {:?}", root.status),
                    payload(cfg, &[], Mode::P2p, Trailing::None, &Delivery::Reactive),
                )
                .feat("auth_reply", "none"),
            );
        }
        nodes.push((ci, vec![], root.status.class()));
        let mut frontier: Vec<Vec<u8>> = if root.status == Status::Waiting { vec![vec![]] } else { vec![] };
        for depth in 1..=max_len {
            let n = frontier.len() * k;
            let found: Mutex<Vec<(usize, Vec<u8>, &'static str)>> = Mutex::new(vec![]);
            par_for(n, 4, |idx| {
                let mut syms = frontier[idx / k].clone();
                syms.push((idx % k) as u8);
                let lines: Vec<&[u8]> = syms.iter().map(|s| alpha[*s as usize].0.as_slice()).collect();
                let o = execute(cfg, &bank, &lines, Mode::P2p, Trailing::None, &Delivery::Reactive);
                found.lock().unwrap().push((idx, syms, o.status.class()));
            });
            let mut f = found.into_inner().unwrap();
            f.sort();
            let mut pd = per_depth.lock().unwrap();
            let e = pd.entry(depth).or_insert((0, 0));
            e.0 += f.len() as u64;
            frontier = vec![];
            for (_, syms, class) in f {
                if class == "waiting" {
                    e.1 += 1;
                    frontier.push(syms.clone());
                }
                nodes.push((ci, syms, class));
            }
            drop(pd);
            if frontier.is_empty() {
                break;
            }
            if depth == max_len {
                tree_exhausted.store(false, Relaxed);
            }
        }
    }

    // ---- phase 2: every node x flavour x trailing, judged; plus read splits ----
    let n_var = MODES.len() * TRAILINGS.len();
    let jobs = nodes.len() * n_var;
    par_for(jobs, 1, |job| {
        let (ci, syms, base_class) = &nodes[job / n_var];
        let cfg = &cfgs[*ci];
        let mode = MODES[(job % n_var) / TRAILINGS.len()];
        let trailing = TRAILINGS[job % TRAILINGS.len()];
        let lines: Vec<&[u8]> = syms.iter().map(|s| alpha[*s as usize].0.as_slice()).collect();
        let base_variant = mode == Mode::P2p && trailing == Trailing::None;

        let o = execute(cfg, &bank, &lines, mode, trailing, &Delivery::Reactive);
        executions.fetch_add(1, Relaxed);
        lines_fed.fetch_add(lines.len() as u64, Relaxed);
        report.eval(1);
        let pl = payload(cfg, &lines, mode, trailing, &Delivery::Reactive);
        let j = judge(cfg, &bank, &lines, mode, trailing, &o, &pl);
        report.outcome(&j.outcome);
        states.lock().unwrap().insert(j.state_key);
        if o.client_wrote.len() > 1 && !lines.is_empty() {
            report.nontrivial(hash64(&(cfg, syms, mode, trailing)));
        }
        if job % 211 == 0 {
            report.sample(json!({
                "cfg": cfg.json(), "mode": format!("{mode:?}"), "trailing": format!("{trailing:?}"),
                "lines": lines.iter().map(|l| show(l)).collect::<Vec<_>>(),
                "client_wrote": show(&o.client_wrote),
                "status": format!("{:?}", o.status), "fd_capability": format!("{:?}", o.cap),
                "stream": o.items.iter().map(|i| show_item(i, &bank)).collect::<Vec<_>>(),
            }));
        }
        for v in j.violations {
            *vsummary.lock().unwrap().entry(format!("{} {:?}", v.clause, v.features)).or_insert(0) += 1;
            report.violation(v);
        }

        // ---- read splits ----
        // Streams that stop inside the handshake (failed / panicked in the base run) never read
        // past the lines, so only their base variant is split.
        // In the BusError / BusSignalFirst flavours the client gives up at the Hello reply and never
        // reads the trailing bytes, so those are split with nothing trailing only.
        let gives_up_at_hello = matches!(mode, Mode::BusError | Mode::BusSignalFirst);
        let worth = base_variant
            || (matches!(*base_class, "completed" | "waiting") && (!gives_up_at_hello || trailing == Trailing::None));
        if !worth || syms.len() > 2 {
            return;
        }
        let sc = script(&bank, &lines, mode, trailing);
        let total = sc.bytes.len();
        if total == 0 {
            return;
        }
        let want = result_key(&o);
        let check = |d: Delivery| {
            let o2 = execute(cfg, &bank, &lines, mode, trailing, &d);
            executions.fetch_add(1, Relaxed);
            split_runs.fetch_add(1, Relaxed);
            report.eval(1);
            let got = result_key(&o2);
            if got != want {
                let kind = if matches!(o2.status, Status::Panic(_)) && !matches!(o.status, Status::Panic(_)) {
                    "panic-only-when-split"
                } else if o2.status.class() != o.status.class() {
                    "different-status"
                } else if o2.cap != o.cap {
                    "different-fd-capability"
                } else if o2.items != o.items {
                    "different-stream-content"
                } else {
                    "different-client-output"
                };
                let pl2 = payload(cfg, &lines, mode, trailing, &d);
                // Tell the judge about it too: a split run is an execution in its own right.
                let j2 = judge(cfg, &bank, &lines, mode, trailing, &o2, &pl2);
                for v in j2.violations {
                    let v = v.feat("delivery", "split");
                    *vsummary.lock().unwrap().entry(format!("{} {:?}", v.clause, v.features)).or_insert(0) += 1;
                    report.violation(v);
                }
                *vsummary.lock().unwrap().entry(format!("{CL_SPLIT} kind={kind} {mode:?} {trailing:?}")).or_insert(0) += 1;
                report.violation(
                    Violation::new(
                        CL_SPLIT,
                        format!(
                            "expected-guid={:?} fd-socket={} mech={} {:?} trailing={:?}: server lines {} delivered line by line: {:?} cap {:?} stream [{}]; delivered as {:?}: {:?} cap {:?} stream [{}]",
                            cfg.expect, cfg.fd, cfg.mech.name(), mode, trailing, show_lines(&lines),
                            o.status, o.cap, o.items.iter().map(|i| show_item(i, &bank)).collect::<Vec<_>>().join(", "),
                            d, o2.status, o2.cap, o2.items.iter().map(|i| show_item(i, &bank)).collect::<Vec<_>>().join(", "),
                        ),
                        pl2,
                    )
                    .feat("kind", kind)
                    .feat("flavour", format!("{mode:?}"))
                    .feat("trailing", format!("{trailing:?}"))
                    .feat("line_by_line", o.status.class())
                    .feat("split", o2.status.class()),
                );
            }
        };
        // everything in one read (a descriptor then arrives together with earlier bytes; only
        // faithful when a single read takes the whole stream, i.e. in the handshake's 1 KiB reads)
        if total < 1024 && mode == Mode::P2p {
            check(Delivery::Cuts { cuts: vec![], glue_fd: true });
        }
        check(Delivery::Cuts { cuts: vec![], glue_fd: false });
        // byte at a time over the line region (+ a little), the rest in one piece
        check(Delivery::Cuts { cuts: (1..(sc.lines_len + 20).min(total)).collect(), glue_fd: false });
        // all 1-cut splits
        for c in 1..total {
            check(Delivery::Cuts { cuts: vec![c], glue_fd: false });
        }
        // 2-cut splits: all of them when the stream is only lines, else over the reduced positions
        let pos: Vec<usize> = if base_variant { (1..total).collect() } else { reduced_positions(&sc, thorough) };
        for (i, a) in pos.iter().enumerate() {
            for b in &pos[i + 1..] {
                check(Delivery::Cuts { cuts: vec![*a, *b], glue_fd: false });
            }
        }
    });

    report.set("states", json!(states.lock().unwrap().len().max(1)));
    report.set("transitions", json!(lines_fed.load(Relaxed).max(1)));
    report.set("traces_validated_against_impl", json!(executions.load(Relaxed)));
    report.set("split_executions", json!(split_runs.load(Relaxed)));
    report.set("tree_nodes", json!(nodes.len()));
    report.set("tree_exhausted_within_depth_bound", json!(tree_exhausted.load(Relaxed)));
    report.set(
        "states_meaning",
        json!("distinct (monitor verdict, handshake lines consumed, client status, fd capability, stream length, reply classes) tuples; informational, no merging is done"),
    );
    report.set("alphabet", json!(alpha.iter().map(|(l, _)| show(l)).collect::<Vec<_>>()));
    report.set("max_transcript_length", json!(max_len));
    report.set(
        "tree_nodes_per_depth",
        json!(per_depth
            .lock()
            .unwrap()
            .iter()
            .map(|(d, (n, live))| json!({"depth": d, "transcripts": n, "still_waiting": live}))
            .collect::<Vec<_>>()),
    );
    report.set(
        "violating_cases_by_identity",
        json!(vsummary.lock().unwrap().iter().map(|(k, n)| json!({"identity": k, "cases": n})).collect::<Vec<_>>()),
    );
    if !tree_exhausted.load(Relaxed) {
        report.note("some transcripts of maximal length still wait for input; the depth bound cut the tree");
    }
    report.assume("a descriptor travels with the first byte of its message and that byte starts a new write of the server; a read never returns bytes of two writes unless it returns the first completely (scripted socket chunks)");
    report.assume("the wire monitor (refsasl::client_verdict) pairs every client command except BEGIN with one server line, in order, as the D-Bus specification does");
    report.assume("fd capability is observed through Connection::send of an fd-carrying message (Error::Unsupported iff not enabled)");
    report.assume("FLATPAK_ID is not set (the non-pipelined flatpak path of the client is not exercised)");
    report.finish(
        "history tree of server lines (extended only below prefixes on which the client still waits) x expected GUID {none, equal, different} \
         x fd-capable socket x mechanism x flavour {p2p, bus: Hello return / error / signal first} x trailing {none, one message, 1.5 messages, \
         message with fd, plain message then fd message}; every case delivered line by line; cases of <= 2 lines additionally in one read, \
         byte-wise over the line region, with every 1-cut and with 2-cuts (all for line-only streams, otherwise over line region + message \
         boundaries/header ends; wider windows in the thorough tier). non-trivial = the client sent something and at least one server line was delivered",
        true,
    )
}

fn replay(path: &str) -> i32 {
    let art = vcommon::load_replay(path);
    let rp = &art["replay"];
    let cfg = Cfg::from_json(&rp["cfg"]);
    let bank = build_bank();
    let lines_owned: Vec<Vec<u8>> = rp["lines"]
        .as_array()
        .map(|a| a.iter().map(|l| l.as_str().unwrap_or("").as_bytes().to_vec()).collect())
        .unwrap_or_default();
    let lines: Vec<&[u8]> = lines_owned.iter().map(|l| l.as_slice()).collect();
    let mode = mode_from(rp["mode"].as_str().unwrap_or("P2p"));
    let trailing = trailing_from(rp["trailing"].as_str().unwrap_or("None"));
    let delivery = match &rp["delivery"] {
        Value::Object(o) => Delivery::Cuts {
            cuts: o["cuts"]
                .as_array()
                .map(|a| a.iter().map(|c| c.as_u64().unwrap_or(1) as usize).collect())
                .unwrap_or_default(),
            glue_fd: o["glue_fd"].as_bool().unwrap_or(false),
        },
        _ => Delivery::Reactive,
    };
    println!(
        "C17 replay: cfg={} mode={mode:?} trailing={trailing:?} delivery={delivery:?} clause={}",
        cfg.json(),
        art["clause"]
    );
    println!("  server lines: {}", show_lines(&lines));
    let base = execute(&cfg, &bank, &lines, mode, trailing, &Delivery::Reactive);
    let print = |tag: &str, o: &Obs| {
        println!(
            "  [{tag}] client wrote \"{}\"; status {:?}; fd capability {:?}; stream before late bytes [{}], finally [{}]",
            show(&o.client_wrote),
            o.status,
            o.cap,
            o.items_before_late.iter().map(|i| show_item(i, &bank)).collect::<Vec<_>>().join(", "),
            o.items.iter().map(|i| show_item(i, &bank)).collect::<Vec<_>>().join(", ")
        );
    };
    print("line by line", &base);
    let mut bad = false;
    let pl = payload(&cfg, &lines, mode, trailing, &delivery);
    let o = if matches!(delivery, Delivery::Reactive) {
        base.clone()
    } else {
        let o2 = execute(&cfg, &bank, &lines, mode, trailing, &delivery);
        print("as recorded", &o2);
        if result_key(&o2) != result_key(&base) {
            println!("  violation: clause={CL_SPLIT}");
            bad = true;
        }
        o2
    };
    let j = judge(&cfg, &bank, &lines, mode, trailing, &o, &pl);
    for v in &j.violations {
        println!("  violation: clause={} features={:?}", v.clause, v.features);
        bad = true;
    }
    println!("C17 replay: {}", if bad { "REPRODUCED" } else { "not reproduced" });
    if bad {
        1
    } else {
        0
    }
}
