//! C14 — the byte stream is framed into exactly the messages that were sent.
//!
//! Reader-only exploration: the "schedule" quantifier of this property is the way the transport
//! splits the stream across reads (and what the handshake already consumed). Every split with at
//! most k cuts is enumerated explicitly; inside one case the tasks run on the default schedule.

use std::{
    os::fd::{AsFd, OwnedFd},
    sync::Mutex,
};

use futures_lite::StreamExt;
use serde_json::{json, Value as J};
use vcommon::{enumerate, hash64, Args, Report, Tier, Violation};
use zbus::{connection::Builder, zvariant::Fd, Message, MessageStream};

use crate::world::{inode_of, new_fd, Link, SockCfg, World, GUID};

pub struct Msg {
    pub name: &'static str,
    pub bytes: Vec<u8>,
    pub fds: Vec<OwnedFd>,
}

fn corpus() -> Vec<Msg> {
    let mut out = vec![];
    let mut add = |name: &'static str, m: Message| {
        let data = m.data();
        let fds = data
            .fds()
            .iter()
            .map(|f| f.as_fd().try_clone_to_owned().unwrap())
            .collect();
        out.push(Msg {
            name,
            bytes: data.bytes().to_vec(),
            fds,
        });
    };
    add(
        "sig-empty",
        Message::signal("/p", "a.b", "S0").unwrap().build(&()).unwrap(),
    );
    add(
        "call-str",
        Message::method_call("/p/q", "M1")
            .unwrap()
            .interface("a.b")
            .unwrap()
            .build(&("hello",))
            .unwrap(),
    );
    add(
        "sig-u64",
        Message::signal("/p", "a.b", "S2")
            .unwrap()
            .build(&(0x0102030405060708u64,))
            .unwrap(),
    );
    add(
        "sig-array",
        Message::signal("/p", "a.b.c", "S3")
            .unwrap()
            .build(&(vec![1u32, 2, 3], "x"))
            .unwrap(),
    );
    let f1 = new_fd("c14-a");
    add(
        "sig-1fd",
        Message::signal("/p", "a.b", "S4")
            .unwrap()
            .build(&(Fd::from(f1.as_fd()),))
            .unwrap(),
    );
    let (f2, f3) = (new_fd("c14-b"), new_fd("c14-c"));
    add(
        "sig-2fd",
        Message::signal("/p", "a.b", "S5")
            .unwrap()
            .build(&(Fd::from(f2.as_fd()), 7u8, Fd::from(f3.as_fd())))
            .unwrap(),
    );
    add(
        "sig-nl",
        // body contains "\r\n" and NUL-free text that looks like a handshake line
        Message::signal("/p", "a.b", "S6")
            .unwrap()
            .build(&("OK\r\nBEGIN\r\n",))
            .unwrap(),
    );
    add(
        "sig-long",
        Message::signal("/p", "a.b", "S7")
            .unwrap()
            .build(&("x".repeat(70),))
            .unwrap(),
    );
    out
}

#[derive(Clone, Debug)]
struct Case {
    seq: Vec<usize>,
    /// Some(k): the first k stream bytes arrive during the client handshake (same read as the
    /// server's last handshake line).
    leftover: Option<usize>,
    /// chunk sizes of the rest of the stream
    chunks: Vec<usize>,
}

impl Case {
    fn to_json(&self, corpus: &[Msg]) -> J {
        json!({
            "messages": self.seq.iter().map(|i| corpus[*i].name).collect::<Vec<_>>(),
            "seq": self.seq,
            "leftover": self.leftover,
            "chunks": self.chunks,
        })
    }
    fn from_json(j: &J) -> Case {
        Case {
            seq: j["seq"].as_array().unwrap().iter().map(|x| x.as_u64().unwrap() as usize).collect(),
            leftover: j["leftover"].as_u64().map(|x| x as usize),
            chunks: j["chunks"].as_array().unwrap().iter().map(|x| x.as_u64().unwrap() as usize).collect(),
        }
    }
}

struct Yielded {
    bytes: Vec<u8>,
    inodes: Vec<u64>,
    pos: u64,
}

struct Outcome {
    yielded: Vec<Yielded>,
    errors: Vec<String>,
    built: bool,
    panic: Option<String>,
    recv_calls: usize,
}

/// message start offsets in the stream
fn starts(corpus: &[Msg], seq: &[usize]) -> Vec<usize> {
    let mut v = vec![];
    let mut p = 0;
    for i in seq {
        v.push(p);
        p += corpus[*i].bytes.len();
    }
    v
}

fn stream_of(corpus: &[Msg], seq: &[usize]) -> Vec<u8> {
    seq.iter().flat_map(|i| corpus[*i].bytes.clone()).collect()
}

/// fds (dup'ed) of messages starting in [from, to), with offsets relative to `base`.
fn fds_in(corpus: &[Msg], seq: &[usize], from: usize, to: usize, base: isize) -> Vec<(usize, OwnedFd)> {
    let st = starts(corpus, seq);
    let mut out = vec![];
    for (k, i) in seq.iter().enumerate() {
        if st[k] >= from && st[k] < to {
            for fd in &corpus[*i].fds {
                out.push(((st[k] as isize + base) as usize, fd.try_clone().unwrap()));
            }
        }
    }
    out
}

/// A read may carry the start of at most one fd-bearing message (the kernel never coalesces two
/// SCM_RIGHTS payloads into one recvmsg).
fn realistic(corpus: &[Msg], seq: &[usize], bounds: &[(usize, usize)]) -> bool {
    let st = starts(corpus, seq);
    for (from, to) in bounds {
        let n = seq
            .iter()
            .enumerate()
            .filter(|(k, i)| st[*k] >= *from && st[*k] < *to && !corpus[**i].fds.is_empty())
            .count();
        if n > 1 {
            return false;
        }
    }
    true
}

fn run_case(corpus: &[Msg], case: &Case) -> Outcome {
    let r = vcommon::catch(|| run_case_inner(corpus, case));
    match r {
        Ok(o) => o,
        Err(p) => Outcome {
            yielded: vec![],
            errors: vec![],
            built: false,
            panic: Some(format!("{p} at {}", vcommon::last_panic_location())),
            recv_calls: 0,
        },
    }
}

fn run_case_inner(corpus: &[Msg], case: &Case) -> Outcome {
    let mut w = World::new();
    let link = Link::new();
    let sock = link.end_a(SockCfg::default());
    let stream_bytes = stream_of(corpus, &case.seq);
    let authenticated = case.leftover.is_none();
    let root = w.spawn("build", async move {
        let b = if authenticated {
            Builder::authenticated_socket(sock, GUID).unwrap()
        } else {
            Builder::socket(sock)
        };
        let conn = b.p2p().internal_executor(false).build().await?;
        let stream = MessageStream::from(&conn);
        Ok::<_, zbus::Error>((conn, stream))
    });
    let mut pos = 0usize;
    if let Some(k) = case.leftover {
        // play the server side of the SASL handshake
        w.settle(); // client sent AUTH
        link.b2a.push(format!("OK {GUID}\r\n").as_bytes(), vec![]);
        w.settle(); // client sent NEGOTIATE_UNIX_FD + BEGIN
        let line = b"AGREE_UNIX_FD\r\n";
        let mut chunk = line.to_vec();
        chunk.extend_from_slice(&stream_bytes[..k]);
        let fds = fds_in(corpus, &case.seq, 0, k, line.len() as isize);
        link.b2a.push_with_fds(&chunk, fds);
        pos = k;
    }
    w.settle();
    for sz in &case.chunks {
        let fds = fds_in(corpus, &case.seq, pos, pos + sz, -(pos as isize));
        link.b2a.push_with_fds(&stream_bytes[pos..pos + sz], fds);
        pos += sz;
        w.settle();
    }
    let built = root.take();
    let mut out = Outcome {
        yielded: vec![],
        errors: vec![],
        built: false,
        panic: None,
        recv_calls: link.b2a.with(|c| c.recv_calls),
    };
    let (conn, mut stream) = match built {
        Some(Ok(x)) => x,
        Some(Err(e)) => {
            out.errors.push(format!("build: {e}"));
            return out;
        }
        None => {
            out.errors.push("build did not complete".into());
            return out;
        }
    };
    out.built = true;
    // drain the stream without blocking
    let drained = w.complete("drain", async move {
        let mut items = vec![];
        while let Some(Some(item)) = futures_lite::future::poll_once(stream.next()).await {
            items.push(item);
            if items.len() > 16 {
                break;
            }
        }
        (items, stream)
    });
    if let Some((items, _stream)) = drained {
        for it in items {
            match it {
                Ok(m) => {
                    let d = m.data();
                    out.yielded.push(Yielded {
                        bytes: d.bytes().to_vec(),
                        inodes: d.fds().iter().map(|f| inode_of(&f.as_fd())).collect(),
                        pos: {
                            // recv_position is opaque but ordered; keep it as its Debug form index
                            let s = format!("{:?}", m.recv_position());
                            s.chars().filter(|c| c.is_ascii_digit()).collect::<String>().parse().unwrap_or(0)
                        },
                    });
                }
                Err(e) => out.errors.push(format!("stream: {e}")),
            }
        }
    }
    drop(conn);
    out
}

fn check_case(corpus: &[Msg], case: &Case, report: &Report) {
    let o = run_case(corpus, case);
    report.eval(1);
    let has_fd = case.seq.iter().any(|i| !corpus[*i].fds.is_empty());
    let leftover_covers_fd_msg = case
        .leftover
        .map(|k| {
            let st = starts(corpus, &case.seq);
            case.seq
                .iter()
                .enumerate()
                .any(|(j, i)| st[j] < k && !corpus[*i].fds.is_empty())
        })
        .unwrap_or(false);
    // feature: is there an fd-less message completely inside the leftover that precedes an
    // fd-bearing message whose first byte is also inside the leftover?
    let fdless_before_fd_in_leftover = case
        .leftover
        .map(|k| {
            let st = starts(corpus, &case.seq);
            let first_fd = case
                .seq
                .iter()
                .enumerate()
                .find(|(j, i)| st[*j] < k && !corpus[**i].fds.is_empty())
                .map(|(j, _)| j);
            match first_fd {
                Some(j) => j > 0,
                None => false,
            }
        })
        .unwrap_or(false);
    let mk = |clause: &str, detail: String| {
        Violation::new(clause, detail, case.to_json(corpus))
            .feat("leftover", case.leftover.is_some())
            .feat("has_fd", has_fd)
            .feat("leftover_covers_fd_msg_start", leftover_covers_fd_msg)
            .feat("fdless_msg_before_fd_msg_in_leftover", fdless_before_fd_in_leftover)
    };
    if let Some(p) = &o.panic {
        report.outcome("panic");
        report.violation(mk("no-panic", format!("panic while framing {:?}: {p}", case.to_json(corpus))));
        return;
    }
    let mut ok = true;
    if o.yielded.len() != case.seq.len() || !o.errors.is_empty() {
        ok = false;
        report.violation(mk(
            "exactly-the-sent-messages",
            format!(
                "sent {} message(s), stream yielded {} and errors {:?}; case {}",
                case.seq.len(),
                o.yielded.len(),
                o.errors,
                case.to_json(corpus)
            ),
        ));
    } else {
        let mut last = 0u64;
        for (k, y) in o.yielded.iter().enumerate() {
            let m = &corpus[case.seq[k]];
            if y.bytes != m.bytes {
                ok = false;
                report.violation(mk(
                    "byte-identical-in-order",
                    format!("message {k} differs from what was sent; case {}", case.to_json(corpus)),
                ));
            }
            let want: Vec<u64> = m.fds.iter().map(|f| inode_of(f)).collect();
            if y.inodes != want {
                ok = false;
                report.violation(mk(
                    "fds-accompany-their-message",
                    format!(
                        "message {k} ({}) carries fds {:?}, expected {:?}; case {}",
                        m.name,
                        y.inodes,
                        want,
                        case.to_json(corpus)
                    ),
                ));
            }
            if y.pos <= last && k > 0 {
                ok = false;
                report.violation(mk(
                    "recv-position-increasing",
                    format!("receive positions not strictly increasing: {} after {}; case {}", y.pos, last, case.to_json(corpus)),
                ));
            }
            last = y.pos;
        }
    }
    report.outcome(if ok { "framed-correctly" } else { "misframed" });
    if case.chunks.len() > 1 || case.leftover.map(|k| k > 0).unwrap_or(false) {
        report.nontrivial(hash64(&(&case.seq, case.leftover, &case.chunks)));
    }
}

/// A header announcing more than 128 MiB must be rejected without reading the body.
fn oversize(report: &Report) {
    for (name, body_len, fields_len) in [
        ("body-128MiB+1", 128u32 * 1024 * 1024 + 1, 0u32),
        ("body-u32max", u32::MAX, 0),
        ("fields-128MiB", 0, 128 * 1024 * 1024),
        ("sum-just-over", 128 * 1024 * 1024 - 16, 8),
    ] {
        for split in [vec![16usize], vec![1, 15], vec![8, 8]] {
            let r = vcommon::catch(|| {
                let mut w = World::new();
                let link = Link::new();
                let sock = link.end_a(SockCfg::default());
                let root = w.spawn("build", async move {
                    let conn = Builder::authenticated_socket(sock, GUID)
                        .unwrap()
                        .p2p()
                        .internal_executor(false)
                        .build()
                        .await
                        .unwrap();
                    let s = MessageStream::from(&conn);
                    (conn, s)
                });
                w.settle();
                let mut hdr = vec![b'l', 4, 0, 1];
                hdr.extend_from_slice(&body_len.to_le_bytes());
                hdr.extend_from_slice(&1u32.to_le_bytes());
                hdr.extend_from_slice(&fields_len.to_le_bytes());
                let mut pos = 0;
                for s in &split {
                    link.b2a.push(&hdr[pos..pos + s], vec![]);
                    pos += s;
                    w.settle();
                }
                let calls_after_header = link.b2a.with(|c| c.recv_calls);
                let bytes_read = link.b2a.with(|c| c.recv_bytes);
                // offer more bytes: a correct reader must not take them
                link.b2a.push(&[0u8; 64], vec![]);
                w.settle();
                let calls_end = link.b2a.with(|c| c.recv_calls);
                let bytes_end = link.b2a.with(|c| c.recv_bytes);
                let (conn, mut s) = root.take().unwrap();
                let item = w.complete("next", async move { futures_lite::future::poll_once(s.next()).await });
                drop(conn);
                (calls_after_header, calls_end, bytes_read, bytes_end, item.map(|i| i.map(|i| i.map(|r| r.is_err()))))
            });
            report.eval(1);
            report.nontrivial(hash64(&(name, &split)));
            let case = json!({"oversize": name, "body_len": body_len, "fields_len": fields_len, "split": split});
            match r {
                Err(p) => report.violation(
                    Violation::new("no-panic", format!("panic on oversize header {name}: {p}"), case).feat("oversize", name),
                ),
                Ok((_c0, _c1, b0, b1, item)) => {
                    let rejected = matches!(item, Some(Some(Some(true))));
                    if b1 != b0 {
                        report.outcome("oversize-read-on");
                        report.violation(
                            Violation::new(
                                "oversize-rejected-without-reading",
                                format!("after an oversize header ({name}) the reader consumed {} more bytes", b1 - b0),
                                case,
                            )
                            .feat("oversize", name),
                        );
                    } else if !rejected {
                        report.outcome("oversize-not-rejected");
                        report.violation(
                            Violation::new(
                                "oversize-rejected-without-reading",
                                format!("oversize header ({name}) was not reported as an error on the stream: {item:?}"),
                                case,
                            )
                            .feat("oversize", name),
                        );
                    } else {
                        report.outcome("oversize-rejected");
                    }
                }
            }
        }
    }
}

fn build_cases(corpus: &[Msg], tier: Tier, skipped: &mut u64) -> Vec<Case> {
    let n = corpus.len();
    let mut seqs: Vec<Vec<usize>> = vec![];
    for a in 0..n {
        seqs.push(vec![a]);
    }
    for a in 0..n {
        for b in 0..n {
            seqs.push(vec![a, b]);
        }
    }
    for a in 0..n {
        for b in 0..n {
            for c in 0..n {
                seqs.push(vec![a, b, c]);
            }
        }
    }
    let mut cases = vec![];
    for seq in &seqs {
        let len: usize = seq.iter().map(|i| corpus[*i].bytes.len()).sum();
        // cut budget by sequence length and tier
        let max_cuts = match (seq.len(), tier) {
            (1, Tier::Quick) => 2,
            (2, Tier::Quick) => 2,
            (3, Tier::Quick) => 1,
            (1, Tier::Thorough) => 3,
            (2, Tier::Thorough) => 2,
            (_, Tier::Thorough) => 2,
            _ => 1,
        };
        // quick: 2-cut splits of 2-message sequences only when both messages are short
        let max_cuts = if tier == Tier::Quick && seq.len() == 2 && len > 330 { 1 } else { max_cuts };
        for cuts in enumerate::cuts(len, max_cuts) {
            let chunks = enumerate::chunks_from_cuts(len, &cuts);
            let mut bounds = vec![];
            let mut p = 0;
            for c in &chunks {
                bounds.push((p, p + c));
                p += c;
            }
            if !realistic(corpus, seq, &bounds) {
                *skipped += 1;
                continue;
            }
            cases.push(Case {
                seq: seq.clone(),
                leftover: None,
                chunks,
            });
        }
        // byte at a time
        cases.push(Case {
            seq: seq.clone(),
            leftover: None,
            chunks: vec![1; len],
        });
        // handshake leftovers: every prefix length; the rest in one chunk, and (for ≤ 2 messages)
        // cut once at every position
        if seq.len() <= tier.pick(2, 3) {
            for k in 0..=len.min(1000) {
                if !realistic(corpus, seq, &[(0, k)]) {
                    *skipped += 1;
                    continue;
                }
                let rest = len - k;
                if rest == 0 {
                    cases.push(Case { seq: seq.clone(), leftover: Some(k), chunks: vec![] });
                    continue;
                }
                if realistic(corpus, seq, &[(k, len)]) {
                    cases.push(Case { seq: seq.clone(), leftover: Some(k), chunks: vec![rest] });
                } else {
                    *skipped += 1;
                }
                if seq.len() == 1 || tier == Tier::Thorough {
                    for c in 1..rest {
                        if realistic(corpus, seq, &[(k, k + c), (k + c, len)]) {
                            cases.push(Case { seq: seq.clone(), leftover: Some(k), chunks: vec![c, rest - c] });
                        } else {
                            *skipped += 1;
                        }
                    }
                }
            }
        }
    }
    cases
}

pub fn main(args: &Args) -> i32 {
    let corpus = corpus();
    if let Some(p) = &args.replay {
        let j = vcommon::load_replay(p);
        let case = Case::from_json(&j["replay"]);
        let o = run_case(&corpus, &case);
        println!("case: {}", case.to_json(&corpus));
        println!("built={} panic={:?} errors={:?}", o.built, o.panic, o.errors);
        for y in &o.yielded {
            println!("yielded {} bytes fds={:?} pos={}", y.bytes.len(), y.inodes, y.pos);
        }
        return 0;
    }
    let report = Report::new("C14", args.tier, args.seed, "model_checking");
    let mut skipped = 0u64;
    let cases = build_cases(&corpus, args.tier, &mut skipped);
    report.set("splits_skipped_as_unrealistic", json!(skipped));
    report.sample(cases[cases.len() / 3].to_json(&corpus));
    report.sample(cases[cases.len() / 2].to_json(&corpus));
    report.sample(cases[cases.len() - 1].to_json(&corpus));
    let transitions = Mutex::new(0u64);
    vcommon::par_for(cases.len(), 64, |i| {
        check_case(&corpus, &cases[i], &report);
        *transitions.lock().unwrap() += (cases[i].chunks.len() + 1) as u64;
    });
    oversize(&report);
    report.assume("a read carries the start of at most one fd-bearing message (Linux never coalesces two SCM_RIGHTS payloads); fds travel with the first byte of their message");
    report.assume("the transport honours the ReadHalf contract (scripted in-memory pipe); the real unix/tcp back-ends are below this seam");
    report.assume("inside one case tasks run on the default schedule: the only other task is the socket reader");
    report.set("states", json!(report.evaluations()));
    report.set("transitions", json!(*transitions.lock().unwrap()));
    report.set("traces_validated_against_impl", json!(report.evaluations()));
    report.set(
        "bounds",
        json!({"corpus": corpus.iter().map(|m| json!({"name": m.name, "len": m.bytes.len(), "fds": m.fds.len()})).collect::<Vec<_>>(),
               "sequences": "all sequences of 1..3 corpus messages",
               "cuts": args.tier.pick("≤2 cuts for 1–2 messages (1 cut when the pair is longer than 330 bytes), ≤1 cut for 3 messages, plus byte-at-a-time", "≤3 cuts for 1 message, ≤2 cuts for 2–3 messages, plus byte-at-a-time"),
               "leftover": "every prefix length of the stream handed over by a real client handshake (same read as the server's last line), rest in one chunk; additionally every 1-cut of the rest"}),
    );
    report.finish(
        "every sequence of 1..3 corpus messages × every way to cut the byte stream at ≤k positions (+ byte-at-a-time) × every handshake-leftover prefix length; non-trivial = the stream is split or part of it arrived during the handshake; distinct by (sequence, leftover, chunking)",
        true,
    )
}
