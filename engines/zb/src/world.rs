//! E-sched world: one thread, scripted in-memory transports, every task (harness roots and the
//! tasks zbus spawns, through the H1 seam) in one pool owned by the harness.

use std::{
    collections::{BTreeMap, VecDeque},
    future::Future,
    io,
    os::fd::{AsRawFd, BorrowedFd, FromRawFd, OwnedFd},
    pin::Pin,
    sync::{Arc, Mutex},
    task::{Context, Poll, Waker},
};

use zbus::{
    connection::socket::{ReadHalf, Socket, Split, WriteHalf},
    fdo::ConnectionCredentials,
    verif::{self, SpawnSeam},
    AuthMechanism,
};

use crate::explore::choose;

// ---------------------------------------------------------------------------------------------
// Pool
// ---------------------------------------------------------------------------------------------

#[derive(Default)]
pub struct Pool {
    runnable: Mutex<BTreeMap<usize, async_task::Runnable>>,
    names: Mutex<BTreeMap<usize, String>>,
}

impl SpawnSeam for Pool {
    fn schedule(&self, id: usize, name: &str, r: async_task::Runnable) {
        self.names
            .lock()
            .unwrap()
            .entry(id)
            .or_insert_with(|| name.to_string());
        // Never drop a Runnable while holding the lock (dropping can wake other tasks).
        let old = self.runnable.lock().unwrap().insert(id, r);
        drop(old);
    }
}

// ---------------------------------------------------------------------------------------------
// Transport
// ---------------------------------------------------------------------------------------------

#[derive(Debug)]
pub struct Chunk {
    pub bytes: Vec<u8>,
    /// fds with the offset (within `bytes`) of the byte they travel with: a read delivers an fd
    /// when it consumes that byte (as SCM_RIGHTS data is tied to the first byte of its sendmsg).
    pub fds: Vec<(usize, OwnedFd)>,
}

/// How `sendmsg` answers.
#[derive(Clone, Debug, PartialEq)]
pub enum WriteMode {
    /// Accept everything.
    All,
    /// Accept at most `n` bytes per call.
    AtMost(usize),
    /// Explorer choice per call among: everything, 1 byte, half, Pending (the latter at most
    /// `pending_budget` times per execution).
    Choice { pending_budget: usize },
    /// Accept everything and hand it to the peer at once, but let the writing task yield once
    /// before `sendmsg` reports completion. This puts a scheduling point right AFTER the write
    /// took effect (what a preemption of the writing thread just after the system call returned
    /// looks like, or a transport whose `sendmsg` finishes asynchronously): the peer's answer can
    /// be processed by other tasks before the writer continues.
    YieldAfter,
}

/// How `recvmsg` answers when data is available.
#[derive(Clone, Debug, PartialEq)]
pub enum ReadMode {
    /// Return as much of the first chunk as fits.
    All,
    /// Explorer choice per call among: everything, 1 byte, half.
    Choice,
}

/// One direction of a duplex in-memory socket.
#[derive(Debug)]
pub struct Chan {
    /// Readable data.
    pub q: VecDeque<Chunk>,
    /// Written but not yet released to the reader (only when `manual_release`).
    pub held: VecDeque<Chunk>,
    pub manual_release: bool,
    pub eof: bool,
    pub read_err: Option<io::ErrorKind>,
    pub read_waker: Option<Waker>,
    pub read_mode: ReadMode,
    pub recv_calls: usize,
    pub recv_bytes: usize,
    pub write_mode: WriteMode,
    /// In any write mode: let the writing task yield once after every accepted write (see
    /// `WriteMode::YieldAfter`), also after partial ones.
    pub yield_after_write: bool,
    pub pending_used: usize,
    pub write_waker: Option<Waker>,
    /// Fail the `n`-th sendmsg call (0-based) with this error.
    pub write_fault: Option<(usize, io::ErrorKind)>,
    /// All writes fail from now on.
    pub write_broken: Option<io::ErrorKind>,
    pub send_calls: usize,
    /// Everything ever written (for peer-side observation), with fd arrival offsets.
    pub written: Vec<u8>,
    pub written_fds: Vec<(usize, u64)>, // (byte offset of the write that carried it, inode)
    /// Sizes of the individual sendmsg acceptances.
    pub write_sizes: Vec<usize>,
    pub closed: bool,
    pub writer_dropped: bool,
    pub reader_dropped: bool,
}

impl Default for Chan {
    fn default() -> Self {
        Self {
            q: VecDeque::new(),
            held: VecDeque::new(),
            manual_release: false,
            eof: false,
            read_err: None,
            read_waker: None,
            read_mode: ReadMode::All,
            recv_calls: 0,
            recv_bytes: 0,
            write_mode: WriteMode::All,
            yield_after_write: false,
            pending_used: 0,
            write_waker: None,
            write_fault: None,
            write_broken: None,
            send_calls: 0,
            written: vec![],
            written_fds: vec![],
            write_sizes: vec![],
            closed: false,
            writer_dropped: false,
            reader_dropped: false,
        }
    }
}

pub type ChanRef = Arc<Mutex<Chan>>;

pub fn inode_of(fd: &impl AsRawFd) -> u64 {
    let mut st: libc::stat = unsafe { std::mem::zeroed() };
    let r = unsafe { libc::fstat(fd.as_raw_fd(), &mut st) };
    if r != 0 {
        return 0;
    }
    ((st.st_dev as u64) << 40) ^ (st.st_ino as u64)
}

/// A fresh anonymous file (distinct inode).
pub fn new_fd(tag: &str) -> OwnedFd {
    let name = std::ffi::CString::new(tag).unwrap();
    let fd = unsafe { libc::memfd_create(name.as_ptr(), 0) };
    assert!(fd >= 0, "memfd_create failed");
    unsafe { OwnedFd::from_raw_fd(fd) }
}

/// Harness-side handle on one direction.
#[derive(Clone, Debug)]
pub struct ChanHandle(pub ChanRef);

impl ChanHandle {
    pub fn new() -> Self {
        Self(Arc::new(Mutex::new(Chan::default())))
    }
    pub fn with<R>(&self, f: impl FnOnce(&mut Chan) -> R) -> R {
        f(&mut self.0.lock().unwrap())
    }
    /// Make bytes readable (and wake the reader).
    pub fn push(&self, bytes: &[u8], fds: Vec<OwnedFd>) {
        if bytes.is_empty() && fds.is_empty() {
            return;
        }
        let w = {
            let mut c = self.0.lock().unwrap();
            c.q.push_back(Chunk {
                bytes: bytes.to_vec(),
                fds: fds.into_iter().map(|f| (0, f)).collect(),
            });
            c.read_waker.take()
        };
        if let Some(w) = w {
            w.wake();
        }
    }
    /// Make bytes readable, with fds attached to given byte offsets of this chunk.
    pub fn push_with_fds(&self, bytes: &[u8], fds: Vec<(usize, OwnedFd)>) {
        if bytes.is_empty() {
            return;
        }
        let w = {
            let mut c = self.0.lock().unwrap();
            c.q.push_back(Chunk {
                bytes: bytes.to_vec(),
                fds,
            });
            c.read_waker.take()
        };
        if let Some(w) = w {
            w.wake();
        }
    }
    /// Push a byte stream in the given chunk sizes.
    pub fn push_chunks(&self, bytes: &[u8], sizes: &[usize]) {
        let mut pos = 0;
        for s in sizes {
            self.push(&bytes[pos..pos + s], vec![]);
            pos += s;
        }
    }
    pub fn set_eof(&self) {
        let w = {
            let mut c = self.0.lock().unwrap();
            c.eof = true;
            c.read_waker.take()
        };
        if let Some(w) = w {
            w.wake();
        }
    }
    pub fn set_read_err(&self, k: io::ErrorKind) {
        let w = {
            let mut c = self.0.lock().unwrap();
            c.read_err = Some(k);
            c.read_waker.take()
        };
        if let Some(w) = w {
            w.wake();
        }
    }
    /// Release one held chunk to the reader (manual_release mode). Returns false if none.
    pub fn release_one(&self) -> bool {
        let (ok, w) = {
            let mut c = self.0.lock().unwrap();
            match c.held.pop_front() {
                Some(ch) => {
                    c.q.push_back(ch);
                    (true, c.read_waker.take())
                }
                None => (false, None),
            }
        };
        if let Some(w) = w {
            w.wake();
        }
        ok
    }
    pub fn held_len(&self) -> usize {
        self.0.lock().unwrap().held.len()
    }
    pub fn written(&self) -> Vec<u8> {
        self.0.lock().unwrap().written.clone()
    }
    pub fn written_len(&self) -> usize {
        self.0.lock().unwrap().written.len()
    }
    pub fn closed_or_dropped(&self) -> bool {
        let c = self.0.lock().unwrap();
        c.closed || c.writer_dropped
    }
}

#[derive(Clone, Debug)]
pub struct SockCfg {
    pub can_pass_fd: bool,
    pub uid: Option<u32>,
    pub mechanism: AuthMechanism,
}

impl Default for SockCfg {
    fn default() -> Self {
        Self {
            can_pass_fd: true,
            uid: Some(1000),
            mechanism: AuthMechanism::External,
        }
    }
}

/// One end of a duplex socket: reads from `rx`, writes into `tx`.
#[derive(Debug)]
pub struct Sock {
    pub rx: ChanRef,
    pub tx: ChanRef,
    pub cfg: SockCfg,
}

#[derive(Debug)]
pub struct R {
    rx: ChanRef,
    cfg: SockCfg,
}
#[derive(Debug)]
pub struct W {
    tx: ChanRef,
    cfg: SockCfg,
}

impl Socket for Sock {
    type ReadHalf = R;
    type WriteHalf = W;
    fn split(self) -> Split<R, W> {
        Split::new(
            R {
                rx: self.rx,
                cfg: self.cfg.clone(),
            },
            W {
                tx: self.tx,
                cfg: self.cfg,
            },
        )
    }
}

impl Drop for R {
    fn drop(&mut self) {
        self.rx.lock().unwrap().reader_dropped = true;
    }
}
impl Drop for W {
    fn drop(&mut self) {
        let w = {
            let mut c = self.tx.lock().unwrap();
            c.writer_dropped = true;
            c.read_waker.take()
        };
        if let Some(w) = w {
            w.wake();
        }
    }
}

struct RecvFut<'a> {
    rx: &'a ChanRef,
    buf: &'a mut [u8],
}

impl Future for RecvFut<'_> {
    type Output = io::Result<(usize, Vec<OwnedFd>)>;
    fn poll(self: Pin<&mut Self>, cx: &mut Context<'_>) -> Poll<Self::Output> {
        let this = self.get_mut();
        let mut c = this.rx.lock().unwrap();
        c.recv_calls += 1;
        if let Some(mut chunk) = c.q.pop_front() {
            let avail = chunk.bytes.len().min(this.buf.len());
            let n = match c.read_mode {
                ReadMode::All => avail,
                ReadMode::Choice => {
                    let mut opts = vec![avail];
                    if avail > 1 {
                        opts.push(1);
                    }
                    if avail / 2 > 1 {
                        opts.push(avail / 2);
                    }
                    drop(c);
                    let k = choose(opts.len(), "read-size");
                    c = this.rx.lock().unwrap();
                    opts[k]
                }
            };
            this.buf[..n].copy_from_slice(&chunk.bytes[..n]);
            let mut fds = vec![];
            let mut rest = vec![];
            for (off, fd) in std::mem::take(&mut chunk.fds) {
                if off < n {
                    fds.push(fd);
                } else {
                    rest.push((off - n, fd));
                }
            }
            chunk.fds = rest;
            if n < chunk.bytes.len() {
                chunk.bytes.drain(..n);
                c.q.push_front(chunk);
            }
            c.recv_bytes += n;
            return Poll::Ready(Ok((n, fds)));
        }
        if let Some(k) = c.read_err {
            return Poll::Ready(Err(io::Error::new(k, "injected read error")));
        }
        if c.eof || c.writer_dropped || c.closed {
            return Poll::Ready(Ok((0, vec![])));
        }
        c.read_waker = Some(cx.waker().clone());
        Poll::Pending
    }
}

#[async_trait::async_trait]
impl ReadHalf for R {
    async fn recvmsg(&mut self, buf: &mut [u8]) -> io::Result<(usize, Vec<OwnedFd>)> {
        RecvFut { rx: &self.rx, buf }.await
    }
    fn can_pass_unix_fd(&self) -> bool {
        self.cfg.can_pass_fd
    }
    async fn peer_credentials(&mut self) -> io::Result<ConnectionCredentials> {
        let mut c = ConnectionCredentials::default();
        if let Some(uid) = self.cfg.uid {
            c = c.set_unix_user_id(uid);
        }
        Ok(c)
    }
    fn auth_mechanism(&self) -> AuthMechanism {
        self.cfg.mechanism
    }
}

struct SendFut<'a> {
    tx: &'a ChanRef,
    buf: &'a [u8],
    fds: Vec<OwnedFd>,
    /// `WriteMode::YieldAfter`: the write already happened, completion is reported on this poll.
    done: Option<usize>,
}

impl Future for SendFut<'_> {
    type Output = io::Result<usize>;
    fn poll(self: Pin<&mut Self>, cx: &mut Context<'_>) -> Poll<Self::Output> {
        let this = self.get_mut();
        if let Some(n) = this.done.take() {
            return Poll::Ready(Ok(n));
        }
        let mut c = this.tx.lock().unwrap();
        let call = c.send_calls;
        c.send_calls += 1;
        if let Some(k) = c.write_broken {
            return Poll::Ready(Err(io::Error::new(k, "injected write error")));
        }
        if let Some((n, k)) = c.write_fault {
            if n == call {
                c.write_broken = Some(k);
                return Poll::Ready(Err(io::Error::new(k, "injected write error")));
            }
        }
        if c.reader_dropped || c.closed {
            return Poll::Ready(Err(io::Error::new(
                io::ErrorKind::BrokenPipe,
                "peer closed",
            )));
        }
        let len = this.buf.len();
        let n = match c.write_mode.clone() {
            WriteMode::All | WriteMode::YieldAfter => len,
            WriteMode::AtMost(m) => len.min(m.max(1)),
            WriteMode::Choice { pending_budget } => {
                // options: all, 1, half, pending
                let mut opts: Vec<Option<usize>> = vec![Some(len)];
                if len > 1 {
                    opts.push(Some(1));
                }
                if len / 2 > 1 {
                    opts.push(Some(len / 2));
                }
                if c.pending_used < pending_budget {
                    opts.push(None);
                }
                drop(c);
                let k = choose(opts.len(), "write-size");
                c = this.tx.lock().unwrap();
                match opts[k] {
                    Some(n) => n,
                    None => {
                        c.pending_used += 1;
                        // not counted as a call that accepted anything
                        cx.waker().wake_by_ref();
                        return Poll::Pending;
                    }
                }
            }
        };
        let off = c.written.len();
        c.written.extend_from_slice(&this.buf[..n]);
        c.write_sizes.push(n);
        let fds = std::mem::take(&mut this.fds);
        for fd in &fds {
            let ino = inode_of(fd);
            c.written_fds.push((off, ino));
        }
        let chunk = Chunk {
            bytes: this.buf[..n].to_vec(),
            fds: fds.into_iter().map(|f| (0, f)).collect(),
        };
        let w = if c.manual_release {
            c.held.push_back(chunk);
            None
        } else {
            c.q.push_back(chunk);
            c.read_waker.take()
        };
        let yield_after = c.write_mode == WriteMode::YieldAfter || c.yield_after_write;
        drop(c);
        if let Some(w) = w {
            w.wake();
        }
        if yield_after {
            this.done = Some(n);
            cx.waker().wake_by_ref();
            return Poll::Pending;
        }
        Poll::Ready(Ok(n))
    }
}

#[async_trait::async_trait]
impl WriteHalf for W {
    async fn sendmsg(&mut self, buf: &[u8], fds: &[BorrowedFd<'_>]) -> io::Result<usize> {
        let owned: Vec<OwnedFd> = fds
            .iter()
            .map(|f| f.try_clone_to_owned().expect("dup fd"))
            .collect();
        SendFut {
            tx: &self.tx,
            buf,
            fds: owned,
            done: None,
        }
        .await
    }
    async fn close(&mut self) -> io::Result<()> {
        let w = {
            let mut c = self.tx.lock().unwrap();
            c.closed = true;
            c.read_waker.take()
        };
        if let Some(w) = w {
            w.wake();
        }
        Ok(())
    }
    fn can_pass_unix_fd(&self) -> bool {
        self.cfg.can_pass_fd
    }
    async fn peer_credentials(&mut self) -> io::Result<ConnectionCredentials> {
        let mut c = ConnectionCredentials::default();
        if let Some(uid) = self.cfg.uid {
            c = c.set_unix_user_id(uid);
        }
        Ok(c)
    }
}

/// A duplex link: `a` and `b` are the two ends. `a2b` carries what `a` writes.
pub struct Link {
    pub a2b: ChanHandle,
    pub b2a: ChanHandle,
}

impl Link {
    pub fn new() -> Self {
        Self {
            a2b: ChanHandle::new(),
            b2a: ChanHandle::new(),
        }
    }
    pub fn end_a(&self, cfg: SockCfg) -> Sock {
        Sock {
            rx: self.b2a.0.clone(),
            tx: self.a2b.0.clone(),
            cfg,
        }
    }
    pub fn end_b(&self, cfg: SockCfg) -> Sock {
        Sock {
            rx: self.a2b.0.clone(),
            tx: self.b2a.0.clone(),
            cfg,
        }
    }
}

// ---------------------------------------------------------------------------------------------
// World
// ---------------------------------------------------------------------------------------------

pub const GUID: &str = "0123456789abcdef0123456789abcdef";

/// Result slot of a root task.
pub struct Handle<T> {
    pub id: usize,
    slot: Arc<Mutex<Option<T>>>,
    task: Option<async_task::Task<()>>,
}

impl<T> Handle<T> {
    pub fn is_done(&self) -> bool {
        self.slot.lock().unwrap().is_some()
    }
    pub fn take(&self) -> Option<T> {
        self.slot.lock().unwrap().take()
    }
    pub fn with<R>(&self, f: impl FnOnce(Option<&T>) -> R) -> R {
        f(self.slot.lock().unwrap().as_ref())
    }
    /// Cancel the root task (drops its future the next time the pool runs it).
    pub fn cancel(&mut self) {
        self.task.take();
    }
}

impl<T> Drop for Handle<T> {
    fn drop(&mut self) {
        // Cancel rather than detach: a detached root task that is parked forever would keep its
        // future (and through it connections, proxies, ...) alive in a reference cycle with the
        // wakers it registered. Cancelling schedules the runnable once more; running or dropping
        // it (World::drop drains the pool) drops the future.
        self.task.take();
    }
}

pub enum Step {
    /// A task was polled.
    Ran(usize),
    /// The explorer picked environment event `k` (index into the scenario's current menu).
    Env(usize),
    /// Nothing is enabled.
    Quiescent,
    /// The step horizon was reached.
    Horizon,
}

pub struct World {
    pub pool: Arc<Pool>,
    next_root: usize,
    last_ran: Option<usize>,
    pub steps: usize,
    pub horizon: usize,
    pub log: Vec<String>,
    pub trace: Vec<String>,
    pub hit_horizon: bool,
}

impl World {
    pub fn new() -> Self {
        let pool = Arc::new(Pool::default());
        verif::install_spawn_seam(Some(pool.clone()));
        verif::use_private_serial(true);
        verif::SERIAL_NUM.set(0);
        verif::install_virtual_clock(true);
        verif::set_fanout_rotation(0);
        Self {
            pool,
            next_root: 0,
            last_ran: None,
            steps: 0,
            horizon: 400,
            log: vec![],
            trace: vec![],
            hit_horizon: false,
        }
    }

    /// Spawn a harness root future into the pool.
    pub fn spawn<T: Send + 'static>(
        &mut self,
        name: &str,
        fut: impl Future<Output = T> + Send + 'static,
    ) -> Handle<T> {
        let slot = Arc::new(Mutex::new(None));
        let s2 = slot.clone();
        let task = verif::spawn_root(
            async move {
                let v = fut.await;
                *s2.lock().unwrap() = Some(v);
            },
            name,
        );
        self.next_root += 1;
        Handle {
            id: self.next_root - 1,
            slot,
            task: Some(task),
        }
    }

    pub fn obs(&mut self, s: impl Into<String>) {
        self.log.push(s.into());
    }

    pub fn enabled(&self) -> Vec<usize> {
        self.pool.runnable.lock().unwrap().keys().cloned().collect()
    }

    pub fn task_name(&self, id: usize) -> String {
        self.pool
            .names
            .lock()
            .unwrap()
            .get(&id)
            .cloned()
            .unwrap_or_default()
    }

    pub fn run_task(&mut self, id: usize) {
        let r = self.pool.runnable.lock().unwrap().remove(&id);
        if let Some(r) = r {
            self.trace.push(format!("run {}:{}", id, self.task_name(id)));
            self.last_ran = Some(id);
            r.run();
        }
    }

    /// One scheduling step. `n_env` is the number of environment events currently enabled.
    /// Canonical order: the task that just ran (if still enabled), other tasks by ascending id,
    /// then environment events in menu order. Choice 0 is the default.
    pub fn step(&mut self, n_env: usize) -> Step {
        if self.steps >= self.horizon {
            self.hit_horizon = true;
            return Step::Horizon;
        }
        let mut ids = self.enabled();
        if let Some(l) = self.last_ran {
            if let Some(pos) = ids.iter().position(|x| *x == l) {
                ids.remove(pos);
                ids.insert(0, l);
            }
        }
        let n = ids.len() + n_env;
        if n == 0 {
            return Step::Quiescent;
        }
        self.steps += 1;
        let c = choose(n, "sched");
        if c < ids.len() {
            self.run_task(ids[c]);
            Step::Ran(ids[c])
        } else {
            let k = c - ids.len();
            self.trace.push(format!("env {k}"));
            Step::Env(k)
        }
    }

    /// Run tasks (no environment events) until nothing is enabled, with scheduling choices.
    pub fn run_to_quiescence(&mut self) {
        loop {
            match self.step(0) {
                Step::Ran(_) => {}
                _ => break,
            }
        }
    }

    /// Run tasks in default order without creating choice points (for setup phases that are not
    /// part of the explored space).
    pub fn settle(&mut self) {
        let mut guard = 0;
        loop {
            let ids = self.enabled();
            let Some(id) = ids.first().cloned() else { break };
            self.run_task(id);
            guard += 1;
            if guard > 10_000 {
                self.hit_horizon = true;
                break;
            }
        }
        self.last_ran = None;
    }
}

impl World {
    /// Run `fut` as a root task to completion on the default schedule (no choice points), letting
    /// every other task run too, until nothing is enabled. `None` = it did not complete (it is
    /// blocked on something that will never happen: a deadlock or a lost wake-up).
    pub fn complete<T: Send + 'static>(
        &mut self,
        name: &str,
        fut: impl Future<Output = T> + Send + 'static,
    ) -> Option<T> {
        let h = self.spawn(name, fut);
        self.settle();
        h.take()
    }

    /// Same, but every scheduling decision is a choice point of the explorer.
    pub fn complete_explored<T: Send + 'static>(
        &mut self,
        name: &str,
        fut: impl Future<Output = T> + Send + 'static,
    ) -> Option<T> {
        let h = self.spawn(name, fut);
        self.run_to_quiescence();
        h.take()
    }

    /// Two real zbus connections joined by an in-memory link, both pre-authenticated (no SASL),
    /// peer-to-peer, no internal executor thread. Returns (client, server, link); the client is
    /// end `a` of the link.
    pub fn p2p_pair(&mut self) -> (zbus::Connection, zbus::Connection, Link) {
        let link = Link::new();
        let a = link.end_a(SockCfg::default());
        let b = link.end_b(SockCfg::default());
        let ha = self.spawn("build-client", async move {
            zbus::connection::Builder::authenticated_socket(a, GUID)
                .unwrap()
                .p2p()
                .internal_executor(false)
                .build()
                .await
        });
        let hb = self.spawn("build-server", async move {
            zbus::connection::Builder::authenticated_socket(b, GUID)
                .unwrap()
                .p2p()
                .internal_executor(false)
                .build()
                .await
        });
        self.settle();
        let c = ha.take().expect("client build did not complete").expect("client build");
        let s = hb.take().expect("server build did not complete").expect("server build");
        (c, s, link)
    }
}

impl Drop for World {
    fn drop(&mut self) {
        // Drain the pool: dropping a Runnable cancels its task and drops the future, which may
        // schedule further runnables; never drop while holding the lock.
        for _ in 0..100_000 {
            let r = {
                let mut g = self.pool.runnable.lock().unwrap();
                let k = g.keys().next().cloned();
                k.and_then(|k| g.remove(&k))
            };
            match r {
                Some(r) => drop(r),
                None => break,
            }
        }
        verif::install_spawn_seam(None);
        verif::install_virtual_clock(false);
    }
}

/// Parse a byte stream into whole D-Bus messages (little or big endian); returns the messages'
/// byte ranges and the number of trailing bytes that do not form a complete message.
pub fn split_messages(bytes: &[u8]) -> (Vec<std::ops::Range<usize>>, usize) {
    let mut out = vec![];
    let mut pos = 0;
    while pos + 16 <= bytes.len() {
        let le = bytes[pos] == b'l';
        let rd = |o: usize| {
            let b: [u8; 4] = bytes[pos + o..pos + o + 4].try_into().unwrap();
            if le {
                u32::from_le_bytes(b)
            } else {
                u32::from_be_bytes(b)
            }
        };
        let body_len = rd(4) as usize;
        let fields_len = rd(12) as usize;
        let hdr = 16 + fields_len;
        let total = hdr + ((8 - hdr % 8) % 8) + body_len;
        if pos + total > bytes.len() {
            break;
        }
        out.push(pos..pos + total);
        pos += total;
    }
    (out, bytes.len() - pos)
}

/// Parse bytes (one whole message) with zbus.
pub fn parse_message(bytes: &[u8]) -> zbus::Result<zbus::Message> {
    use zbus::zvariant::{serialized::{Context, Data}, Endian};
    let endian = if bytes.first() == Some(&b'B') {
        Endian::Big
    } else {
        Endian::Little
    };
    let ctxt = Context::new_dbus(endian, 0);
    unsafe { zbus::Message::from_bytes(Data::new(bytes.to_vec(), ctxt)) }
}
