//! C13 — not built yet.
use vcommon::Args;

pub fn main(_args: &Args) -> i32 {
    vcommon::machinery_failure("C13: check not built yet")
}
