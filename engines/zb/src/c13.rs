//! C13 — valid messages with unknown header fields, flags or types are tolerated.
//!
//! Space: reference-built (refmsg) valid messages that differ from a normal message only by
//!   * one header field with an unknown code (10..=255) carrying each of 7 variant payload types,
//!     placed first or last in the field array,
//!   * unknown flag bits (each of 0x08..0x80 alone, and all together), with and without the known
//!     flags,
//!   * an unknown message type code (5..=255),
//!   over base messages (call with body, signal, reply) and both byte orders. Field code 0 and
//!   type 0 are INVALID in the message format (not "unknown"), they are observed but not judged.
//!
//! Every such message X is
//!   (a) parsed with `Message::from_bytes`,
//!   (b) put between normal messages N1, N2 in the inbound byte stream of a real p2p connection
//!       (scripted socket, default schedule) that has a `MessageStream`; afterwards N3 is pushed.
//!
//! Oracle (what the statement says):
//!   unknown-field-ignored  from_bytes(X) is Ok and reads like the base message; the stream
//!                          delivers N1, X, N2, N3
//!   unknown-flag-ignored   the same for flag bits (known bits retained)
//!   unknown-type-skipped   the stream delivers N1, N2, N3, X is not delivered and no error item
//!                          appears (nothing is demanded from from_bytes for an unknown type)

use std::sync::{Arc, Mutex};

use futures_lite::StreamExt;
use serde_json::json;
use vcommon::{catch, hash64, hex, par_for, unhex, Args, Report, Tier, Violation};
use zbus::{connection::Builder, Message, MessageStream};

use crate::{
    refmsg::{self as rm, o, s, var, MsgSpec, Ty, RV},
    world::{parse_message, Link, SockCfg, World, GUID},
};

// ---------------------------------------------------------------------------------------------
// cases
// ---------------------------------------------------------------------------------------------

#[derive(Clone, Debug, PartialEq, Eq, Hash)]
pub enum Unknown {
    Field { code: u8, payload: usize, first: bool },
    Flags { bits: u8 },
    Type { code: u8 },
    /// control: the base message itself (nothing unknown); must be delivered
    Nothing,
}

#[derive(Clone, Debug, PartialEq, Eq, Hash)]
pub struct Case {
    pub base: usize,
    pub be: bool,
    pub unknown: Unknown,
}

pub fn payloads() -> Vec<RV> {
    vec![
        RV::Y(1),
        RV::U(7),
        s("x"),
        RV::Array(Ty::Y, vec![RV::Y(1), RV::Y(2)]),
        RV::Struct(vec![s("a"), RV::U(1)]),
        var(RV::T(1)),
        o("/c"),
    ]
}

const X_SERIAL: u32 = 777;

pub fn base_spec(base: usize, be: bool) -> MsgSpec {
    let mut m = match base {
        0 => {
            let mut m = MsgSpec::new(rm::METHOD_CALL, X_SERIAL)
                .field(rm::PATH, o("/a/b"))
                .field(rm::INTERFACE, s("x.y.I"))
                .field(rm::MEMBER, s("Ping"))
                .field(rm::SENDER, s(":1.7"));
            m.body = vec![s("hello"), RV::U(5)];
            m.flags = 0x2;
            m
        }
        1 => MsgSpec::new(rm::SIGNAL, X_SERIAL)
            .field(rm::PATH, o("/"))
            .field(rm::INTERFACE, s("x.y.I"))
            .field(rm::MEMBER, s("Sig")),
        _ => {
            let mut m = MsgSpec::new(rm::METHOD_RETURN, X_SERIAL)
                .field(rm::REPLY_SERIAL, RV::U(5))
                .field(rm::DESTINATION, s(":1.5"));
            m.body = vec![RV::Y(1), RV::T(2)];
            m
        }
    };
    m.be = be;
    m
}

pub const N_BASES: usize = 3;

pub fn x_spec(c: &Case) -> MsgSpec {
    let mut m = base_spec(c.base, c.be);
    match &c.unknown {
        Unknown::Field { code, payload, first } => {
            let p = payloads()[*payload].clone();
            if *first {
                m.fields.insert(0, (*code, p));
            } else {
                m.fields.push((*code, p));
            }
        }
        Unknown::Flags { bits } => m.flags |= *bits,
        Unknown::Type { code } => m.mtype = *code,
        Unknown::Nothing => {}
    }
    m
}

pub fn enumerate(tier: Tier) -> Vec<Case> {
    let t = tier == Tier::Thorough;
    let mut out = vec![];
    let bases: Vec<usize> = (0..N_BASES).collect();
    for &base in &bases {
        for be in [false, true] {
            out.push(Case { base, be, unknown: Unknown::Nothing });
            for code in std::iter::once(0u8).chain(10..=255) {
                for payload in 0..payloads().len() {
                    for first in [false, true] {
                        if first && !t && base != 0 {
                            continue;
                        }
                        out.push(Case { base, be, unknown: Unknown::Field { code, payload, first } });
                    }
                }
            }
            for unk in [0x08u8, 0x10, 0x20, 0x40, 0x80, 0xf8] {
                for known in [0u8, 0x7] {
                    // the base's own flags are or-ed in by x_spec
                    out.push(Case { base, be, unknown: Unknown::Flags { bits: unk | known } });
                }
            }
            for code in std::iter::once(0u8).chain(5..=255) {
                out.push(Case { base, be, unknown: Unknown::Type { code } });
            }
        }
    }
    out
}

fn normal(serial: u32, member: &str) -> Vec<u8> {
    let mut m = MsgSpec::new(rm::SIGNAL, serial)
        .field(rm::PATH, o("/n"))
        .field(rm::INTERFACE, s("x.y.N"))
        .field(rm::MEMBER, s(member));
    m.body = vec![RV::U(serial)];
    m.encode().0
}

// ---------------------------------------------------------------------------------------------
// observations
// ---------------------------------------------------------------------------------------------

/// What a message reads like through the public accessors (None = from_bytes failed).
#[derive(Debug, Clone, PartialEq)]
pub struct Reading {
    pub mtype: u8,
    pub known_flags: u8,
    pub serial: u32,
    pub fields: Vec<Option<String>>,
    pub reply_serial: Option<u32>,
    pub signature: String,
    pub body: String,
}

fn read_msg(m: &Message) -> Reading {
    let h = m.header();
    let body = m.body();
    let body_s = if matches!(body.signature(), zbus::zvariant::Signature::Unit) {
        String::new()
    } else {
        match body.deserialize::<zbus::zvariant::Structure<'_>>() {
            Ok(st) => format!("{:?}", st.fields()),
            Err(e) => format!("body error: {e}"),
        }
    };
    Reading {
        mtype: h.message_type() as u8,
        known_flags: h.primary().flags().bits() & 0x7,
        serial: h.primary().serial_num().get(),
        fields: vec![
            h.path().map(|x| x.to_string()),
            h.interface().map(|x| x.to_string()),
            h.member().map(|x| x.to_string()),
            h.error_name().map(|x| x.to_string()),
            h.destination().map(|x| x.to_string()),
            h.sender().map(|x| x.to_string()),
        ],
        reply_serial: h.reply_serial().map(|x| x.get()),
        signature: h.signature().to_string(),
        body: body_s,
    }
}

fn normalize_err(e: &str) -> String {
    // digits -> N, runs collapsed
    let mut out = String::new();
    let mut last_n = false;
    for c in e.chars() {
        if c.is_ascii_digit() {
            if !last_n {
                out.push('N');
            }
            last_n = true;
        } else {
            out.push(c);
            last_n = false;
        }
    }
    out
}

/// Name the reason `from_bytes` gave, as a root-cause class.
fn parse_error_class(e: &str) -> String {
    let n = normalize_err(e);
    let list = |k: usize| format!("expected one of: {}", vec!["N"; k].join(", "));
    if n.contains("invalid value: N, ") && n.contains(&list(9)) && !n.contains(&list(10)) {
        // serde_repr refusing a u8 that is not one of the 9 FieldCode discriminants
        "field-code-not-in-enum".into()
    } else if n.contains("invalid value: N, ") && n.contains(&list(4)) && !n.contains(&list(5)) {
        // serde_repr refusing a u8 that is not one of the 4 message Type discriminants
        "type-not-in-enum".into()
    } else if n.contains("expected valid bit representation") {
        // enumflags2 refusing bits outside the Flags enum
        "flag-bits-not-in-enum".into()
    } else {
        format!("other: {n}")
    }
}

#[derive(Debug, Clone, PartialEq)]
pub enum Item {
    Msg { serial: u32, mtype: u8 },
    Err(String),
    End,
}

#[derive(Debug, Clone)]
pub struct StreamObs {
    pub items: Vec<Item>,
    pub reader_gone: bool,
    pub send_ok: bool,
    pub horizon: bool,
}

/// N1, X, N2 in one inbound chunk of a real connection with a MessageStream; then N3.
pub fn run_stream(x: &[u8]) -> StreamObs {
    let mut w = World::new();
    let link = Link::new();
    let sock = link.end_a(SockCfg::default());
    let conn = w
        .complete("build", async move {
            Builder::authenticated_socket(sock, GUID)
                .unwrap()
                .p2p()
                .internal_executor(false)
                .build()
                .await
        })
        .expect("connection build did not complete")
        .expect("connection build");
    let mut stream = MessageStream::from(&conn);
    let items: Arc<Mutex<Vec<Item>>> = Arc::new(Mutex::new(vec![]));
    let items2 = items.clone();
    let _consumer = w.spawn("consumer", async move {
        loop {
            match stream.next().await {
                Some(Ok(m)) => {
                    let it = Item::Msg {
                        serial: m.primary_header().serial_num().get(),
                        mtype: m.message_type() as u8,
                    };
                    items2.lock().unwrap().push(it);
                }
                Some(Err(e)) => items2.lock().unwrap().push(Item::Err(format!("{e:?}"))),
                None => {
                    items2.lock().unwrap().push(Item::End);
                    break;
                }
            }
        }
    });
    w.settle();
    let mut inbound = normal(101, "N1");
    inbound.extend_from_slice(x);
    inbound.extend_from_slice(&normal(102, "N2"));
    link.b2a.push(&inbound, vec![]);
    w.settle();
    link.b2a.push(&normal(103, "N3"), vec![]);
    w.settle();
    // the sending side (observed, not judged)
    let out = Message::signal("/o", "x.y.O", "Out").unwrap().build(&()).unwrap();
    let conn2 = conn.clone();
    let send_ok = matches!(w.complete("send", async move { conn2.send(&out).await }), Some(Ok(())));
    let reader_gone = link.b2a.with(|c| c.reader_dropped);
    let obs = StreamObs {
        items: items.lock().unwrap().clone(),
        reader_gone,
        send_ok,
        horizon: w.hit_horizon,
    };
    drop(conn);
    obs
}

// ---------------------------------------------------------------------------------------------
// oracle
// ---------------------------------------------------------------------------------------------

pub struct Verdict {
    pub outcome: String,
    pub violations: Vec<Violation>,
    pub x: Vec<u8>,
}

fn unknown_kind(u: &Unknown) -> &'static str {
    match u {
        Unknown::Field { .. } => "field",
        Unknown::Flags { .. } => "flag",
        Unknown::Type { .. } => "type",
        Unknown::Nothing => "control",
    }
}

fn describe(c: &Case) -> String {
    let b = ["call", "signal", "return"][c.base];
    let e = if c.be { "BE" } else { "LE" };
    match &c.unknown {
        Unknown::Field { code, payload, first } => format!(
            "{b} {e} + header field code {code} = variant {} ({})",
            payloads()[*payload].ty().sig(),
            if *first { "first" } else { "last" }
        ),
        Unknown::Flags { bits } => format!("{b} {e} + flag bits {bits:#04x}"),
        Unknown::Type { code } => format!("{b} {e} with message type {code}"),
        Unknown::Nothing => format!("{b} {e} unchanged (control)"),
    }
}

fn case_json(c: &Case) -> serde_json::Value {
    let u = match &c.unknown {
        Unknown::Field { code, payload, first } => json!({"field": {"code": code, "payload": payload, "first": first}}),
        Unknown::Flags { bits } => json!({"flags": bits}),
        Unknown::Type { code } => json!({"type": code}),
        Unknown::Nothing => json!("nothing"),
    };
    json!({"base": c.base, "be": c.be, "unknown": u})
}

fn case_from_json(v: &serde_json::Value) -> Option<Case> {
    let u = &v["unknown"];
    let unknown = if let Some(f) = u.get("field") {
        Unknown::Field {
            code: f["code"].as_u64()? as u8,
            payload: f["payload"].as_u64()? as usize,
            first: f["first"].as_bool()?,
        }
    } else if let Some(b) = u.get("flags") {
        Unknown::Flags { bits: b.as_u64()? as u8 }
    } else if let Some(t) = u.get("type") {
        Unknown::Type { code: t.as_u64()? as u8 }
    } else {
        Unknown::Nothing
    };
    Some(Case { base: v["base"].as_u64()? as usize, be: v["be"].as_bool()?, unknown })
}

pub fn check_case(c: &Case) -> Verdict {
    let spec = x_spec(c);
    let (x, _) = spec.encode();
    let (base_bytes, _) = base_spec(c.base, c.be).encode();
    let kind = unknown_kind(&c.unknown);
    // INVALID (0) codes are not "unknown": observed only
    let judged = !matches!(c.unknown, Unknown::Field { code: 0, .. } | Unknown::Type { code: 0 });
    let replay = json!({"x": hex(&x), "kind": kind, "what": describe(c), "judged": judged, "case": case_json(c)});
    let mut vs = vec![];

    // the harness's own messages must be valid under the reference parser
    if let Err(e) = rm::parse_header(&x) {
        vcommon::machinery_failure(&format!("C13: reference-built message is not valid: {e}"));
    }

    // ---- (a) from_bytes
    let parsed = catch(|| parse_message(&x).map(|m| read_msg(&m)).map_err(|e| format!("{e:?}")));
    let base_reading = catch(|| parse_message(&base_bytes).map(|m| read_msg(&m)).map_err(|e| format!("{e:?}")));
    let base_reading = match base_reading {
        Ok(Ok(r)) => r,
        other => vcommon::machinery_failure(&format!("C13: the base message does not parse: {other:?}")),
    };
    let parse_class = match &parsed {
        Ok(Ok(_)) => "none".to_string(),
        Ok(Err(e)) => parse_error_class(e),
        Err(p) => format!("panic: {}", normalize_err(p)),
    };
    let clause = match kind {
        "field" => "unknown-field-ignored",
        "flag" => "unknown-flag-ignored",
        "type" => "unknown-type-skipped",
        _ => "control-message-delivered",
    };
    let mk = |level: &str, explained: bool, detail: String| {
        Violation::new(clause, format!("{}: {detail}", describe(c)), replay.clone())
            .feat("unknown", kind)
            .feat("level", level)
            .feat("parse_error", &parse_class)
            .feat("explained_by_parse_error", explained)
    };
    let mut parse_outcome = "parse-ok";
    match (&parsed, kind) {
        (Ok(Ok(r)), "field") | (Ok(Ok(r)), "flag") | (Ok(Ok(r)), "control") => {
            let mut want = base_reading.clone();
            if let Unknown::Flags { bits } = c.unknown {
                want.known_flags = (base_spec(c.base, c.be).flags | bits) & 0x7;
            }
            if *r != want && judged {
                vs.push(mk("parse", false, format!("from_bytes reads {r:?}, the message without the unknown part reads {want:?}")));
            }
        }
        (Ok(Ok(_)), _) => {}
        (Ok(Err(_)), "type") => parse_outcome = "parse-rejected(type: not judged)",
        (Ok(Err(e)), _) => {
            parse_outcome = "parse-rejected";
            if judged {
                vs.push(mk("parse", true, format!("Message::from_bytes fails: {e}")));
            }
        }
        (Err(p), _) => {
            parse_outcome = "parse-panicked";
            if judged {
                vs.push(mk("parse", false, format!("Message::from_bytes panicked: {p}")));
            }
        }
    }

    // ---- (b) in a stream
    let so = match catch(|| run_stream(&x)) {
        Ok(s) => s,
        Err(p) => {
            if judged {
                vs.push(mk("stream", false, format!("the connection scenario panicked: {p} at {}", vcommon::last_panic_location())));
            }
            return Verdict { outcome: format!("{kind}: {parse_outcome}, stream-panicked"), violations: vs, x };
        }
    };
    if so.horizon {
        vcommon::machinery_failure("C13: a stream scenario did not settle");
    }
    let delivered = |sn: u32| so.items.iter().any(|i| matches!(i, Item::Msg { serial, .. } if *serial == sn));
    let n_errors = so.items.iter().filter(|i| matches!(i, Item::Err(_))).count();
    let ended = so.items.contains(&Item::End);
    let want_x = kind != "type";
    let good = delivered(101)
        && delivered(102)
        && delivered(103)
        && delivered(X_SERIAL) == want_x
        && n_errors == 0
        && !ended;
    let stream_outcome = if good {
        "stream-continues"
    } else if ended {
        "stream-ended"
    } else {
        "stream-anomalous"
    };
    if !good && judged {
        // Is this exactly what rejecting X at parse time predicts? (N1 delivered, then that very
        // error as an item, then the stream ends because the reader task stops.)
        let predicted = parse_class != "none"
            && so.items.len() == 3
            && so.items[0] == (Item::Msg { serial: 101, mtype: rm::SIGNAL })
            && matches!(&so.items[1], Item::Err(e) if parse_error_class(e) == parse_class)
            && so.items[2] == Item::End;
        vs.push(mk(
            "stream",
            predicted,
            format!(
                "stream of a connection fed N1(101), X({X_SERIAL}), N2(102), then N3(103) yielded {:?}; reader task gone={} send still works={}",
                so.items, so.reader_gone, so.send_ok
            ),
        ));
    }
    let outcome = if judged {
        format!("{kind}: {parse_outcome}, {stream_outcome}")
    } else {
        format!("invalid-code-0 {kind} (not judged): {parse_outcome}, {stream_outcome}")
    };
    Verdict { outcome, violations: vs, x }
}

// ---------------------------------------------------------------------------------------------
// main / replay
// ---------------------------------------------------------------------------------------------

fn replay(path: &str) -> i32 {
    let v = vcommon::load_replay(path);
    let r = &v["replay"];
    let x = unhex(r["x"].as_str().unwrap_or(""));
    println!("what: {}", r["what"]);
    println!("X = {}", hex(&x));
    match rm::parse_header(&x) {
        Ok(ph) => {
            println!(
                "reference parse: valid; type={} flags={:#04x} serial={} body_len={}",
                ph.mtype, ph.flags, ph.serial, ph.body_len
            );
            for (c, v) in &ph.fields {
                println!("  field {} ({}) = {}:{}", c, rm::field_name(*c), v.ty().sig(), v.show());
            }
        }
        Err(e) => println!("reference parse: INVALID ({e})"),
    }
    match catch(|| parse_message(&x).map(|m| read_msg(&m)).map_err(|e| format!("{e:?}"))) {
        Ok(Ok(r)) => println!("Message::from_bytes: Ok, reads {r:?}"),
        Ok(Err(e)) => println!("Message::from_bytes: Err({e}) [class {}]", parse_error_class(&e)),
        Err(p) => println!("Message::from_bytes: PANIC {p}"),
    }
    match catch(|| run_stream(&x)) {
        Ok(so) => println!(
            "stream fed N1(101), X({X_SERIAL}), N2(102), then N3(103): items={:?} reader_gone={} send_ok={}",
            so.items, so.reader_gone, so.send_ok
        ),
        Err(p) => println!("stream scenario: PANIC {p}"),
    }
    let Some(case) = case_from_json(&r["case"]) else {
        vcommon::machinery_failure("C13 replay: the artefact has no case description");
    };
    let verdict = check_case(&case);
    println!("outcome: {}", verdict.outcome);
    for v in &verdict.violations {
        println!("violation: clause={} features={:?} {}", v.clause, v.features, v.detail);
    }
    if verdict.violations.is_empty() {
        println!("no violation on this case");
        0
    } else {
        1
    }
}

pub fn main(args: &Args) -> i32 {
    if let Some(p) = &args.replay {
        return replay(p);
    }
    let report = Report::new("C13", args.tier, args.seed, "exploration");
    let cases = enumerate(args.tier);
    report.set("cases_enumerated", json!(cases.len()));
    let n = cases.len();
    let sample_every = (n / 10).max(1);
    par_for(n, 16, |i| {
        let c = &cases[i];
        let v = check_case(c);
        report.eval(1);
        report.outcome(&v.outcome);
        report.nontrivial(hash64(&v.x));
        if i % sample_every == 0 {
            report.sample(json!({"what": describe(c), "x": hex(&v.x), "outcome": v.outcome}));
        }
        for x in v.violations {
            report.violation(x);
        }
    });
    // ---- audit of the oracle's premise against libdbus: every judged X is a valid message that the
    // reference implementation accepts, reading the known parts unchanged (never decides the property)
    match rm::LibDbus::load() {
        None => report.note("libdbus could not be loaded: the audit was skipped"),
        Some(lib) => {
            let (mut agreed, mut invalid_rejected, mut invalid_accepted, mut masked) = (0u64, 0u64, 0u64, 0u64);
            for c in &cases {
                let spec = x_spec(c);
                // libdbus >= 1.13 knows code 10 (CONTAINER_INSTANCE, object path), which is in no
                // released version of the message format this library targets; it refuses other
                // value types for it.
                if let Unknown::Field { code: 10, payload, .. } = c.unknown {
                    if payloads()[payload].ty() != Ty::O {
                        masked += 1;
                        continue;
                    }
                }
                let invalid0 = matches!(c.unknown, Unknown::Field { code: 0, .. } | Unknown::Type { code: 0 });
                match rm::audit_with_libdbus(&lib, &spec) {
                    Ok(_) if invalid0 => invalid_accepted += 1,
                    Ok(_) => agreed += 1,
                    Err(_) if invalid0 => invalid_rejected += 1,
                    Err(e) => vcommon::machinery_failure(&format!("C13: audit failed for {}: {e}", describe(c))),
                }
            }
            report.set(
                "reference_model_audit",
                json!({"against": "libdbus dbus_message_demarshal + header getters",
                       "unknown_messages_accepted_and_read_like_the_base": agreed,
                       "invalid_code_0_rejected_by_libdbus": invalid_rejected,
                       "invalid_code_0_accepted_by_libdbus": invalid_accepted,
                       "masked": masked,
                       "mask": "field code 10 with a value that is not an object path (libdbus 1.14 treats 10 as CONTAINER_INSTANCE:o)"}),
            );
        }
    }
    report.assume("the reference message layout in refmsg.rs is correct (every X is valid under the reference parser and is accepted by libdbus, which reads the known parts unchanged; see reference_model_audit)");
    report.assume("field code 0 and message type 0 are INVALID per the message format, not unknown; they are enumerated and observed but not judged");
    report.assume("the stream scenario runs on the default schedule (task interleavings are not part of this property)");
    report.finish(
        "every unknown field code x 7 payload types x positions, unknown flag-bit sets, every unknown type code, over 3 base messages x 2 byte orders; each parsed with from_bytes and fed to a real connection between normal messages. Non-trivial = distinct message bytes",
        true,
    )
}
