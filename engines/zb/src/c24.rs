//! C24 — the object server exposes exactly the registered interfaces.
//!
//! Explicit-state search over operation histories, every transition executed on the real
//! `ObjectServer` of a real p2p connection pair: ops {at(p, I), remove::<I>(p), lookup} over paths
//! {/, /a, /a/b, /c} x interfaces {I1, I2}. Quick: the FULL history tree (no state merging) to
//! depth 4. Thorough: full tree to depth 5, then breadth-first search with merging by canonical
//! observation until no new state appears. A second path universe {/, /a, /a/b/d, /a/bc}
//! (object with a grandchild below an unregistered intermediate node, three levels, prefix-named sibling) gets its own full tree to
//! depth 5 (quick: one interface).
//!
//! The oracle is transition-local: the registry is probed before and after the last operation of
//! every history (lookup through `ObjectServer::interface`, a method call and a property read over
//! the wire, `Introspect` of every path), and the post-state must be what the boring set model makes
//! of the *observed* pre-state. All histories start from the (checked) empty registry and every
//! prefix is itself an enumerated history, so "every transition is right" is the statement's
//! "the visible set equals what the history implies" by induction, while one defective transition
//! does not cascade into every history that extends it.

use std::collections::{BTreeMap, BTreeSet, HashSet};
use std::sync::Mutex;

use serde_json::json;
use vcommon::{enumerate, hash64, Args, Report, Violation};

use crate::osrv::{
    self, do_op, history_from_json, history_json, probe, relation, show_history, Obs, Op, OpRet, Pair, Ran,
    Sys, IFACES, PATHS,
};

pub(crate) fn alphabet() -> Vec<Op> {
    let mut v = vec![];
    for p in 0..PATHS.len() {
        for i in 0..IFACES.len() {
            v.push(Op::At { p, i, val: 0 });
        }
    }
    for p in 0..PATHS.len() {
        for i in 0..IFACES.len() {
            v.push(Op::Remove { p, i });
        }
    }
    v.push(Op::Lookup);
    v
}

/// Outcome of running one history and observing its last transition.
pub(crate) enum Exec {
    /// A prefix operation (or the probe before the last one) panicked or hung; that prefix is
    /// itself an enumerated history and is reported there.
    DeadPrefix(usize, String),
    Last {
        history: Vec<Op>,
        pre: Option<Obs>,
        /// `Err(kind, text)` = panic / hang of the operation itself.
        ret: Result<OpRet, (String, String)>,
        /// `Err` = panic / hang of the probe after the operation.
        post: Result<Obs, (String, String)>,
    },
}

fn failed<T>(r: &Ran<T>) -> Option<(String, String)> {
    match r {
        Ran::Done(_) => None,
        Ran::Hung => Some(("hang".into(), "nothing is enabled and the call has not returned".into())),
        Ran::Panic { msg, loc } => Some(("panic".into(), format!("{msg} at {loc}"))),
    }
}

/// How the instance tag of the last `at` is chosen.
#[derive(Clone, Copy, PartialEq)]
pub(crate) enum Tags {
    /// As written in the history.
    Given,
    /// 1 if the pair is absent in the observed pre-state, otherwise a tag different from the
    /// registered instance's (keeps the state space finite for merging).
    FromPre,
}

fn run_op(sys: &mut Sys, op: Op) -> Ran<OpRet> {
    match op {
        Op::Lookup => {
            let (c, s) = (sys.client.clone(), sys.server.clone());
            match sys.run("lookup", probe(c, s)) {
                Ran::Done(_) => Ran::Done(OpRet::Unit),
                Ran::Hung => Ran::Hung,
                Ran::Panic { msg, loc } => Ran::Panic { msg, loc },
            }
        }
        _ => {
            let s = sys.server.clone();
            sys.run("op", do_op(s, op))
        }
    }
}

pub(crate) fn run_history(h: &[Op], tags: Tags) -> Exec {
    let mut sys = match Sys::new() {
        Ok(s) => s,
        Err(e) => vcommon::machinery_failure(&format!("cannot build the p2p pair: {e}")),
    };
    let n = h.len();
    for (k, op) in h.iter().enumerate().take(n.saturating_sub(1)) {
        let r = run_op(&mut sys, *op);
        if let Some((kind, text)) = failed(&r) {
            return Exec::DeadPrefix(k, format!("{kind}: {text}"));
        }
    }
    let mut history = h.to_vec();
    let pre = if n > 0 {
        let (c, s) = (sys.client.clone(), sys.server.clone());
        // The model's pre-state is the lookup view. The complete view of the same state is the
        // verdict of the history that ends here (merged search: taken in full, to confirm the
        // canonical state was reproduced).
        let r = if tags == Tags::FromPre {
            sys.run("probe-before", probe(c, s))
        } else {
            sys.run("probe-before", osrv::probe_lookup(s))
        };
        match r {
            Ran::Done(o) => Some(o),
            r => {
                let (kind, text) = failed(&r).unwrap();
                return Exec::DeadPrefix(n - 1, format!("probe {kind}: {text}"));
            }
        }
    } else {
        None
    };
    let ret = if n > 0 {
        let mut op = h[n - 1];
        if let (Tags::FromPre, Op::At { p, i, .. }, Some(pre)) = (tags, op, pre.as_ref()) {
            let val = match pre.lookup.get(&(p, i)) {
                Some(osrv::View::Val(v)) => {
                    if *v == 1 {
                        2
                    } else {
                        1
                    }
                }
                _ => 1,
            };
            op = Op::At { p, i, val };
            history[n - 1] = op;
        }
        let r = run_op(&mut sys, op);
        match r {
            Ran::Done(v) => Ok(v),
            r => Err(failed(&r).unwrap()),
        }
    } else {
        Ok(OpRet::Unit)
    };
    let post = if ret.is_ok() {
        let (c, s) = (sys.client.clone(), sys.server.clone());
        match sys.run("probe-after", probe(c, s)) {
            Ran::Done(o) => Ok(o),
            r => Err(failed(&r).unwrap()),
        }
    } else {
        Err(("skipped".into(), "the operation did not return".into()))
    };
    // After a panic the world is discarded like any other (drop must not take the check down).
    let _ = vcommon::catch(move || drop(sys));
    Exec::Last {
        history,
        pre,
        ret,
        post,
    }
}

// ---------------------------------------------------------------------------------------------
// Oracle
// ---------------------------------------------------------------------------------------------

/// The boring model: pair -> instance tag.
pub(crate) type Model = BTreeMap<Pair, u32>;

pub(crate) fn model_apply(s: &Model, op: Op) -> Model {
    let mut e = s.clone();
    match op {
        Op::At { p, i, val } => {
            e.entry((p, i)).or_insert(val);
        }
        Op::Remove { p, i } => {
            e.remove(&(p, i));
        }
        _ => {}
    }
    e
}

struct Diff {
    /// (path, iface name) -> (view, effect)
    items: Vec<(String, String, &'static str, &'static str)>,
}

fn diff_view(
    name: &'static str,
    seen: &BTreeMap<(String, String), Option<u32>>,
    expected: &Model,
    out: &mut Diff,
) {
    for ((p, i), val) in expected {
        let key = (PATHS[*p].to_string(), IFACES[*i].to_string());
        match seen.get(&key) {
            None => out.items.push((key.0, key.1, name, "lost")),
            Some(Some(v)) if v != val => out.items.push((key.0, key.1, name, "instance-changed")),
            _ => {}
        }
    }
    for (p, i) in seen.keys() {
        let known = PATHS.iter().position(|x| x == p).and_then(|pi| {
            IFACES
                .iter()
                .position(|x| x == i)
                .map(|ii| expected.contains_key(&(pi, ii)))
        });
        if known != Some(true) {
            out.items.push((p.clone(), i.clone(), name, "gained"));
        }
    }
}

fn named(m: &BTreeMap<Pair, u32>) -> BTreeMap<(String, String), Option<u32>> {
    m.iter()
        .map(|((p, i), v)| ((PATHS[*p].to_string(), IFACES[*i].to_string()), Some(*v)))
        .collect()
}

fn unnamed(s: BTreeSet<(String, String)>) -> BTreeMap<(String, String), Option<u32>> {
    s.into_iter().map(|k| (k, None)).collect()
}

fn join(s: &BTreeSet<&str>) -> String {
    s.iter().cloned().collect::<Vec<_>>().join("+")
}

/// Compare one observed transition with the model. Returns the violations and an outcome class.
pub(crate) fn check(history: &[Op], pre: Option<&Obs>, ret: &Result<OpRet, (String, String)>, post: &Result<Obs, (String, String)>) -> (Vec<Violation>, String) {
    let mut out = vec![];
    let replay = json!({"history": history_json(history), "path_universe": osrv::selected_paths()});
    let hs = show_history(history);
    let op = history.last().cloned();
    let s: Model = pre.map(|o| Obs::set_of(&o.lookup)).unwrap_or_default();
    let kind = op.map(|o| o.kind()).unwrap_or("init");
    let tpath = op.and_then(|o| o.path()).map(|p| PATHS[p]);
    let target: Option<Pair> = match op {
        Some(Op::At { p, i, .. }) | Some(Op::Remove { p, i }) => Some((p, i)),
        _ => None,
    };
    let target_present = target.map(|t| s.contains_key(&t)).unwrap_or(false);
    let is_root = tpath == Some("/");
    let has_live_descendant = tpath
        .map(|tp| s.keys().any(|(q, _)| osrv::is_below(PATHS[*q], tp)))
        .unwrap_or(false);
    let last_interface = matches!(op, Some(Op::Remove { .. }))
        && target_present
        && !s.keys().any(|(q, j)| Some(PATHS[*q]) == tpath && Some((*q, *j)) != target);
    let base = |v: Violation| {
        v.feat("op", kind)
            .feat("is_root", is_root)
            .feat("has_live_descendant", has_live_descendant)
            .feat("last_interface", last_interface)
            .feat("target_present", target_present)
    };
    let class_pre = match op {
        Some(Op::At { .. }) => if target_present { "at:duplicate" } else { "at:new" },
        Some(Op::Remove { .. }) => if target_present { "remove:present" } else { "remove:absent" },
        Some(Op::Lookup) => "lookup",
        Some(_) => "other",
        None => "init",
    };

    let r = match ret {
        Err((k, text)) => {
            out.push(base(Violation::new(
                if k == "panic" { "no-panic" } else { "operation-returns" },
                format!("[{hs}] the last operation ended in a {k}: {text}"),
                replay.clone(),
            ))
            .feat("phase", "op"));
            return (out, format!("{class_pre} -> {k}"));
        }
        Ok(r) => r,
    };
    let class = format!("{class_pre} -> {}", match r { OpRet::OtherErr(_) => "Err(other)".to_string(), r => r.show() });
    let post = match post {
        Err((k, text)) => {
            out.push(base(Violation::new(
                if k == "panic" { "no-panic" } else { "operation-returns" },
                format!("[{hs}] probing the registry after the last operation ended in a {k}: {text}"),
                replay.clone(),
            ))
            .feat("phase", "probe"));
            return (out, format!("{class} -> probe {k}"));
        }
        Ok(p) => p,
    };

    // (a) what the operation returned
    match op {
        Some(Op::At { .. }) if target_present && *r != OpRet::Bool(false) => out.push(
            base(Violation::new(
                "duplicate-refused",
                format!("[{hs}] registering a duplicate returned {} instead of Ok(false)", r.show()),
                replay.clone(),
            ))
            .feat("effect", "not-refused"),
        ),
        Some(Op::Remove { .. }) if !target_present && matches!(r, OpRet::Bool(_)) => out.push(base(Violation::new(
            "remove-absent-fails",
            format!("[{hs}] removing an absent interface returned {}", r.show()),
            replay.clone(),
        ))),
        _ => {}
    }

    // (b) the visible set
    let e = op.map(|o| model_apply(&s, o)).unwrap_or_default();
    let mut d = Diff { items: vec![] };
    diff_view("lookup", &named(&Obs::set_of(&post.lookup)), &e, &mut d);
    diff_view("call", &named(&Obs::set_of(&post.call)), &e, &mut d);
    diff_view("property", &named(&Obs::set_of(&post.prop)), &e, &mut d);
    diff_view("introspect", &unnamed(post.intro_direct()), &e, &mut d);
    diff_view("introspect-walk", &unnamed(post.intro_walk()), &e, &mut d);
    if !d.items.is_empty() {
        let tname = target.map(|(p, i)| (PATHS[p].to_string(), IFACES[i].to_string()));
        let (on_target, on_others): (Vec<_>, Vec<_>) = d
            .items
            .iter()
            .partition(|(p, i, _, _)| Some((p.clone(), i.clone())) == tname);
        let odd = post.odd();
        let odd_txt = if odd.is_empty() { String::new() } else { format!("; odd answers: {odd:?}") };
        if !on_target.is_empty() {
            let views: BTreeSet<&str> = on_target.iter().map(|x| x.2).collect();
            let effects: BTreeSet<&str> = on_target.iter().map(|x| x.3).collect();
            let dup = matches!(op, Some(Op::At { .. })) && target_present;
            out.push(
                base(Violation::new(
                    if dup { "duplicate-refused" } else { "target-pair" },
                    format!(
                        "[{hs}] after the last operation the operated pair is {} in view(s) {} (model expects {}){odd_txt}",
                        join(&effects),
                        join(&views),
                        if e.contains_key(&target.unwrap()) { "present" } else { "absent" }
                    ),
                    replay.clone(),
                ))
                .feat("effect", join(&effects))
                .feat("views", join(&views)),
            );
        }
        if !on_others.is_empty() {
            let views: BTreeSet<&str> = on_others.iter().map(|x| x.2).collect();
            let effects: BTreeSet<&str> = on_others.iter().map(|x| x.3).collect();
            let rels: BTreeSet<&str> = on_others
                .iter()
                .map(|x| tpath.map(|tp| relation(&x.0, tp)).unwrap_or("none"))
                .collect();
            let which: BTreeSet<String> = on_others.iter().map(|x| format!("({} {})", x.0, x.1)).collect();
            out.push(
                base(Violation::new(
                    "other-pairs-unchanged",
                    format!(
                        "[{hs}] the last operation ({}) also changed other pairs: {} {} in view(s) {}{odd_txt}",
                        op.map(|o| o.show()).unwrap_or_default(),
                        which.into_iter().collect::<Vec<_>>().join(" "),
                        join(&effects),
                        join(&views)
                    ),
                    replay.clone(),
                ))
                .feat("effect", join(&effects))
                .feat("relation", join(&rels))
                .feat("views", join(&views)),
            );
        }
    }
    (out, class)
}

// ---------------------------------------------------------------------------------------------
// Driver
// ---------------------------------------------------------------------------------------------

struct Counters {
    states: Mutex<HashSet<u64>>,
    transitions: std::sync::atomic::AtomicU64,
    histories: std::sync::atomic::AtomicU64,
    dead_prefix: std::sync::atomic::AtomicU64,
    sink: osrv::VioSink,
}

fn absorb(report: &Report, cnt: &Counters, ex: &Exec, acc: &mut osrv::Acc, want_sample: bool) -> Option<u64> {
    let sink = &cnt.sink;
    use std::sync::atomic::Ordering::Relaxed;
    match ex {
        Exec::DeadPrefix(_, _) => {
            cnt.dead_prefix.fetch_add(1, Relaxed);
            acc.outcome("extends a history that already panicked (pruned)");
            None
        }
        Exec::Last { history, pre, ret, post } => {
            acc.evals += 1;
            cnt.histories.fetch_add(1, Relaxed);
            cnt.transitions.fetch_add(history.len() as u64, Relaxed);
            let (vs, class) = check(history, pre.as_ref(), ret, post);
            acc.outcome(&class);
            let post_h = post.as_ref().ok().map(|o| hash64(&o.structural()));
            if let Some(h) = post_h {
                acc.states.push(h);
            }
            let pre_h = pre.as_ref().map(|o| hash64(&Obs::set_of(&o.lookup).keys().collect::<Vec<_>>()));
            let op_h = history.last().map(|o| match o {
                Op::At { p, i, .. } => (0, *p, *i),
                Op::Remove { p, i } => (1, *p, *i),
                _ => (2, 0, 0),
            });
            acc.nontrivial.push(hash64(&(pre_h, op_h, post_h, ret.is_ok())));
            if want_sample {
                report.sample(json!({
                    "history": show_history(history),
                    "returned": ret.as_ref().map(|r| r.show()).unwrap_or_else(|e| format!("{}: {}", e.0, e.1)),
                    "visible_pairs_after": post.as_ref().ok().map(|o| Obs::set_of(&o.call).keys().map(|(p, i)| format!("{} I{}", PATHS[*p], i + 1)).collect::<Vec<_>>()),
                    "violations": vs.len(),
                }));
            }
            for v in vs {
                sink.push(report, v);
            }
            post.as_ref().ok().map(|o| hash64(o))
        }
    }
}

fn decode(alpha: &[Op], idx: &[usize]) -> Vec<Op> {
    idx.iter()
        .enumerate()
        .map(|(k, a)| match alpha[*a] {
            Op::At { p, i, .. } => Op::At {
                p,
                i,
                val: k as u32 + 1,
            },
            o => o,
        })
        .collect()
}

pub fn main(args: &Args) -> i32 {
    if let Some(p) = &args.replay {
        return replay(p);
    }
    let report = Report::new("C24", args.tier, args.seed, "model_checking");
    let alpha = alphabet();
    let depth = args.tier.pick(4usize, 5usize);
    let cnt = Counters {
        states: Mutex::new(HashSet::new()),
        transitions: 0.into(),
        histories: 0.into(),
        dead_prefix: 0.into(),
        sink: Default::default(),
    };

    // Phase 1: the full history tree, no merging.
    let total = enumerate::count_strings(alpha.len(), depth);
    osrv::par_items(total, 64, &report, &cnt.states, |n, acc| {
        let mut idx = vec![];
        enumerate::nth_string(alpha.len(), n, &mut idx);
        let h = decode(&alpha, &idx);
        let ex = run_history(&h, Tags::Given);
        let want = hash64(&n) % (total as u64 / 10).max(1) == 0;
        absorb(&report, &cnt, &ex, acc, want);
    });
    let tree_hist = cnt.histories.load(std::sync::atomic::Ordering::Relaxed);
    report.set("full_tree_depth", json!(depth));
    report.set("full_tree_histories", json!(tree_hist));

    // Phase 1b: the second path universe {/, /a, /a/b/d, /a/bc}: an object whose grandchild hangs
    // below an intermediate node (/a/b) that is never registered itself, three levels below the
    // root, and a sibling (/a/bc) whose name has that intermediate node's name as a string prefix. Quick: one interface, depth 5; thorough: both, depth 5.
    {
        osrv::select_paths(1);
        let alpha1: Vec<Op> = if args.tier == vcommon::Tier::Quick {
            alpha.iter().copied().filter(|o| !matches!(o, Op::At { i: 1, .. } | Op::Remove { i: 1, .. })).collect()
        } else {
            alpha.clone()
        };
        let depth1 = 5usize;
        let total = enumerate::count_strings(alpha1.len(), depth1);
        osrv::par_items(total, 64, &report, &cnt.states, |n, acc| {
            let mut idx = vec![];
            enumerate::nth_string(alpha1.len(), n, &mut idx);
            let h = decode(&alpha1, &idx);
            let ex = run_history(&h, Tags::Given);
            let want = hash64(&n) % (total as u64 / 10).max(1) == 0;
            absorb(&report, &cnt, &ex, acc, want);
        });
        let h1 = cnt.histories.load(std::sync::atomic::Ordering::Relaxed) - tree_hist;
        report.set(
            "second_universe",
            json!({"paths": osrv::PATH_SETS[1], "alphabet": alpha1.iter().map(|o| o.show()).collect::<Vec<_>>(), "full_tree_depth": depth1, "full_tree_histories": h1}),
        );
        osrv::select_paths(0);
    }

    // Phase 2 (thorough): merge by canonical observation and continue until nothing new appears.
    let mut merged = json!(null);
    if args.tier == vcommon::Tier::Thorough {
        let max_levels = 12usize;
        let mut seen: BTreeMap<u64, Vec<Op>> = BTreeMap::new();
        // level 0
        let init = run_history(&[], Tags::FromPre);
        let h0 = match &init {
            Exec::Last { post: Ok(o), .. } => hash64(o),
            _ => vcommon::machinery_failure("cannot observe the initial state"),
        };
        seen.insert(h0, vec![]);
        let mut frontier: Vec<(u64, Vec<Op>)> = vec![(h0, vec![])];
        let mut levels = vec![];
        let mut closed = false;
        for level in 1..=max_levels {
            let jobs: Vec<(u64, Vec<Op>)> = frontier
                .iter()
                .flat_map(|(ch, h)| {
                    alpha.iter().map(move |op| {
                        let mut hh = h.clone();
                        hh.push(*op);
                        (*ch, hh)
                    })
                })
                .collect();
            let found: Mutex<BTreeMap<u64, Vec<Op>>> = Mutex::new(BTreeMap::new());
            osrv::par_items(jobs.len(), 8, &report, &cnt.states, |n, acc| {
                let (canon_pre, h) = &jobs[n];
                let ex = run_history(h, Tags::FromPre);
                if let Exec::Last { pre: Some(p), .. } = &ex {
                    if hash64(p) != *canon_pre {
                        vcommon::machinery_failure(&format!(
                            "harness nondeterminism: replaying [{}] did not reproduce its canonical state",
                            show_history(&h[..h.len() - 1])
                        ));
                    }
                }
                let post = absorb(&report, &cnt, &ex, acc, false);
                if let (Some(c), Exec::Last { history, .. }) = (post, &ex) {
                    let mut f = found.lock().unwrap();
                    // keep the smallest representative: deterministic irrespective of thread timing
                    match f.get(&c) {
                        Some(old) if old <= history => {}
                        _ => {
                            f.insert(c, history.clone());
                        }
                    }
                }
            });
            let mut next = vec![];
            for (c, h) in found.into_inner().unwrap() {
                if !seen.contains_key(&c) {
                    seen.insert(c, h.clone());
                    next.push((c, h));
                }
            }
            levels.push(json!({"level": level, "transitions": jobs.len(), "new_states": next.len()}));
            frontier = next;
            if frontier.is_empty() {
                closed = true;
                break;
            }
        }
        if !closed {
            report.cap(format!("merged search stopped at level {max_levels} with a non-empty frontier"));
        }
        merged = json!({"canonical_states": seen.len(), "levels": levels, "closed_under_alphabet": closed});
    }

    use std::sync::atomic::Ordering::Relaxed;
    let n_states = cnt.states.lock().unwrap().len();
    report.set("states", json!(n_states));
    report.set("states_meaning", json!("distinct structural observations of the whole registry (lookup, call, property and introspection views of every universe path, instance tags stripped)"));
    report.set("transitions", json!(cnt.transitions.load(Relaxed)));
    report.set("traces_validated_against_impl", json!(cnt.histories.load(Relaxed)));
    report.set("histories_pruned_after_panic", json!(cnt.dead_prefix.load(Relaxed)));
    report.set("alphabet", json!(alpha.iter().map(|o| o.show()).collect::<Vec<_>>()));
    report.set("merged_search", merged);
    report.set("violating_transitions", json!(cnt.sink.total()));
    report.set("violating_transitions_by_identity", cnt.sink.summary());
    report.assume("each transition is one API call followed by running every task of both connections until nothing is enabled (default schedule); schedule variation inside a transition is not explored here");
    report.assume("the probe (lookup + method call + property read + Introspect of every universe path) is itself an operation of the alphabet, so histories with and without intermediate probes are both covered");
    report.finish(
        "every history over the alphabet up to the depth bound is executed on a fresh real connection pair; the registry is probed before and after its last operation and compared with the set model applied to the observed pre-state; non-trivial = distinct (observed pre-state, operation, observed post-state) triples",
        true,
    )
}

fn replay(path: &str) -> i32 {
    let v = vcommon::load_replay(path);
    // the history names its paths; pick the universe that contains all of them
    let parse = || history_from_json(&v["replay"]["history"]).or_else(|| history_from_json(&v["history"]));
    if let Some(u) = v["replay"]["path_universe"].as_u64().or(v["path_universe"].as_u64()) {
        osrv::select_paths(u as usize);
    }
    let hist = parse()
        .or_else(|| {
            osrv::select_paths(1);
            parse()
        })
        .unwrap_or_else(|| vcommon::machinery_failure("replay file has no history"));
    println!("path universe: {:?}", osrv::PATH_SETS[osrv::selected_paths()]);
    println!("history: {}", show_history(&hist));
    let mut bad = 0;
    for n in 0..=hist.len() {
        let h = &hist[..n];
        match run_history(h, Tags::Given) {
            Exec::DeadPrefix(k, why) => {
                println!("step {n}: not reached, step {} already failed: {why}", k + 1);
                break;
            }
            Exec::Last { history, pre, ret, post } => {
                if n == 0 {
                    println!("initial state:");
                } else {
                    println!(
                        "step {n}: {} -> {}",
                        history[n - 1].show(),
                        match &ret {
                            Ok(r) => r.show(),
                            Err((k, t)) => format!("{k}: {t}"),
                        }
                    );
                }
                match &post {
                    Ok(o) => print!("{}", o.show()),
                    Err((k, t)) => println!("  probe: {k}: {t}"),
                }
                let (vs, _) = check(&history, pre.as_ref(), &ret, &post);
                for v in &vs {
                    println!("  VIOLATION clause={} features={:?}\n    {}", v.clause, v.features, v.detail);
                }
                bad += vs.len();
                if ret.is_err() || post.is_err() {
                    break;
                }
            }
        }
    }
    println!("replay: {bad} violating transition(s)");
    (bad > 0) as i32
}
