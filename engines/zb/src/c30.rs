//! C30 — object server use from handlers and right after setup does not hang.

use std::sync::{
    atomic::{AtomicBool, Ordering::SeqCst},
    Arc, Mutex,
};

use serde_json::json;
use vcommon::{Args, Report};
use zbus::{connection::Builder, Connection};

use crate::{
    explore::ExecResult,
    sched::{finish_model_checking, run_scenario, v, SchedPlan, Totals},
    world::{split_messages, parse_message, Link, SockCfg, Step, World, GUID},
};

struct Ping;
#[zbus::interface(name = "x.y.I")]
impl Ping {
    fn ping(&self) -> u32 {
        7
    }
}

/// Scenario A: `conn.object_server()` created on demand, `at()` returns, then a call arrives.
fn on_demand() -> ExecResult {
    let mut w = World::new();
    let link = Link::new();
    let sock = link.end_a(SockCfg::default());
    let registered = Arc::new(AtomicBool::new(false));
    let conn_slot: Arc<Mutex<Option<Connection>>> = Arc::new(Mutex::new(None));
    let call = zbus::Message::method_call("/a", "Ping")
        .unwrap()
        .interface("x.y.I")
        .unwrap()
        .build(&())
        .unwrap();
    let call_serial = call.primary_header().serial_num();
    let (reg2, slot2) = (registered.clone(), conn_slot.clone());
    let _root = w.spawn("root", async move {
        let conn = Builder::authenticated_socket(sock, GUID)
            .unwrap()
            .p2p()
            .internal_executor(false)
            .build()
            .await
            .unwrap();
        conn.object_server().at("/a", Ping).await.unwrap();
        reg2.store(true, SeqCst);
        *slot2.lock().unwrap() = Some(conn);
    });
    let mut released = false;
    loop {
        let env = (registered.load(SeqCst) && !released) as usize;
        match w.step(env) {
            Step::Ran(_) => {}
            Step::Env(_) => {
                released = true;
                w.obs("call released after at() returned");
                link.b2a.push(&call.data()[..], vec![]);
            }
            Step::Quiescent | Step::Horizon => break,
        }
    }
    let out = link.a2b.written();
    let (msgs, _) = split_messages(&out);
    let mut replied = 0;
    for r in msgs {
        if let Ok(m) = parse_message(&out[r]) {
            if m.header().reply_serial() == Some(call_serial) {
                replied += 1;
            }
        }
    }
    w.obs(format!("replies={replied}"));
    let mut res = ExecResult {
        capped: w.hit_horizon,
        steps: w.steps,
        ..Default::default()
    };
    if released && replied != 1 && !w.hit_horizon {
        res.violations.push(
            v(
                "call-after-registration-dispatched",
                format!("a call released after at() returned got {replied} replies; no task is enabled (lost call); trace={:?}", w.trace),
            )
            .feat("scenario", "on-demand-object-server"),
        );
    }
    res.log = std::mem::take(&mut w.log);
    drop(conn_slot);
    res
}

// ---------------------------------------------------------------------------------------------
// Scenario B: handlers that use the object server
// ---------------------------------------------------------------------------------------------

struct H;

#[zbus::interface(name = "a.b.H")]
impl H {
    async fn reg(&self, #[zbus(object_server)] server: &zbus::ObjectServer) -> zbus::fdo::Result<bool> {
        server.at("/n1", Ping).await.map_err(|e| zbus::fdo::Error::Failed(e.to_string()))
    }
    async fn unreg(&self, #[zbus(object_server)] server: &zbus::ObjectServer) -> zbus::fdo::Result<bool> {
        server
            .remove::<Ping, _>("/n1")
            .await
            .map_err(|e| zbus::fdo::Error::Failed(e.to_string()))
    }
    async fn reg_mut(&mut self, #[zbus(object_server)] server: &zbus::ObjectServer) -> zbus::fdo::Result<bool> {
        server.at("/n4", Ping).await.map_err(|e| zbus::fdo::Error::Failed(e.to_string()))
    }
    /// A handler removing the very interface it belongs to (the object goes away with the call).
    async fn remove_self(&self, #[zbus(object_server)] server: &zbus::ObjectServer) -> zbus::fdo::Result<bool> {
        server.remove::<H, _>("/h").await.map_err(|e| zbus::fdo::Error::Failed(e.to_string()))
    }
    async fn remove_self_mut(&mut self, #[zbus(object_server)] server: &zbus::ObjectServer) -> zbus::fdo::Result<bool> {
        server.remove::<H, _>("/h").await.map_err(|e| zbus::fdo::Error::Failed(e.to_string()))
    }
    /// A `&mut self` handler looking up ANOTHER object's interface and calling into it.
    async fn lookup_other_mut(&mut self, #[zbus(object_server)] server: &zbus::ObjectServer) -> zbus::fdo::Result<u32> {
        let r = server
            .interface::<_, Ping>("/n0")
            .await
            .map_err(|e| zbus::fdo::Error::Failed(e.to_string()))?;
        let v = r.get().await.ping();
        Ok(v)
    }
    async fn emit(&self, #[zbus(signal_emitter)] e: zbus::object_server::SignalEmitter<'_>) -> zbus::fdo::Result<()> {
        Self::sig(&e, 7).await.map_err(|e| zbus::fdo::Error::Failed(e.to_string()))
    }
    #[zbus(signal)]
    async fn sig(e: &zbus::object_server::SignalEmitter<'_>, v: u32) -> zbus::Result<()>;

    #[zbus(property)]
    async fn pget(&self, #[zbus(object_server)] server: &zbus::ObjectServer) -> zbus::fdo::Result<u32> {
        server
            .at("/n2", Ping)
            .await
            .map(|_| 5)
            .map_err(|e| zbus::fdo::Error::Failed(e.to_string()))
    }
    #[zbus(property)]
    async fn pset(&self) -> u32 {
        1
    }
    #[zbus(property)]
    async fn set_pset(&mut self, _v: u32, #[zbus(object_server)] server: &zbus::ObjectServer) -> zbus::fdo::Result<()> {
        server
            .at("/n3", Ping)
            .await
            .map(|_| ())
            .map_err(|e| zbus::fdo::Error::Failed(e.to_string()))
    }
}

fn handler_calls(which: &'static str) -> ExecResult {
    use zbus::zvariant::Value;
    let mut w = World::new();
    let link = Link::new();
    let sock = link.end_a(SockCfg::default());
    let conn = w
        .complete("build", async move {
            Builder::authenticated_socket(sock, GUID)
                .unwrap()
                .p2p()
                .internal_executor(false)
                .serve_at("/h", H)
                .unwrap()
                .serve_at("/n0", Ping)
                .unwrap()
                .build()
                .await
                .unwrap()
        })
        .expect("build");
    let mc = |member: &str| {
        zbus::Message::method_call("/h", member)
            .unwrap()
            .interface("a.b.H")
            .unwrap()
            .build(&())
            .unwrap()
    };
    fn prop(member: &'static str) -> zbus::message::Builder<'static> {
        zbus::Message::method_call("/h", member)
            .unwrap()
            .interface("org.freedesktop.DBus.Properties")
            .unwrap()
    }
    let calls: Vec<zbus::Message> = match which {
        "method-registers-object" => vec![mc("Reg")],
        "method-registers-then-removes" => vec![mc("Reg"), mc("Unreg")],
        "mut-method-registers-object" => vec![mc("RegMut")],
        "method-emits-signal" => vec![mc("Emit")],
        "method-removes-own-interface" => vec![mc("RemoveSelf")],
        "mut-method-removes-own-interface" => vec![mc("RemoveSelfMut")],
        "mut-method-looks-up-other-interface" => vec![mc("LookupOtherMut")],
        "mut-method-removes-own-then-register-elsewhere" => vec![mc("RemoveSelfMut"), {
            // a later registration through another object must still work (the root lock is free)
            zbus::Message::method_call("/n0", "Ping").unwrap().interface("x.y.I").unwrap().build(&()).unwrap()
        }],
        "property-getter-registers-object" => vec![prop("Get").build(&("a.b.H", "Pget")).unwrap()],
        "property-setter-registers-object" => vec![prop("Set").build(&("a.b.H", "Pset", Value::from(5u32))).unwrap()],
        "getall-getter-registers-object" => vec![prop("GetAll").build(&("a.b.H",)).unwrap()],
        _ => unreachable!(),
    };
    let serials: Vec<_> = calls.iter().map(|c| c.primary_header().serial_num()).collect();
    let mut next = 0;
    loop {
        let env = (next < calls.len()) as usize;
        match w.step(env) {
            Step::Ran(_) => {}
            Step::Env(_) => {
                link.b2a.push(&calls[next].data()[..], vec![]);
                w.obs(format!("call {next} released"));
                next += 1;
            }
            Step::Quiescent | Step::Horizon => break,
        }
    }
    let out = link.a2b.written();
    let (msgs, _) = split_messages(&out);
    let mut replies = vec![0usize; calls.len()];
    let mut kinds = vec![];
    for r in msgs {
        if let Ok(m) = parse_message(&out[r]) {
            for (i, s) in serials.iter().enumerate() {
                if m.header().reply_serial() == Some(*s) {
                    replies[i] += 1;
                    kinds.push(format!("{:?}:{}", m.message_type(), m.header().error_name().map(|e| e.to_string()).unwrap_or_default()));
                }
            }
        }
    }
    w.obs(format!("replies={replies:?} {kinds:?}"));
    let mut res = ExecResult {
        capped: w.hit_horizon,
        steps: w.steps,
        ..Default::default()
    };
    if !w.hit_horizon {
        for (i, n) in replies.iter().enumerate() {
            if *n == 0 && i < next {
                res.violations.push(
                    v(
                        "handler-does-not-deadlock",
                        format!("{which}: call {i} was delivered, nothing is runnable any more, and it was never answered (deadlock); trace={:?}", w.trace),
                    )
                    .feat("handler", which),
                );
            }
        }
    }
    res.log = std::mem::take(&mut w.log);
    drop(conn);
    res
}

const HANDLER_SCENARIOS: [&str; 11] = [
    "method-removes-own-interface",
    "mut-method-removes-own-interface",
    "mut-method-looks-up-other-interface",
    "mut-method-removes-own-then-register-elsewhere",
    "method-registers-object",
    "method-registers-then-removes",
    "mut-method-registers-object",
    "method-emits-signal",
    "property-getter-registers-object",
    "property-setter-registers-object",
    "getall-getter-registers-object",
];

pub fn main(args: &Args) -> i32 {
    if let Some(p) = &args.replay {
        return crate::sched::replay(p, |name, _| {
            if name == "on-demand" {
                return Some(Box::new(on_demand));
            }
            let which = HANDLER_SCENARIOS.iter().find(|s| **s == name)?;
            let which: &'static str = which;
            Some(Box::new(move || handler_calls(which)))
        });
    }
    let report = Report::new("C30", args.tier, args.seed, "model_checking");
    let totals = Mutex::new(Totals::default());
    let plan = SchedPlan {
        bounds: vec![None],
        max_execs: 2_000_000,
        time_budget_s: args.tier.pick(20.0, 200.0),
    };
    run_scenario(&report, &totals, "on-demand", json!({}), &plan, on_demand);
    for which in HANDLER_SCENARIOS {
        run_scenario(&report, &totals, which, json!({"handler": which}), &plan, move || handler_calls(which));
    }
    report.assume("interleaving granularity is one task poll; handlers run on the connection's own executor (single thread)");
    finish_model_checking(&report, &totals, "all schedules of the scenarios (task polls and environment events) by DFS with re-execution")
}
