//! C30 — object server use from handlers and right after setup does not hang.

use std::sync::{
    atomic::{AtomicBool, Ordering::SeqCst},
    Arc, Mutex,
};

use serde_json::json;
use vcommon::{Args, Report};
use zbus::{connection::Builder, Connection};

use crate::{
    explore::ExecResult,
    sched::{finish_model_checking, run_scenario, v, SchedPlan, Totals},
    world::{split_messages, parse_message, Link, SockCfg, Step, World, GUID},
};

struct Ping;
#[zbus::interface(name = "x.y.I")]
impl Ping {
    fn ping(&self) -> u32 {
        7
    }
}

/// Scenario A: `conn.object_server()` created on demand, `at()` returns, then a call arrives.
fn on_demand() -> ExecResult {
    let mut w = World::new();
    let link = Link::new();
    let sock = link.end_a(SockCfg::default());
    let registered = Arc::new(AtomicBool::new(false));
    let conn_slot: Arc<Mutex<Option<Connection>>> = Arc::new(Mutex::new(None));
    let call = zbus::Message::method_call("/a", "Ping")
        .unwrap()
        .interface("x.y.I")
        .unwrap()
        .build(&())
        .unwrap();
    let call_serial = call.primary_header().serial_num();
    let (reg2, slot2) = (registered.clone(), conn_slot.clone());
    let _root = w.spawn("root", async move {
        let conn = Builder::authenticated_socket(sock, GUID)
            .unwrap()
            .p2p()
            .internal_executor(false)
            .build()
            .await
            .unwrap();
        conn.object_server().at("/a", Ping).await.unwrap();
        reg2.store(true, SeqCst);
        *slot2.lock().unwrap() = Some(conn);
    });
    let mut released = false;
    loop {
        let env = (registered.load(SeqCst) && !released) as usize;
        match w.step(env) {
            Step::Ran(_) => {}
            Step::Env(_) => {
                released = true;
                w.obs("call released after at() returned");
                link.b2a.push(&call.data()[..], vec![]);
            }
            Step::Quiescent | Step::Horizon => break,
        }
    }
    let out = link.a2b.written();
    let (msgs, _) = split_messages(&out);
    let mut replied = 0;
    for r in msgs {
        if let Ok(m) = parse_message(&out[r]) {
            if m.header().reply_serial() == Some(call_serial) {
                replied += 1;
            }
        }
    }
    w.obs(format!("replies={replied}"));
    let mut res = ExecResult {
        capped: w.hit_horizon,
        steps: w.steps,
        ..Default::default()
    };
    if released && replied != 1 && !w.hit_horizon {
        res.violations.push(
            v(
                "call-after-registration-dispatched",
                format!("a call released after at() returned got {replied} replies; no task is enabled (lost call); trace={:?}", w.trace),
            )
            .feat("scenario", "on-demand-object-server"),
        );
    }
    res.log = std::mem::take(&mut w.log);
    drop(conn_slot);
    res
}

pub fn main(args: &Args) -> i32 {
    let report = Report::new("C30", args.tier, args.seed, "model_checking");
    let totals = Mutex::new(Totals::default());
    let plan = SchedPlan {
        bounds: vec![None],
        max_execs: 2_000_000,
        time_budget_s: args.tier.pick(20.0, 200.0),
    };
    run_scenario(&report, &totals, "on-demand", json!({}), &plan, on_demand);
    finish_model_checking(&report, &totals, "all schedules of the scenarios (task polls and environment events) by DFS with re-execution")
}
