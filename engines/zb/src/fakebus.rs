//! fakebus — a small CONSISTENT message-bus model that plays the bus side of one real zbus
//! connection over a `world::Link` (used by C32, C36, C37).
//!
//! Two layers:
//!
//! * `NameTable` / `MatchTable`: the pure reference model of the message-bus driver, written from
//!   the D-Bus specification (section "Message Bus Messages") and from the behaviour of the
//!   reference `dbus-daemon` (bus/services.c): per well-known name a queue of owners (index 0 is
//!   the primary owner) with their `allow_replacement` / `do_not_queue` flags; `RequestName`
//!   replies 1 PrimaryOwner, 2 InQueue, 3 Exists, 4 AlreadyOwner; `ReleaseName` replies
//!   1 Released, 2 NonExistent, 3 NotOwner; every ownership change emits `NameLost` (unicast to
//!   the old owner), `NameOwnerChanged` (broadcast) and `NameAcquired` (unicast to the new owner).
//!   Match rules are a multiset of rule strings per connection; `RemoveMatch` of a rule that is
//!   not registered is the error `org.freedesktop.DBus.Error.MatchRuleNotFound`.
//!   This layer is audited against the real `dbus-daemon` (see `audit_against_daemon`); a
//!   disagreement is a machinery error (exit 2), never a verdict.
//!
//! * `Bus`: the wire layer. It answers the SASL lines of the client handshake as a server would,
//!   then parses every message the connection writes and answers the method calls addressed to
//!   `org.freedesktop.DBus` (Hello, AddMatch, RemoveMatch, RequestName, ReleaseName,
//!   GetNameOwner, NameHasOwner, GetId, Ping) from the model. Broadcast signals are routed like a
//!   bus does it: delivered only when one of the connection's registered match rules matches
//!   (with a well-known `sender=` resolved to its current owner); unicast signals (a
//!   `destination` equal to our unique name) are always delivered — this is how a hostile peer
//!   gets a forged driver signal to us: the bus stamps the peer's own unique name as sender.
//!
//! `pump` alternates between running the world to quiescence and letting the bus answer, until
//! nothing changes any more; an API call that has not completed by then is blocked for good.

use std::collections::{BTreeMap, VecDeque};

use zbus::{
    names::{BusName, UniqueName},
    Message,
};

use crate::world::{parse_message, split_messages, Handle, Link, SockCfg, World, GUID};

pub const DRIVER: &str = "org.freedesktop.DBus";
pub const DRIVER_PATH: &str = "/org/freedesktop/DBus";
/// The unique name the fake bus hands out to the connection under test.
pub const US: &str = ":1.1";

pub const F_ALLOW: u32 = 1;
pub const F_REPLACE: u32 = 2;
pub const F_NOQUEUE: u32 = 4;

pub const ERR_NO_OWNER: &str = "org.freedesktop.DBus.Error.NameHasNoOwner";
pub const ERR_NO_MATCH: &str = "org.freedesktop.DBus.Error.MatchRuleNotFound";
pub const ERR_UNKNOWN_METHOD: &str = "org.freedesktop.DBus.Error.UnknownMethod";
pub const ERR_SERVICE_UNKNOWN: &str = "org.freedesktop.DBus.Error.ServiceUnknown";

// ---------------------------------------------------------------------------------------------
// Pure model: names
// ---------------------------------------------------------------------------------------------

#[derive(Clone, Debug, PartialEq, Eq, Hash, PartialOrd, Ord)]
pub struct QEntry {
    pub conn: String,
    pub allow_replacement: bool,
    pub do_not_queue: bool,
}

/// A signal the driver emits (wire independent), in emission order.
#[derive(Clone, Debug, PartialEq, Eq, Hash, PartialOrd, Ord)]
pub enum Emit {
    /// Broadcast.
    NameOwnerChanged { name: String, old: String, new: String },
    /// Unicast to `to`.
    NameLost { to: String, name: String },
    /// Unicast to `to`.
    NameAcquired { to: String, name: String },
}

impl Emit {
    pub fn short(&self) -> String {
        match self {
            Emit::NameOwnerChanged { name, old, new } => format!("NOC({name},{old},{new})"),
            Emit::NameLost { to, name } => format!("NameLost({name})->{to}"),
            Emit::NameAcquired { to, name } => format!("NameAcquired({name})->{to}"),
        }
    }
}

#[derive(Clone, Debug, Default, PartialEq, Eq, Hash)]
pub struct NameTable {
    /// name -> owners queue; `[0]` is the primary owner. Never holds an empty queue.
    pub names: BTreeMap<String, Vec<QEntry>>,
}

impl NameTable {
    pub fn owner(&self, name: &str) -> Option<&str> {
        if name == DRIVER {
            return Some(DRIVER);
        }
        self.names.get(name).and_then(|q| q.first()).map(|e| e.conn.as_str())
    }

    /// Position of `conn` in the queue of `name` (0 = primary owner).
    pub fn position(&self, name: &str, conn: &str) -> Option<usize> {
        self.names
            .get(name)
            .and_then(|q| q.iter().position(|e| e.conn == conn))
    }

    pub fn queue(&self, name: &str) -> Vec<String> {
        self.names
            .get(name)
            .map(|q| q.iter().map(|e| e.conn.clone()).collect())
            .unwrap_or_default()
    }

    /// `RequestName`: reply code and the signals emitted (which precede the reply on the wire).
    pub fn request_name(&mut self, conn: &str, name: &str, flags: u32) -> (u32, Vec<Emit>) {
        let entry = QEntry {
            conn: conn.to_string(),
            allow_replacement: flags & F_ALLOW != 0,
            do_not_queue: flags & F_NOQUEUE != 0,
        };
        let replace = flags & F_REPLACE != 0;
        let q = self.names.entry(name.to_string()).or_default();
        if q.is_empty() {
            q.push(entry);
            return (
                1,
                vec![
                    Emit::NameOwnerChanged {
                        name: name.into(),
                        old: String::new(),
                        new: conn.into(),
                    },
                    Emit::NameAcquired {
                        to: conn.into(),
                        name: name.into(),
                    },
                ],
            );
        }
        if q[0].conn == conn {
            q[0] = entry;
            return (4, vec![]);
        }
        let can_replace = replace && q[0].allow_replacement;
        if entry.do_not_queue && !can_replace {
            // "Since we can't be queued if we are already in the queue, remove us."
            q.retain(|e| e.conn != conn);
            return (3, vec![]);
        }
        if !can_replace {
            match q.iter_mut().find(|e| e.conn == conn) {
                Some(e) => *e = entry,
                None => q.push(entry),
            }
            return (2, vec![]);
        }
        // Replace the primary owner. The old owner stays next in line unless it asked not to be
        // queued.
        let old = q[0].clone();
        q.retain(|e| e.conn != conn);
        q.insert(0, entry);
        if old.do_not_queue {
            q.remove(1);
        }
        (
            1,
            vec![
                Emit::NameLost {
                    to: old.conn.clone(),
                    name: name.into(),
                },
                Emit::NameOwnerChanged {
                    name: name.into(),
                    old: old.conn,
                    new: conn.into(),
                },
                Emit::NameAcquired {
                    to: conn.into(),
                    name: name.into(),
                },
            ],
        )
    }

    /// `ReleaseName`: reply code and the signals emitted.
    pub fn release_name(&mut self, conn: &str, name: &str) -> (u32, Vec<Emit>) {
        let Some(q) = self.names.get_mut(name) else {
            return (2, vec![]);
        };
        let Some(pos) = q.iter().position(|e| e.conn == conn) else {
            return (3, vec![]);
        };
        q.remove(pos);
        let mut out = vec![];
        if pos == 0 {
            out.push(Emit::NameLost {
                to: conn.into(),
                name: name.into(),
            });
            let new = q.first().map(|e| e.conn.clone()).unwrap_or_default();
            out.push(Emit::NameOwnerChanged {
                name: name.into(),
                old: conn.into(),
                new: new.clone(),
            });
            if !new.is_empty() {
                out.push(Emit::NameAcquired {
                    to: new,
                    name: name.into(),
                });
            }
        }
        if q.is_empty() {
            self.names.remove(name);
        }
        (1, out)
    }
}

// ---------------------------------------------------------------------------------------------
// Pure model: match rules (bus side)
// ---------------------------------------------------------------------------------------------

/// A match rule as the bus sees it: parsed from the rule string the connection sent.
#[derive(Clone, Debug, Default, PartialEq, Eq)]
pub struct BusRule {
    pub typ: Option<String>,
    pub sender: Option<String>,
    pub interface: Option<String>,
    pub member: Option<String>,
    pub path: Option<String>,
    pub path_namespace: Option<String>,
    pub destination: Option<String>,
    pub args: Vec<(u8, String)>,
    pub arg0namespace: Option<String>,
}

/// Parse `key='value',key='value'` (the only quoting form zbus emits; values used by the checks
/// contain neither quotes nor commas nor backslashes — anything else is refused).
pub fn parse_rule(s: &str) -> Result<BusRule, String> {
    let mut r = BusRule::default();
    let mut rest = s;
    while !rest.is_empty() {
        let eq = rest.find('=').ok_or_else(|| format!("rule `{s}`: missing `=`"))?;
        let key = &rest[..eq];
        let after = &rest[eq + 1..];
        if !after.starts_with('\'') {
            return Err(format!("rule `{s}`: unquoted value"));
        }
        let close = after[1..]
            .find('\'')
            .ok_or_else(|| format!("rule `{s}`: unterminated quote"))?;
        let val = &after[1..1 + close];
        if val.contains('\\') {
            return Err(format!("rule `{s}`: backslash in value"));
        }
        rest = &after[close + 2..];
        if let Some(x) = rest.strip_prefix(',') {
            rest = x;
        } else if !rest.is_empty() {
            return Err(format!("rule `{s}`: junk after value"));
        }
        let v = Some(val.to_string());
        match key {
            "type" => r.typ = v,
            "sender" => r.sender = v,
            "interface" => r.interface = v,
            "member" => r.member = v,
            "path" => r.path = v,
            "path_namespace" => r.path_namespace = v,
            "destination" => r.destination = v,
            "arg0namespace" => r.arg0namespace = v,
            k if k.starts_with("arg") && k[3..].parse::<u8>().is_ok() => {
                r.args.push((k[3..].parse().unwrap(), val.to_string()))
            }
            k => return Err(format!("rule `{s}`: key `{k}` not supported by the fake bus")),
        }
    }
    Ok(r)
}

/// A signal as the bus routes it.
#[derive(Clone, Debug, PartialEq, Eq)]
pub struct Sig {
    /// Unique name of the sender (or `org.freedesktop.DBus` for the driver).
    pub sender: String,
    pub path: String,
    pub interface: String,
    pub member: String,
    /// `Some` = unicast.
    pub destination: Option<String>,
    pub body: SigBody,
}

#[derive(Clone, Debug, PartialEq, Eq)]
pub enum SigBody {
    /// String arguments (signature `s`, `ss`, `sss`).
    Strs(Vec<String>),
    /// One `u` argument.
    U32(u32),
}

impl BusRule {
    /// Bus-side evaluation (spec "Match Rules"), for signals only.
    pub fn matches(&self, sig: &Sig, names: &NameTable) -> bool {
        if let Some(t) = &self.typ {
            if t != "signal" {
                return false;
            }
        }
        if let Some(s) = &self.sender {
            let ok = if s.starts_with(':') || s == DRIVER {
                *s == sig.sender
            } else {
                names.owner(s) == Some(sig.sender.as_str())
            };
            if !ok {
                return false;
            }
        }
        if let Some(i) = &self.interface {
            if *i != sig.interface {
                return false;
            }
        }
        if let Some(m) = &self.member {
            if *m != sig.member {
                return false;
            }
        }
        if let Some(p) = &self.path {
            if *p != sig.path {
                return false;
            }
        }
        if let Some(ns) = &self.path_namespace {
            let ok = sig.path == *ns
                || ns == "/"
                || (sig.path.starts_with(ns.as_str()) && sig.path[ns.len()..].starts_with('/'));
            if !ok {
                return false;
            }
        }
        if let Some(d) = &self.destination {
            if sig.destination.as_deref() != Some(d.as_str()) {
                return false;
            }
        }
        let strs: &[String] = match &sig.body {
            SigBody::Strs(v) => v,
            SigBody::U32(_) => &[],
        };
        for (i, want) in &self.args {
            if strs.get(*i as usize) != Some(want) {
                return false;
            }
        }
        if let Some(ns) = &self.arg0namespace {
            match strs.first() {
                Some(a) if a == ns || (a.starts_with(ns.as_str()) && a[ns.len()..].starts_with('.')) => {}
                _ => return false,
            }
        }
        true
    }
}

#[derive(Clone, Debug, Default, PartialEq, Eq)]
pub struct MatchTable {
    /// rule string -> how many times it is currently registered.
    pub rules: BTreeMap<String, usize>,
}

impl MatchTable {
    pub fn add(&mut self, rule: &str) {
        *self.rules.entry(rule.to_string()).or_insert(0) += 1;
    }
    /// false = not registered (the bus answers MatchRuleNotFound).
    pub fn remove(&mut self, rule: &str) -> bool {
        match self.rules.get_mut(rule) {
            Some(n) => {
                *n -= 1;
                if *n == 0 {
                    self.rules.remove(rule);
                }
                true
            }
            None => false,
        }
    }
    pub fn count(&self, rule: &str) -> usize {
        self.rules.get(rule).cloned().unwrap_or(0)
    }
}

// ---------------------------------------------------------------------------------------------
// Wire layer
// ---------------------------------------------------------------------------------------------

/// One method call the bus received from the connection.
#[derive(Clone, Debug, PartialEq, Eq)]
pub struct Call {
    pub member: String,
    /// String arguments (flags rendered in decimal).
    pub args: Vec<String>,
    /// What the bus answered: `ok`, `ok:<value>`, `err:<name>`, or `held`.
    pub answer: String,
}

/// Something another peer does on the bus IMMEDIATELY after the bus has answered our
/// `RequestName(name)` with one of `on_codes` — before the bus looks at any further call of ours
/// (so the driver signals it causes travel right behind that reply).
#[derive(Clone, Debug, PartialEq, Eq)]
pub struct Armed {
    pub name: String,
    pub on_codes: Vec<u32>,
    pub peer: String,
    /// `Some(flags)` = the peer calls RequestName(name, flags); `None` = it calls ReleaseName(name).
    pub peer_request_flags: Option<u32>,
}

#[derive(PartialEq, Eq, Debug)]
enum Phase {
    Sasl,
    Messages,
}

pub struct Bus {
    pub link: Link,
    pub names: NameTable,
    pub matches: MatchTable,
    phase: Phase,
    consumed: usize,
    /// Every method call seen, in order.
    pub calls: Vec<Call>,
    /// `AddMatch` of a rule string that was already registered (rule, count after).
    pub double_adds: Vec<(String, usize)>,
    /// Refuse the next N AddMatch calls with LimitsExceeded (as a bus whose per-connection match
    /// rule limit is reached does).
    pub refuse_add_match: usize,
    /// Armed peer action (see `Armed`); disarmed when it fires.
    pub armed: Option<Armed>,
    /// How often an armed action has fired.
    pub armed_fired: usize,
    /// Members whose calls are parked instead of answered (answered by `release_held`).
    pub hold: Vec<String>,
    held: VecDeque<Message>,
    /// Short description of everything pushed to the connection.
    pub sent: Vec<String>,
    /// Problems of the machinery itself (unparseable traffic, unsupported rule keys, ...).
    pub errors: Vec<String>,
    /// Non-driver traffic written by the connection (not expected in these checks).
    pub other: Vec<String>,
}

fn bus_name(s: &str) -> BusName<'static> {
    BusName::try_from(s.to_string()).expect("fake bus: bad bus name")
}
fn uniq(s: &str) -> UniqueName<'static> {
    UniqueName::try_from(s.to_string()).expect("fake bus: bad unique name")
}

impl Bus {
    pub fn new() -> Self {
        Self {
            link: Link::new(),
            names: NameTable::default(),
            matches: MatchTable::default(),
            phase: Phase::Sasl,
            consumed: 0,
            calls: vec![],
            double_adds: vec![],
            refuse_add_match: 0,
            armed: None,
            armed_fired: 0,
            hold: vec![],
            held: VecDeque::new(),
            sent: vec![],
            errors: vec![],
            other: vec![],
        }
    }

    pub fn n_calls(&self, member: &str) -> usize {
        self.calls.iter().filter(|c| c.member == member).count()
    }

    pub fn n_held(&self) -> usize {
        self.held.len()
    }

    fn push(&mut self, m: &Message, what: String) {
        self.sent.push(what);
        self.link.b2a.push(&m.data()[..], vec![]);
    }

    fn reply<B>(&mut self, call: &Message, body: &B, what: &str)
    where
        B: serde::Serialize + zbus::zvariant::DynamicType,
    {
        let m = Message::method_return(&call.header())
            .unwrap()
            .sender(uniq(DRIVER))
            .unwrap()
            .destination(bus_name(US))
            .unwrap()
            .build(body)
            .expect("fake bus: build reply");
        self.push(&m, format!("reply {what}"));
    }

    fn reply_err(&mut self, call: &Message, name: &str, text: &str) {
        let m = Message::error(&call.header(), name.to_string())
            .unwrap()
            .sender(uniq(DRIVER))
            .unwrap()
            .destination(bus_name(US))
            .unwrap()
            .build(&(text,))
            .expect("fake bus: build error");
        self.push(&m, format!("error {name}"));
    }

    /// Put a signal on the wire to the connection, unconditionally.
    pub fn send_signal(&mut self, sig: &Sig) {
        let mut b = Message::signal(sig.path.clone(), sig.interface.clone(), sig.member.clone())
            .expect("fake bus: signal")
            .sender(uniq(&sig.sender))
            .unwrap();
        if let Some(d) = &sig.destination {
            b = b.destination(bus_name(d)).unwrap();
        }
        let m = match &sig.body {
            SigBody::Strs(v) => match v.len() {
                0 => b.build(&()),
                1 => b.build(&(v[0].as_str(),)),
                2 => b.build(&(v[0].as_str(), v[1].as_str())),
                3 => b.build(&(v[0].as_str(), v[1].as_str(), v[2].as_str())),
                _ => panic!("fake bus: too many string args"),
            },
            SigBody::U32(x) => b.build(&(*x,)),
        }
        .expect("fake bus: build signal");
        let what = format!(
            "signal {}.{} from {}{} {:?}",
            sig.interface,
            sig.member,
            sig.sender,
            match &sig.destination {
                Some(d) => format!(" to {d}"),
                None => " (broadcast)".to_string(),
            },
            sig.body
        );
        self.push(&m, what);
    }

    /// Would the bus deliver this signal to the connection?
    pub fn would_deliver(&mut self, sig: &Sig) -> bool {
        match &sig.destination {
            Some(d) => d == US,
            None => {
                let mut hit = false;
                let rules: Vec<String> = self.matches.rules.keys().cloned().collect();
                for r in rules {
                    match parse_rule(&r) {
                        Ok(rule) => hit |= rule.matches(sig, &self.names),
                        Err(e) => self.errors.push(e),
                    }
                }
                hit
            }
        }
    }

    /// Route a signal like a bus: unicast to us → delivered; broadcast → delivered iff one of our
    /// registered rules matches. Returns whether it was delivered.
    pub fn route_signal(&mut self, sig: &Sig) -> bool {
        let d = self.would_deliver(sig);
        if d {
            self.send_signal(sig);
        }
        d
    }

    /// Deliver what the driver emits for a model transition (only what concerns us).
    pub fn emit(&mut self, emits: &[Emit]) {
        for e in emits {
            let sig = match e {
                Emit::NameOwnerChanged { name, old, new } => Sig {
                    sender: DRIVER.into(),
                    path: DRIVER_PATH.into(),
                    interface: DRIVER.into(),
                    member: "NameOwnerChanged".into(),
                    destination: None,
                    body: SigBody::Strs(vec![name.clone(), old.clone(), new.clone()]),
                },
                Emit::NameLost { to, name } => Sig {
                    sender: DRIVER.into(),
                    path: DRIVER_PATH.into(),
                    interface: DRIVER.into(),
                    member: "NameLost".into(),
                    destination: Some(to.clone()),
                    body: SigBody::Strs(vec![name.clone()]),
                },
                Emit::NameAcquired { to, name } => Sig {
                    sender: DRIVER.into(),
                    path: DRIVER_PATH.into(),
                    interface: DRIVER.into(),
                    member: "NameAcquired".into(),
                    destination: Some(to.clone()),
                    body: SigBody::Strs(vec![name.clone()]),
                },
            };
            self.route_signal(&sig);
        }
    }

    /// A driver signal forged by peer `from`: same path/interface/member/body as the genuine one,
    /// sent as a unicast to us; the bus stamps the peer's own unique name as sender.
    pub fn forge_driver_signal(&mut self, from: &str, member: &str, args: &[&str]) {
        let sig = Sig {
            sender: from.into(),
            path: DRIVER_PATH.into(),
            interface: DRIVER.into(),
            member: member.into(),
            destination: Some(US.into()),
            body: SigBody::Strs(args.iter().map(|s| s.to_string()).collect()),
        };
        self.route_signal(&sig);
    }

    // ---- environment: what other peers do on the bus ----

    pub fn peer_request_name(&mut self, peer: &str, name: &str, flags: u32) -> u32 {
        let (code, emits) = self.names.request_name(peer, name, flags);
        self.emit(&emits);
        code
    }

    pub fn peer_release_name(&mut self, peer: &str, name: &str) -> u32 {
        let (code, emits) = self.names.release_name(peer, name);
        self.emit(&emits);
        code
    }

    /// Force the owner of `name` (used by C32 where only the owner matters): `None` = no owner.
    /// Emits the genuine `NameOwnerChanged` if the owner actually changes.
    pub fn set_owner(&mut self, name: &str, new: Option<&str>) -> bool {
        let old = self.names.owner(name).map(|s| s.to_string());
        if old.as_deref() == new {
            return false;
        }
        match new {
            Some(n) => {
                self.names.names.insert(
                    name.to_string(),
                    vec![QEntry {
                        conn: n.to_string(),
                        allow_replacement: false,
                        do_not_queue: true,
                    }],
                );
            }
            None => {
                self.names.names.remove(name);
            }
        }
        self.emit(&[Emit::NameOwnerChanged {
            name: name.into(),
            old: old.unwrap_or_default(),
            new: new.unwrap_or_default().to_string(),
        }]);
        true
    }

    // ---- the connection's traffic ----

    /// Consume what the connection has written since the last call and answer it. Returns true
    /// if anything was consumed or sent.
    pub fn process(&mut self) -> bool {
        let all = self.link.a2b.written();
        let mut progressed = false;
        if self.phase == Phase::Sasl {
            loop {
                let buf = &all[self.consumed..];
                let buf = if self.consumed == 0 && buf.first() == Some(&0) {
                    self.consumed = 1;
                    &all[1..]
                } else {
                    buf
                };
                let Some(eol) = buf.windows(2).position(|w| w == b"\r\n") else {
                    break;
                };
                let line = String::from_utf8_lossy(&buf[..eol]).to_string();
                self.consumed += eol + 2;
                progressed = true;
                if line.starts_with("AUTH") {
                    self.link.b2a.push(format!("OK {GUID}\r\n").as_bytes(), vec![]);
                } else if line == "NEGOTIATE_UNIX_FD" {
                    self.link.b2a.push(b"AGREE_UNIX_FD\r\n", vec![]);
                } else if line == "BEGIN" {
                    self.phase = Phase::Messages;
                    break;
                } else {
                    self.link
                        .b2a
                        .push(b"ERROR \"unknown command\"\r\n", vec![]);
                }
            }
            if self.phase == Phase::Sasl {
                return progressed;
            }
        }
        let tail = &all[self.consumed..];
        let (ranges, _rest) = split_messages(tail);
        for r in ranges {
            let bytes = &tail[r.clone()];
            self.consumed += r.len();
            progressed = true;
            match parse_message(bytes) {
                Ok(m) => self.handle(m),
                Err(e) => self.errors.push(format!("unparseable message from the connection: {e}")),
            }
        }
        progressed
    }

    /// Answer the parked calls now (with the model's current state).
    pub fn release_held(&mut self) -> usize {
        let n = self.held.len();
        let hold = std::mem::take(&mut self.hold);
        while let Some(m) = self.held.pop_front() {
            self.handle(m);
        }
        self.hold = hold;
        n
    }

    fn handle(&mut self, m: Message) {
        let hdr = m.header();
        let member = hdr.member().map(|x| x.to_string()).unwrap_or_default();
        let dest = hdr.destination().map(|d| d.to_string());
        if m.message_type() != zbus::message::Type::MethodCall || dest.as_deref() != Some(DRIVER) {
            self.other.push(format!(
                "{:?} dest={:?} member={member}",
                m.message_type(),
                dest
            ));
            if m.message_type() == zbus::message::Type::MethodCall {
                drop(hdr);
                self.reply_err(&m, ERR_SERVICE_UNKNOWN, "no such name on the fake bus");
            }
            return;
        }
        drop(hdr);
        if self.hold.iter().any(|h| *h == member) {
            self.calls.push(Call {
                member,
                args: vec![],
                answer: "held".into(),
            });
            self.held.push_back(m);
            return;
        }
        let body = m.body();
        let one = || body.deserialize::<String>().ok();
        let mut call = Call {
            member: member.clone(),
            args: vec![],
            answer: String::new(),
        };
        match member.as_str() {
            "Hello" => {
                self.reply(&m, &(US,), "Hello");
                // The bus announces the unique name to its new owner.
                self.emit(&[Emit::NameAcquired {
                    to: US.into(),
                    name: US.into(),
                }]);
                call.answer = format!("ok:{US}");
            }
            "AddMatch" => match one() {
                Some(rule) if self.refuse_add_match > 0 => {
                    self.refuse_add_match -= 1;
                    call.args = vec![rule];
                    call.answer = "err:org.freedesktop.DBus.Error.LimitsExceeded".into();
                    self.reply_err(&m, "org.freedesktop.DBus.Error.LimitsExceeded", "Connection is not allowed to add more match rules");
                }
                Some(rule) => {
                    if let Err(e) = parse_rule(&rule) {
                        self.errors.push(e);
                    }
                    self.matches.add(&rule);
                    let n = self.matches.count(&rule);
                    if n > 1 {
                        self.double_adds.push((rule.clone(), n));
                    }
                    call.args = vec![rule];
                    call.answer = "ok".into();
                    self.reply(&m, &(), "AddMatch");
                }
                None => self.errors.push("AddMatch without a string body".into()),
            },
            "RemoveMatch" => match one() {
                Some(rule) => {
                    let ok = self.matches.remove(&rule);
                    call.args = vec![rule];
                    if ok {
                        call.answer = "ok".into();
                        self.reply(&m, &(), "RemoveMatch");
                    } else {
                        call.answer = format!("err:{ERR_NO_MATCH}");
                        self.reply_err(&m, ERR_NO_MATCH, "The given match rule wasn't found and can't be removed");
                    }
                }
                None => self.errors.push("RemoveMatch without a string body".into()),
            },
            "RequestName" => match body.deserialize::<(String, u32)>() {
                Ok((name, flags)) => {
                    let (code, emits) = self.names.request_name(US, &name, flags);
                    self.emit(&emits);
                    call.args = vec![name.clone(), flags.to_string()];
                    call.answer = format!("ok:{code}");
                    self.reply(&m, &(code,), &format!("RequestName={code}"));
                    if let Some(a) = self.armed.take() {
                        if a.name == name && a.on_codes.contains(&code) {
                            self.armed_fired += 1;
                            match a.peer_request_flags {
                                Some(f) => {
                                    self.peer_request_name(&a.peer, &name, f);
                                }
                                None => {
                                    self.peer_release_name(&a.peer, &name);
                                }
                            }
                        } else {
                            self.armed = Some(a);
                        }
                    }
                }
                Err(e) => self.errors.push(format!("RequestName body: {e}")),
            },
            "ReleaseName" => match one() {
                Some(name) => {
                    let (code, emits) = self.names.release_name(US, &name);
                    self.emit(&emits);
                    call.args = vec![name];
                    call.answer = format!("ok:{code}");
                    self.reply(&m, &(code,), &format!("ReleaseName={code}"));
                }
                None => self.errors.push("ReleaseName without a string body".into()),
            },
            "GetNameOwner" => match one() {
                Some(name) => {
                    let owner = if name == US {
                        Some(US.to_string())
                    } else {
                        self.names.owner(&name).map(|s| s.to_string())
                    };
                    call.args = vec![name.clone()];
                    match owner {
                        Some(o) => {
                            call.answer = format!("ok:{o}");
                            self.reply(&m, &(o.as_str(),), &format!("GetNameOwner={o}"));
                        }
                        None => {
                            call.answer = format!("err:{ERR_NO_OWNER}");
                            self.reply_err(
                                &m,
                                ERR_NO_OWNER,
                                &format!("Could not get owner of name '{name}': no such name"),
                            );
                        }
                    }
                }
                None => self.errors.push("GetNameOwner without a string body".into()),
            },
            "NameHasOwner" => match one() {
                Some(name) => {
                    let has = name == US || self.names.owner(&name).is_some();
                    call.args = vec![name];
                    call.answer = format!("ok:{has}");
                    self.reply(&m, &(has,), "NameHasOwner");
                }
                None => self.errors.push("NameHasOwner without a string body".into()),
            },
            "GetId" => {
                call.answer = "ok".into();
                self.reply(&m, &(GUID,), "GetId");
            }
            "Ping" => {
                call.answer = "ok".into();
                self.reply(&m, &(), "Ping");
            }
            other => {
                call.answer = format!("err:{ERR_UNKNOWN_METHOD}");
                self.reply_err(&m, ERR_UNKNOWN_METHOD, &format!("fake bus: no method {other}"));
            }
        }
        self.calls.push(call);
    }
}

// ---------------------------------------------------------------------------------------------
// Driving a world that contains a fake bus
// ---------------------------------------------------------------------------------------------

/// Run the world to quiescence, let the bus answer, repeat until nothing changes.
pub fn pump(w: &mut World, bus: &mut Bus) {
    for _ in 0..10_000 {
        w.settle();
        if !bus.process() {
            return;
        }
    }
    w.hit_horizon = true;
}

/// Run one API call as a root task with the bus answering while it is in flight. `None` = the
/// call is still pending although nothing is enabled and the bus has nothing left to answer.
pub fn run<T: Send + 'static>(
    w: &mut World,
    bus: &mut Bus,
    name: &str,
    fut: impl std::future::Future<Output = T> + Send + 'static,
) -> Option<T> {
    let h = w.spawn(name, fut);
    pump(w, bus);
    h.take()
}

/// Start an API call and leave it in flight (e.g. with some bus methods on hold).
pub fn start<T: Send + 'static>(
    w: &mut World,
    bus: &mut Bus,
    name: &str,
    fut: impl std::future::Future<Output = T> + Send + 'static,
) -> Handle<T> {
    let h = w.spawn(name, fut);
    pump(w, bus);
    h
}

/// A real zbus *bus* connection (client SASL handshake, pipelined Hello, unique name `:1.1`)
/// facing the fake bus; no internal executor thread (all tasks live in the world's pool).
pub fn connect(w: &mut World, bus: &mut Bus) -> Result<zbus::Connection, String> {
    let sock = bus.link.end_a(SockCfg::default());
    let r = run(w, bus, "build-bus-connection", async move {
        zbus::connection::Builder::socket(sock)
            .internal_executor(false)
            .build()
            .await
    });
    match r {
        None => Err("connection build did not complete against the fake bus".into()),
        Some(Err(e)) => Err(format!("connection build failed against the fake bus: {e}")),
        Some(Ok(c)) => {
            if !c.is_bus() {
                return Err("connection is not a bus connection".into());
            }
            if c.unique_name().map(|n| n.as_str()) != Some(US) {
                return Err(format!("unexpected unique name {:?}", c.unique_name()));
            }
            Ok(c)
        }
    }
}

// ---------------------------------------------------------------------------------------------
// Per-chunk accumulation for the history-tree checks (keeps the shared Report mutexes cold)
// ---------------------------------------------------------------------------------------------

#[derive(Default)]
pub struct Acc {
    pub evals: u64,
    pub transitions: u64,
    pub outcomes: BTreeMap<String, u64>,
    pub states: std::collections::HashSet<u64>,
    pub logs: std::collections::HashSet<u64>,
    pub nontrivial: Vec<u64>,
}

impl Acc {
    pub fn outcome(&mut self, class: &str) {
        *self.outcomes.entry(class.to_string()).or_insert(0) += 1;
    }
}

/// Totals of a history-tree exploration.
#[derive(Default)]
pub struct TreeTotals {
    pub states: std::sync::Mutex<std::collections::HashSet<u64>>,
    pub logs: std::sync::Mutex<std::collections::HashSet<u64>>,
}

/// Run `f(i, acc)` for every `i in 0..n` on all cores in chunks; each chunk's accumulator is
/// folded into the report once.
pub fn par_histories(
    report: &vcommon::Report,
    totals: &TreeTotals,
    n: usize,
    chunk: usize,
    f: impl Fn(usize, &mut Acc) + Sync,
) {
    let n_chunks = n.div_ceil(chunk.max(1));
    vcommon::par_for(n_chunks, 1, |c| {
        let mut acc = Acc::default();
        for i in c * chunk..((c + 1) * chunk).min(n) {
            f(i, &mut acc);
        }
        report.eval(acc.evals);
        report.add("transitions", acc.transitions);
        for (k, v) in &acc.outcomes {
            report.outcome_n(k, *v);
        }
        report.nontrivial_many(acc.nontrivial.iter().cloned());
        totals.states.lock().unwrap().extend(acc.states.iter().cloned());
        totals.logs.lock().unwrap().extend(acc.logs.iter().cloned());
    });
}

/// Common evidence keys of the history-tree checks.
pub fn finish_tree(report: &vcommon::Report, totals: &TreeTotals, states_meaning: &str) {
    report.set("states", serde_json::json!(totals.states.lock().unwrap().len().max(1)));
    report.set("traces_validated_against_impl", serde_json::json!(report.evaluations()));
    report.set("distinct_observation_logs", serde_json::json!(totals.logs.lock().unwrap().len()));
    report.set("states_meaning", serde_json::json!(states_meaning));
}

// ---------------------------------------------------------------------------------------------
// Audit of the pure model against the real dbus-daemon
// ---------------------------------------------------------------------------------------------

// (see `audit_against_daemon` below)

#[derive(Debug)]
pub enum AuditError {
    /// The daemon could not be started / reached: the audit says nothing.
    Unavailable(String),
    /// The pure model and the daemon disagree: machinery error, never a verdict.
    Disagreement(String),
}

/// Audit of `NameTable`, `MatchTable`, the error names, unicast delivery of driver look-alike
/// signals and the resolution of a well-known `sender=` in match rules against a private
/// `dbus-daemon` (1.14 in this sandbox) on a unix socket under `$VERIF_ROOT/.run`.
///
/// Two real connections A ("us") and B ("the other peer") are driven through zbus's blocking API
/// used as a dumb transport: every call is built by hand, sent with `send`, and everything A
/// receives is read from its unfiltered message iterator up to the reply — so the ORDER of
/// driver signals and replies is compared too. All sequences of `depth` operations over
/// {A.RequestName(f) f∈{0,1,2,4}, A.ReleaseName, B.RequestName(f) f∈{0,2,3,6}, B.ReleaseName}
/// are replayed on both; after every operation the reply code, the signals A received (all
/// NameOwnerChanged for the name plus NameLost/NameAcquired addressed to A) and the daemon's
/// `ListQueuedOwners` are compared with the model.
///
/// Result when first run (2026-09-21, dbus-daemon 1.14.10): the model agreed with the daemon on
/// all 10^3 (quick aid) and 10^4 (thorough) operation sequences, including the order
/// NameLost → NameOwnerChanged → NameAcquired → method reply, the re-queueing of a replaced owner
/// that did not ask for DoNotQueue, and its silent re-acquisition when the replacer releases.
/// `audit::reacquire_after_replacement` additionally reproduces finding C36-F1 with zbus's own
/// name API against the daemon.
pub fn audit_against_daemon(depth: usize) -> Result<serde_json::Value, AuditError> {
    let (tx, rx) = std::sync::mpsc::channel();
    std::thread::spawn(move || {
        let _ = tx.send(audit::run(depth));
    });
    match rx.recv_timeout(std::time::Duration::from_secs(240)) {
        Ok(r) => r,
        Err(_) => Err(AuditError::Unavailable("audit timed out".into())),
    }
}

pub mod audit {
    use super::*;
    use std::{path::PathBuf, process::{Child, Command, Stdio}};
    use zbus::blocking::{connection::Builder, Connection, MessageIterator};

    struct Daemon {
        child: Child,
        dir: PathBuf,
    }
    impl Drop for Daemon {
        fn drop(&mut self) {
            let _ = self.child.kill();
            let _ = self.child.wait();
            let _ = std::fs::remove_dir_all(&self.dir);
        }
    }

    struct Peer {
        conn: Connection,
        it: MessageIterator,
        unique: String,
    }

    /// What a peer received, reduced to what the model talks about.
    #[derive(Debug, Clone, PartialEq, Eq)]
    enum Rx {
        Sig { sender: String, member: String, args: Vec<String> },
        Reply(String),
    }

    impl Peer {
        fn new(addr: &str) -> Result<Self, AuditError> {
            let conn = Builder::address(addr)
                .and_then(|b| b.build())
                .map_err(|e| AuditError::Unavailable(format!("connect to private dbus-daemon: {e}")))?;
            let it = MessageIterator::from(&conn);
            let unique = conn.unique_name().map(|n| n.to_string()).unwrap_or_default();
            Ok(Self { conn, it, unique })
        }

        /// Send a driver call; return everything received up to and including its reply.
        fn call<B: serde::Serialize + zbus::zvariant::DynamicType>(
            &mut self,
            member: &str,
            body: &B,
        ) -> Result<Vec<Rx>, AuditError> {
            let m = Message::method_call(DRIVER_PATH, member.to_string())
                .unwrap()
                .destination(DRIVER)
                .unwrap()
                .interface(DRIVER)
                .unwrap()
                .build(body)
                .map_err(|e| AuditError::Unavailable(format!("build call: {e}")))?;
            let serial = m.primary_header().serial_num();
            self.conn
                .send(&m)
                .map_err(|e| AuditError::Unavailable(format!("send: {e}")))?;
            let mut got = vec![];
            loop {
                let msg = match self.it.next() {
                    Some(Ok(m)) => m,
                    Some(Err(e)) => return Err(AuditError::Unavailable(format!("receive: {e}"))),
                    None => return Err(AuditError::Unavailable("connection closed".into())),
                };
                let hdr = msg.header();
                match msg.message_type() {
                    zbus::message::Type::Signal => {
                        let body = msg.body();
                        let args = if let Ok((a, b, c)) = body.deserialize::<(String, String, String)>() {
                            vec![a, b, c]
                        } else if let Ok((a,)) = body.deserialize::<(String,)>() {
                            vec![a]
                        } else {
                            vec![]
                        };
                        got.push(Rx::Sig {
                            sender: hdr.sender().map(|s| s.to_string()).unwrap_or_default(),
                            member: hdr.member().map(|s| s.to_string()).unwrap_or_default(),
                            args,
                        });
                    }
                    zbus::message::Type::MethodReturn | zbus::message::Type::Error
                        if hdr.reply_serial() == Some(serial) =>
                    {
                        let body = msg.body();
                        let r = if msg.message_type() == zbus::message::Type::Error {
                            format!("err:{}", hdr.error_name().map(|e| e.to_string()).unwrap_or_default())
                        } else if let Ok(c) = body.deserialize::<u32>() {
                            format!("ok:{c}")
                        } else if let Ok(s) = body.deserialize::<String>() {
                            format!("ok:{s}")
                        } else if let Ok(v) = body.deserialize::<Vec<String>>() {
                            format!("ok:{}", v.join(","))
                        } else {
                            "ok".to_string()
                        };
                        got.push(Rx::Reply(r));
                        return Ok(got);
                    }
                    _ => {}
                }
            }
        }
    }

    fn start_daemon() -> Result<(Daemon, String), AuditError> {
        let dir = vcommon::verif_root()
            .join(".run")
            .join(format!("fakebus-audit-{}", std::process::id()));
        std::fs::create_dir_all(&dir).map_err(|e| AuditError::Unavailable(format!("mkdir: {e}")))?;
        let sock = dir.join("bus.sock");
        let cfg = dir.join("bus.conf");
        let xml = format!(
            "<!DOCTYPE busconfig PUBLIC \"-//freedesktop//DTD D-Bus Bus Configuration 1.0//EN\"\n \"http://www.freedesktop.org/standards/dbus/1.0/busconfig.dtd\">\n<busconfig>\n  <type>session</type>\n  <listen>unix:path={}</listen>\n  <auth>EXTERNAL</auth>\n  <policy context=\"default\">\n    <allow send_destination=\"*\" eavesdrop=\"true\"/>\n    <allow eavesdrop=\"true\"/>\n    <allow own=\"*\"/>\n  </policy>\n</busconfig>\n",
            sock.display()
        );
        std::fs::write(&cfg, xml).map_err(|e| AuditError::Unavailable(format!("write config: {e}")))?;
        let child = Command::new("/usr/bin/dbus-daemon")
            .arg(format!("--config-file={}", cfg.display()))
            .arg("--nofork")
            .arg("--nopidfile")
            .stdin(Stdio::null())
            .stdout(Stdio::null())
            .stderr(Stdio::null())
            .spawn()
            .map_err(|e| AuditError::Unavailable(format!("spawn dbus-daemon: {e}")))?;
        let d = Daemon { child, dir };
        for _ in 0..300 {
            if sock.exists() {
                return Ok((d, format!("unix:path={}", sock.display())));
            }
            std::thread::sleep(std::time::Duration::from_millis(10));
        }
        Err(AuditError::Unavailable("dbus-daemon did not create its socket".into()))
    }

    /// What the model says A receives for a list of emitted signals.
    fn expect_rx(emits: &[Emit], a: &str, map: &dyn Fn(&str) -> String) -> Vec<Rx> {
        let mut v = vec![];
        for e in emits {
            match e {
                Emit::NameOwnerChanged { name, old, new } => v.push(Rx::Sig {
                    sender: DRIVER.into(),
                    member: "NameOwnerChanged".into(),
                    args: vec![name.clone(), map(old), map(new)],
                }),
                Emit::NameLost { to, name } if to == a => v.push(Rx::Sig {
                    sender: DRIVER.into(),
                    member: "NameLost".into(),
                    args: vec![name.clone()],
                }),
                Emit::NameAcquired { to, name } if to == a => v.push(Rx::Sig {
                    sender: DRIVER.into(),
                    member: "NameAcquired".into(),
                    args: vec![name.clone()],
                }),
                _ => {}
            }
        }
        v
    }

    /// One-off confirmation of C36-F1 on the real daemon with zbus's own name API (not part of
    /// any verdict): A owns x.y.N with AllowReplacement, B replaces A, B releases; the daemon
    /// hands the name back to A (A was kept in the queue), and A's `release_name` still says false.
    pub fn reacquire_after_replacement() -> Result<String, AuditError> {
        use zbus::fdo::RequestNameFlags;
        let (_daemon, addr) = start_daemon()?;
        let a = Builder::address(addr.as_str())
            .and_then(|b| b.build())
            .map_err(|e| AuditError::Unavailable(format!("connect: {e}")))?;
        let mut b = Peer::new(&addr)?;
        let name = "x.y.N";
        let una = |e: zbus::Error| AuditError::Unavailable(e.to_string());
        let r1 = a
            .request_name_with_flags(name, RequestNameFlags::AllowReplacement.into())
            .map_err(una)?;
        let rb = b.call("RequestName", &(name, F_REPLACE))?;
        std::thread::sleep(std::time::Duration::from_millis(200));
        let rb2 = b.call("ReleaseName", &(name,))?;
        std::thread::sleep(std::time::Duration::from_millis(200));
        let owner1 = b.call("GetNameOwner", &(name,))?;
        let rel = a.release_name(name).map_err(una)?;
        let owner2 = b.call("GetNameOwner", &(name,))?;
        Ok(format!(
            "A={} request(AllowReplacement)={r1:?}; B RequestName(ReplaceExisting)={:?}; B ReleaseName={:?}; daemon owner now {:?}; A.release_name()={rel}; daemon owner afterwards {:?}",
            a.unique_name().map(|n| n.to_string()).unwrap_or_default(),
            rb.last(),
            rb2.last(),
            owner1.last(),
            owner2.last()
        ))
    }

    pub fn run(depth: usize) -> Result<serde_json::Value, AuditError> {
        let (_daemon, addr) = start_daemon()?;
        let mut a = Peer::new(&addr)?;
        let mut b = Peer::new(&addr)?;
        let name = "x.y.N";
        let (ua, ub) = (a.unique.clone(), b.unique.clone());
        let map = move |c: &str| -> String {
            match c {
                "A" => ua.clone(),
                "B" => ub.clone(),
                other => other.to_string(),
            }
        };
        let bad = |what: String| Err(AuditError::Disagreement(what));
        let mut checks = 0u64;

        // -- error names and match multiset --
        let r = a.call("GetNameOwner", &(name,))?;
        if r.last() != Some(&Rx::Reply(format!("err:{ERR_NO_OWNER}"))) {
            return bad(format!("GetNameOwner of a free name: daemon {r:?}"));
        }
        let rule = "type='signal',sender='org.freedesktop.DBus',interface='org.freedesktop.DBus',member='NameOwnerChanged',arg0='x.y.N'";
        let mut mt = MatchTable::default();
        for (op, expect_ok) in [("AddMatch", true), ("AddMatch", true), ("RemoveMatch", true), ("RemoveMatch", true), ("RemoveMatch", false)] {
            let model_ok = if op == "AddMatch" { mt.add(rule); true } else { mt.remove(rule) };
            let r = a.call(op, &(rule,))?;
            let daemon_ok = r.last() == Some(&Rx::Reply("ok".into()));
            if !daemon_ok && r.last() != Some(&Rx::Reply(format!("err:{ERR_NO_MATCH}"))) {
                return bad(format!("{op}: unexpected daemon answer {r:?}"));
            }
            if model_ok != daemon_ok || model_ok != expect_ok {
                return bad(format!("{op} of `{rule}`: model ok={model_ok}, daemon {r:?}"));
            }
            checks += 1;
        }
        // A watches the name's ownership for the rest of the audit.
        a.call("AddMatch", &(rule,))?;

        // -- name model: all op sequences of the given depth --
        const OPS: [(&str, &str, u32); 10] = [
            ("A", "req", 0), ("A", "req", 1), ("A", "req", 2), ("A", "req", 4), ("A", "rel", 0),
            ("B", "req", 0), ("B", "req", 2), ("B", "req", 3), ("B", "req", 6), ("B", "rel", 0),
        ];
        let n = OPS.len().pow(depth as u32);
        let mut sequences = 0u64;
        for idx in 0..n {
            // reset: both release (drains A's queue too)
            b.call("ReleaseName", &(name,))?;
            a.call("ReleaseName", &(name,))?;
            a.call("GetId", &())?;
            let mut model = NameTable::default();
            let mut k = idx;
            let mut hist = vec![];
            for _ in 0..depth {
                let (who, what, flags) = OPS[k % OPS.len()];
                k /= OPS.len();
                hist.push(format!("{who}.{what}({flags})"));
                let (code, emits) = if what == "req" {
                    model.request_name(who, name, flags)
                } else {
                    model.release_name(who, name)
                };
                let mut want = expect_rx(&emits, "A", &map);
                let got = if who == "A" {
                    want.push(Rx::Reply(format!("ok:{code}")));
                    if what == "req" { a.call("RequestName", &(name, flags))? } else { a.call("ReleaseName", &(name,))? }
                } else {
                    let rb = if what == "req" { b.call("RequestName", &(name, flags))? } else { b.call("ReleaseName", &(name,))? };
                    let rb_reply = rb.iter().rev().find_map(|x| match x { Rx::Reply(r) => Some(r.clone()), _ => None });
                    if rb_reply != Some(format!("ok:{code}")) {
                        return bad(format!("history {hist:?}: model replies {code} to B, daemon {rb_reply:?}"));
                    }
                    // barrier on A: everything the daemon sent to A because of B's call precedes this reply
                    let mut g = a.call("GetId", &())?;
                    g.pop();
                    g
                };
                if got != want {
                    return bad(format!("history {hist:?}: model says A receives {want:?}, daemon sent {got:?}"));
                }
                let q = a.call("ListQueuedOwners", &(name,))?;
                let want_q = if model.queue(name).is_empty() {
                    // dbus-daemon answers NameHasNoOwner for a name without owners
                    format!("err:{ERR_NO_OWNER}")
                } else {
                    format!("ok:{}", model.queue(name).iter().map(|c| map(c)).collect::<Vec<_>>().join(","))
                };
                if q.last() != Some(&Rx::Reply(want_q.clone())) {
                    return bad(format!("history {hist:?}: model queue {want_q}, daemon {q:?}"));
                }
                checks += 2;
            }
            sequences += 1;
        }
        b.call("ReleaseName", &(name,))?;
        a.call("ReleaseName", &(name,))?;
        a.call("GetId", &())?;

        // -- a peer's driver look-alike signal, unicast to A, is delivered with the peer's sender --
        let forged = Message::signal(DRIVER_PATH, DRIVER, "NameLost")
            .unwrap()
            .destination(bus_name(&a.unique))
            .unwrap()
            .build(&(name,))
            .map_err(|e| AuditError::Unavailable(format!("build forged: {e}")))?;
        b.conn.send(&forged).map_err(|e| AuditError::Unavailable(format!("send forged: {e}")))?;
        b.call("GetId", &())?;
        let mut got = a.call("GetId", &())?;
        got.pop();
        let want = vec![Rx::Sig { sender: b.unique.clone(), member: "NameLost".into(), args: vec![name.into()] }];
        if got != want {
            return bad(format!("forged unicast NameLost from B: expected A to receive {want:?}, got {got:?}"));
        }
        checks += 1;

        // -- broadcast routing with a well-known sender in the rule follows the current owner --
        let sig_rule = "type='signal',sender='x.y.N',path='/p',interface='x.y.I',member='Sig'";
        a.call("AddMatch", &(sig_rule,))?;
        let mut model = NameTable::default();
        let parsed = parse_rule(sig_rule).map_err(AuditError::Disagreement)?;
        for owned in [true, false] {
            if owned {
                b.call("RequestName", &(name, 0u32))?;
                model.request_name(&b.unique, name, 0);
            } else {
                b.call("ReleaseName", &(name,))?;
                model.release_name(&b.unique, name);
            }
            let s = Message::signal("/p", "x.y.I", "Sig").unwrap().build(&(7u32,)).unwrap();
            b.conn.send(&s).map_err(|e| AuditError::Unavailable(format!("send signal: {e}")))?;
            b.call("GetId", &())?;
            let mut got = a.call("GetId", &())?;
            got.pop();
            let delivered = got.iter().any(|x| matches!(x, Rx::Sig { member, .. } if member == "Sig"));
            let model_says = parsed.matches(
                &Sig {
                    sender: b.unique.clone(),
                    path: "/p".into(),
                    interface: "x.y.I".into(),
                    member: "Sig".into(),
                    destination: None,
                    body: SigBody::U32(7),
                },
                &model,
            );
            if delivered != model_says {
                return bad(format!("broadcast from B (owns x.y.N: {owned}) under rule `{sig_rule}`: model delivers={model_says}, daemon delivered={delivered} ({got:?})"));
            }
            checks += 1;
        }
        Ok(serde_json::json!({
            "against": "private /usr/bin/dbus-daemon",
            "name_op_sequences": sequences,
            "depth": depth,
            "comparisons": checks,
            "covers": ["RequestName/ReleaseName reply codes", "order and content of NameLost/NameOwnerChanged/NameAcquired relative to the reply", "owners queue (ListQueuedOwners)", "NameHasNoOwner / MatchRuleNotFound error names", "AddMatch/RemoveMatch multiset", "unicast delivery of a peer's driver look-alike signal with the peer's sender", "well-known sender= resolved to the current owner for broadcasts"],
            "result": "agree",
        }))
    }
}
