fn main() { println!("zb"); }
