//! zb: checks that drive the real zbus code (built with --cfg zbus_verif).
//! Usage: zb <ID> [--tier quick|thorough] [--replay <path>]
#![allow(dead_code)]

mod explore;
mod fakebus;
mod bank;
mod refsasl;
mod refaddr;
mod refmatch;
mod refmsg;
mod sched;
mod world;
mod osrv;

mod c10guid;
mod c30;
mod c11;
mod c12;
mod c13;
mod c14;
mod c15;
mod c16;
mod c17;
mod c18;
mod c19;
mod c20;
mod c21;
mod c22;
mod c23;
mod c24;
mod c25;
mod c26;
mod c27;
mod c28;
mod c29;
mod c31;
mod c32;
mod c33;
mod c36;
mod c37;
mod c38;
mod c39;

fn main() {
    vcommon::quiet_panics();
    let args = vcommon::parse_args();
    let code = match args.id.as_str() {
        "C30" => c30::main(&args),
        "C10G" => {
            // GUID part of C10 (the rest runs in the zv crate); writes a part file for merging
            if let Some(p) = &args.replay {
                let j = vcommon::load_replay(p);
                let s = j["replay"]["string"].as_str().unwrap_or("");
                println!("zbus accepts {s:?} as a GUID: {}", c10guid::replay(s));
                0
            } else {
                let report = vcommon::Report::new("C10-guid-part", args.tier, args.seed, "exploration");
                c10guid::run(&report);
                let path = vcommon::verif_root().join(".run").join("C10-guid-part.json");
                let _ = std::fs::create_dir_all(path.parent().unwrap());
                if std::fs::write(&path, report.export_part().to_string()).is_err() {
                    vcommon::machinery_failure("cannot write the C10 GUID part");
                }
                0
            }
        }
        "C11" => c11::main(&args),
        "C12" => c12::main(&args),
        "C13" => c13::main(&args),
        "C14" => c14::main(&args),
        "C15" => c15::main(&args),
        "C16" => c16::main(&args),
        "C17" => c17::main(&args),
        "C18" => c18::main(&args),
        "C19" => c19::main(&args),
        "C20" => c20::main(&args),
        "C21" => c21::main(&args),
        "C22" => c22::main(&args),
        "C23" => c23::main(&args),
        "C24" => c24::main(&args),
        "C25" => c25::main(&args),
        "C26" => c26::main(&args),
        "C27" => c27::main(&args),
        "C28" => c28::main(&args),
        "C29" => c29::main(&args),
        "C31" => c31::main(&args),
        "C32" => c32::main(&args),
        "C33" => c33::main(&args),
        "C36" => c36::main(&args),
        "C37" => c37::main(&args),
        "C38" => c38::main(&args),
        "C39" => c39::main(&args),
        other => vcommon::machinery_failure(&format!("zb: unknown property id {other}")),
    };
    std::process::exit(code);
}
