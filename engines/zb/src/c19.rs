//! C19 — every method call receives its own reply and only its own reply.
//!
//! A real connection faces a scripted peer. Callers are root tasks; the peer's emissions (reply or
//! error to any call it has seen, a stray reply with an unknown serial, an unrelated signal, EOF)
//! and virtual timer expiry are environment events. All orders are explored by DFS with a
//! deviation bound.

use std::{collections::BTreeMap, sync::Mutex, time::Duration};

use serde_json::json;
use vcommon::{Args, Report};
use zbus::{connection::Builder, message::Type, Message};

use crate::{
    explore::ExecResult,
    sched::{finish_model_checking, run_scenario, v, SchedPlan, Totals},
    world::{parse_message, split_messages, Handle, Link, SockCfg, Step, World, GUID},
};

#[derive(Clone, Copy, Debug)]
struct Params {
    callers: usize,
    noreply: bool,
    timeout: bool,
    eof: bool,
    /// number of inbound queue slots for replies (DEFAULT_MAX_METHOD_RETURN_QUEUED is 8); extra
    /// stray replies are used to fill it
    strays: usize,
    /// offer "reply to call i followed by 9 stray replies, all in one read" as an event
    burst: bool,
    /// false: every caller uses `Connection::call_method`; true: even callers use
    /// `Proxy::call_method`, odd callers `Proxy::call_with_flags(NoAutoStart | AllowInteractiveAuth)`
    /// and the no-reply call is `call_with_flags(NoReplyExpected | NoAutoStart)`
    via_proxy: bool,
    /// the writing task yields once right after each write took effect (the peer has the call,
    /// and may answer it, before `send` returns to the caller)
    yield_after_write: bool,
}

#[derive(Clone, Debug, PartialEq)]
enum Env {
    Reply(usize),
    Error(usize),
    Stray,
    Signal,
    Eof,
    Timer(usize),
    /// the reply to call i immediately followed by more stray replies than the reply queue
    /// holds, delivered in a single read
    BurstReplyThenStrays(usize),
}

#[derive(Debug)]
enum CallResult {
    Ok { reply_serial: Option<u32>, mtype: Type },
    /// completed through an API that only hands out the decoded body (the peer puts the caller's
    /// index into the body of its return)
    OkBody(Option<u32>),
    MethodError { reply_serial: Option<u32>, name: String },
    OtherErr(String),
}

async fn mk_proxy(c: &zbus::Connection) -> zbus::Result<zbus::Proxy<'static>> {
    zbus::proxy::Builder::<zbus::Proxy<'_>>::new(c)
        .destination("a.b")?
        .path("/p")?
        .interface("a.b")?
        .cache_properties(zbus::proxy::CacheProperties::No)
        .build()
        .await
}

fn scenario(p: Params) -> ExecResult {
    let mut w = World::new();
    w.horizon = 300;
    let link = Link::new();
    let sock = link.end_a(SockCfg::default());
    let timeout = p.timeout;
    let conn = w
        .complete("build", async move {
            let mut b = Builder::authenticated_socket(sock, GUID)
                .unwrap()
                .p2p()
                .internal_executor(false);
            if timeout {
                b = b.method_timeout(Duration::from_secs(5));
            }
            b.build().await.unwrap()
        })
        .expect("build");
    if p.yield_after_write {
        link.a2b.with(|c| c.write_mode = crate::world::WriteMode::YieldAfter);
    }
    // callers
    let mut callers: Vec<Handle<CallResult>> = vec![];
    for i in 0..p.callers {
        let c = conn.clone();
        let via_proxy = p.via_proxy;
        callers.push(w.spawn(&format!("caller{i}"), async move {
            let r = if via_proxy {
                let proxy = match mk_proxy(&c).await {
                    Ok(p) => p,
                    Err(e) => return CallResult::OtherErr(e.to_string()),
                };
                if i % 2 == 0 {
                    proxy.call_method(format!("M{i}").as_str(), &()).await
                } else {
                    use zbus::proxy::MethodFlags;
                    match proxy
                        .call_with_flags::<_, _, u32>(
                            format!("M{i}").as_str(),
                            MethodFlags::NoAutoStart | MethodFlags::AllowInteractiveAuth,
                            &(),
                        )
                        .await
                    {
                        Ok(v) => return CallResult::OkBody(v),
                        Err(e) => Err(e),
                    }
                }
            } else {
                c.call_method(None::<&str>, "/p", Some("a.b"), format!("M{i}").as_str(), &())
                    .await
            };
            match r {
                Ok(m) => CallResult::Ok {
                    reply_serial: m.header().reply_serial().map(|s| s.get()),
                    mtype: m.message_type(),
                },
                Err(zbus::Error::MethodError(name, _, m)) => CallResult::MethodError {
                    reply_serial: m.header().reply_serial().map(|s| s.get()),
                    name: name.to_string(),
                },
                Err(e) => CallResult::OtherErr(e.to_string()),
            }
        }));
    }
    let noreply: Option<Handle<Result<(), String>>> = if p.noreply {
        let c = conn.clone();
        let via_proxy = p.via_proxy;
        Some(w.spawn("noreply", async move {
            let proxy = mk_proxy(&c).await.map_err(|e| e.to_string())?;
            if via_proxy {
                use zbus::proxy::MethodFlags;
                match proxy
                    .call_with_flags::<_, _, u32>("N", MethodFlags::NoReplyExpected | MethodFlags::NoAutoStart, &())
                    .await
                {
                    Ok(None) => Ok(()),
                    Ok(Some(v)) => Err(format!("a no-reply call returned a value: {v}")),
                    Err(e) => Err(e.to_string()),
                }
            } else {
                proxy.call_noreply("N", &()).await.map_err(|e| e.to_string())
            }
        }))
    } else {
        None
    };

    // peer state
    let mut seen: BTreeMap<usize, u32> = BTreeMap::new(); // caller -> serial (from the wire)
    let mut answered: BTreeMap<usize, &'static str> = BTreeMap::new();
    let mut strays = 0usize;
    let mut signal_sent = false;
    let mut eof = false;
    let mut timers_fired: Vec<usize> = vec![];
    let mut noreply_seen_on_wire = false;
    let mut inbound_before_noreply_done = 0usize;
    let mut noreply_done_logged = false;
    let mut wire_cursor = 0usize;
    let mut peer_serial = 1000u32;
    let mut burst_done = false;
    let mut no_timer_reported = false;
    let mut no_timer: Option<String> = None;

    loop {
        // observe what the connection wrote
        let out = link.a2b.written();
        let (msgs, _) = split_messages(&out[wire_cursor..]);
        let mut adv = 0;
        for r in &msgs {
            if let Ok(m) = parse_message(&out[wire_cursor + r.start..wire_cursor + r.end]) {
                let h = m.header();
                if let Some(mem) = h.member() {
                    let mem = mem.as_str();
                    if let Some(i) = mem.strip_prefix('M').and_then(|s| s.parse::<usize>().ok()) {
                        seen.insert(i, m.primary_header().serial_num().get());
                    }
                    if mem == "N" {
                        noreply_seen_on_wire = true;
                    }
                }
            }
            adv = r.end;
        }
        wire_cursor += adv;
        if let Some(h) = &noreply {
            if h.is_done() && !noreply_done_logged {
                noreply_done_logged = true;
                w.obs(format!(
                    "noreply call completed; inbound messages delivered before: {inbound_before_noreply_done}"
                ));
            }
        }
        let all_done = callers.iter().all(|c| c.is_done())
            && noreply.as_ref().map(|h| h.is_done()).unwrap_or(true);
        if all_done {
            break;
        }
        // with a method timeout configured, every call that is waiting for its reply must have
        // armed a (virtual) timer: otherwise "the configured method timeout passes" could never
        // complete it
        if p.timeout && w.enabled().is_empty() && !no_timer_reported {
            let waiting = callers
                .iter()
                .enumerate()
                .filter(|(i, c)| !c.is_done() && seen.contains_key(i) && !answered.contains_key(i))
                .count();
            let armed = zbus::verif::pending_timers().iter().filter(|(id, _)| !timers_fired.contains(id)).count();
            if waiting > armed {
                no_timer_reported = true;
                no_timer = Some(format!("{waiting} call(s) are waiting for a reply with a method timeout configured, but only {armed} timer(s) are armed"));
            }
        }
        // environment menu
        let mut menu: Vec<Env> = vec![];
        if !eof {
            for (i, _) in seen.iter() {
                if !answered.contains_key(i) {
                    menu.push(Env::Reply(*i));
                    menu.push(Env::Error(*i));
                }
            }
            if strays < p.strays {
                menu.push(Env::Stray);
            }
            if p.burst && !burst_done {
                for (i, _) in seen.iter() {
                    if !answered.contains_key(i) {
                        menu.push(Env::BurstReplyThenStrays(*i));
                    }
                }
            }
            if !signal_sent {
                menu.push(Env::Signal);
            }
            if p.eof {
                menu.push(Env::Eof);
            }
        }
        if p.timeout {
            for (id, _) in zbus::verif::pending_timers() {
                if !timers_fired.contains(&id) {
                    menu.push(Env::Timer(id));
                }
            }
        }
        match w.step(menu.len()) {
            Step::Ran(_) => {}
            Step::Env(k) => {
                let e = menu[k].clone();
                w.obs(format!("env {e:?}"));
                if !noreply_done_logged && !matches!(e, Env::Timer(_) | Env::Eof) {
                    inbound_before_noreply_done += 1;
                }
                peer_serial += 1;
                match e {
                    Env::Reply(i) | Env::Error(i) => {
                        let serial = seen[&i];
                        // build a reply from a fake call header carrying that serial
                        let call = Message::method_call("/p", format!("M{i}").as_str())
                            .unwrap()
                            .interface("a.b")
                            .unwrap()
                            .build(&())
                            .unwrap();
                        let mut bytes = call.data().bytes().to_vec();
                        bytes[8..12].copy_from_slice(&serial.to_le_bytes());
                        let call = parse_message(&bytes).unwrap();
                        let m = if matches!(e, Env::Reply(_)) {
                            answered.insert(i, "return");
                            Message::method_return(&call.header()).unwrap().build(&(i as u32,)).unwrap()
                        } else {
                            answered.insert(i, "error");
                            Message::error(&call.header(), "a.b.Err").unwrap().build(&("boom",)).unwrap()
                        };
                        link.b2a.push(m.data().bytes(), vec![]);
                    }
                    Env::BurstReplyThenStrays(i) => {
                        burst_done = true;
                        answered.insert(i, "return");
                        let serial = seen[&i];
                        let mk_call = |serial: u32| {
                            let call = Message::method_call("/p", "X").unwrap().build(&()).unwrap();
                            let mut bytes = call.data().bytes().to_vec();
                            bytes[8..12].copy_from_slice(&serial.to_le_bytes());
                            parse_message(&bytes).unwrap()
                        };
                        let mut all = Message::method_return(&mk_call(serial).header())
                            .unwrap()
                            .build(&(i as u32,))
                            .unwrap()
                            .data()
                            .bytes()
                            .to_vec();
                        for k in 0..9u32 {
                            all.extend_from_slice(
                                Message::method_return(&mk_call(800_000 + k).header())
                                    .unwrap()
                                    .build(&(99u32,))
                                    .unwrap()
                                    .data()
                                    .bytes(),
                            );
                        }
                        link.b2a.push(&all, vec![]);
                    }
                    Env::Stray => {
                        strays += 1;
                        let call = Message::method_call("/p", "X").unwrap().build(&()).unwrap();
                        let mut bytes = call.data().bytes().to_vec();
                        bytes[8..12].copy_from_slice(&(900_000u32 + strays as u32).to_le_bytes());
                        let call = parse_message(&bytes).unwrap();
                        let m = Message::method_return(&call.header()).unwrap().build(&(99u32,)).unwrap();
                        link.b2a.push(m.data().bytes(), vec![]);
                    }
                    Env::Signal => {
                        signal_sent = true;
                        let m = Message::signal("/p", "a.b", "Sig").unwrap().build(&(1u32,)).unwrap();
                        link.b2a.push(m.data().bytes(), vec![]);
                    }
                    Env::Eof => {
                        eof = true;
                        link.b2a.set_eof();
                    }
                    Env::Timer(id) => {
                        timers_fired.push(id);
                        zbus::verif::fire_timer(id);
                    }
                }
            }
            Step::Quiescent | Step::Horizon => break,
        }
    }

    // oracle
    let mut res = ExecResult {
        capped: w.hit_horizon,
        steps: w.steps,
        ..Default::default()
    };
    if let Some(d) = no_timer {
        res.violations.push(v("completed-on-timeout", d).feat("kind", "no-timer-armed"));
    }
    for (i, c) in callers.iter().enumerate() {
        let serial = seen.get(&i).cloned();
        let out = c.take();
        w.obs(format!(
            "caller{i}: sent={} answered={:?} result={}",
            serial.is_some(),
            answered.get(&i),
            match &out {
                None => "pending".to_string(),
                Some(CallResult::Ok { .. }) | Some(CallResult::OkBody(_)) => "return".into(),
                Some(CallResult::MethodError { .. }) => "method-error".into(),
                Some(CallResult::OtherErr(e)) =>
                    if e.contains("timed out") { "timeout".into() } else { "io-error".into() },
            }
        ));
        match (&out, answered.get(&i)) {
            (Some(CallResult::Ok { reply_serial, mtype }), a) => {
                if *reply_serial != serial || *mtype != Type::MethodReturn || a != Some(&"return") {
                    res.violations.push(
                        v("own-reply-only", format!("caller{i} (serial {serial:?}) completed with a return carrying reply_serial {reply_serial:?}; the peer had answered it with {a:?}"))
                            .feat("kind", "wrong-return"),
                    );
                }
            }
            (Some(CallResult::OkBody(body)), a) => {
                if *body != Some(i as u32) || a != Some(&"return") {
                    res.violations.push(
                        v("own-reply-only", format!("caller{i} (serial {serial:?}) completed with a return whose body is {body:?} (the reply to call k carries k); the peer had answered it with {a:?}"))
                            .feat("kind", "wrong-return"),
                    );
                }
            }
            (Some(CallResult::MethodError { reply_serial, name }), a) => {
                if *reply_serial != serial || name != "a.b.Err" || a != Some(&"error") {
                    res.violations.push(
                        v("own-reply-only", format!("caller{i} (serial {serial:?}) completed with error {name} carrying reply_serial {reply_serial:?}; the peer had answered it with {a:?}"))
                            .feat("kind", "wrong-error"),
                    );
                }
            }
            (Some(CallResult::OtherErr(e)), a) => {
                // an I/O or timeout error is legitimate only if the connection failed or the
                // timer fired
                let timed_out = e.contains("timed out");
                if timed_out && timers_fired.is_empty() {
                    res.violations.push(v("own-reply-only", format!("caller{i} timed out but no timer fired")).feat("kind", "spurious-timeout"));
                } else if !timed_out && !eof {
                    res.violations.push(
                        v("own-reply-only", format!("caller{i} failed with `{e}` although the transport is fine (answered: {a:?})"))
                            .feat("kind", "spurious-error"),
                    );
                }
            }
            (None, a) => {
                if w.hit_horizon {
                    continue;
                }
                // still pending at quiescence
                if a.is_some() {
                    res.violations.push(
                        v("completes-exactly-once", format!("caller{i}: its {a:?} was delivered, nothing is runnable, but the call never completed; trace={:?}", w.trace))
                            .feat("kind", "reply-lost"),
                    );
                } else if eof {
                    res.violations.push(
                        v("completed-on-connection-failure", format!("caller{i} is still pending after EOF and nothing is runnable; trace={:?}", w.trace))
                            .feat("kind", "hang-after-eof"),
                    );
                } else if !timers_fired.is_empty() && serial.is_some() && p.callers == 1 {
                    res.violations.push(
                        v("completed-on-timeout", format!("caller{i} is still pending after its timer fired; trace={:?}", w.trace))
                            .feat("kind", "hang-after-timeout"),
                    );
                }
            }
        }
    }
    if let Some(h) = &noreply {
        match h.take() {
            Some(Ok(())) => {}
            Some(Err(e)) => {
                if !eof {
                    res.violations.push(v("noreply-completes-without-waiting", format!("no-reply call failed: {e}")).feat("kind", "noreply-error"));
                }
            }
            None => {
                if !w.hit_horizon && noreply_seen_on_wire {
                    res.violations.push(
                        v("noreply-completes-without-waiting", format!("the no-reply call was sent but never completed; trace={:?}", w.trace))
                            .feat("kind", "noreply-hang"),
                    );
                }
            }
        }
    }
    res.log = std::mem::take(&mut w.log);
    drop(conn);
    res
}

pub fn main(args: &Args) -> i32 {
    if let Some(p) = &args.replay {
        return crate::sched::replay(p, |_, j| {
            let p = Params {
                callers: j["callers"].as_u64().unwrap_or(2) as usize,
                noreply: j["noreply"].as_bool().unwrap_or(false),
                timeout: j["timeout"].as_bool().unwrap_or(false),
                eof: j["eof"].as_bool().unwrap_or(false),
                strays: j["strays"].as_u64().unwrap_or(0) as usize,
                burst: j["burst"].as_bool().unwrap_or(false),
                via_proxy: j["via_proxy"].as_bool().unwrap_or(false),
                yield_after_write: j["yield_after_write"].as_bool().unwrap_or(false),
            };
            Some(Box::new(move || scenario(p)))
        });
    }
    let report = Report::new("C19", args.tier, args.seed, "model_checking");
    let totals = Mutex::new(Totals::default());
    let quick = args.tier == vcommon::Tier::Quick;
    let scenarios: Vec<(&str, Params, Vec<Option<usize>>)> = vec![
        (
            "two-callers",
            Params { callers: 2, noreply: false, timeout: false, eof: true, strays: 1, burst: false, via_proxy: false, yield_after_write: false },
            if quick { vec![Some(5)] } else { vec![Some(7), None] },
        ),
        (
            "two-callers-noreply",
            Params { callers: 2, noreply: true, timeout: false, eof: false, strays: 0, burst: false, via_proxy: false, yield_after_write: false },
            if quick { vec![Some(4)] } else { vec![Some(6), Some(7)] },
        ),
        (
            "three-callers",
            Params { callers: 3, noreply: false, timeout: false, eof: true, strays: 1, burst: false, via_proxy: false, yield_after_write: false },
            if quick { vec![Some(4)] } else { vec![Some(6), Some(7)] },
        ),
        (
            "timeout-one-caller",
            Params { callers: 1, noreply: false, timeout: true, eof: true, strays: 1, burst: false, via_proxy: false, yield_after_write: false },
            vec![None],
        ),
        (
            "timeout-two-callers",
            Params { callers: 2, noreply: false, timeout: true, eof: false, strays: 0, burst: false, via_proxy: false, yield_after_write: false },
            if quick { vec![Some(4)] } else { vec![Some(6), Some(7)] },
        ),
        (
            // the reply can be delivered before `send` has returned to the caller
            "reply-before-send-returns",
            Params { callers: 2, noreply: false, timeout: false, eof: false, strays: 0, burst: false, via_proxy: false, yield_after_write: true },
            if quick { vec![Some(4)] } else { vec![Some(6), Some(7)] },
        ),
        (
            "reply-before-send-returns-timeout-noreply",
            Params { callers: 1, noreply: true, timeout: true, eof: false, strays: 0, burst: false, via_proxy: true, yield_after_write: true },
            if quick { vec![Some(4)] } else { vec![Some(6), Some(7)] },
        ),
        (
            "proxy-callers",
            Params { callers: 2, noreply: false, timeout: false, eof: true, strays: 1, burst: false, via_proxy: true, yield_after_write: false },
            if quick { vec![Some(4)] } else { vec![Some(6), Some(7)] },
        ),
        (
            "proxy-callers-noreply-with-flags",
            Params { callers: 2, noreply: true, timeout: false, eof: false, strays: 0, burst: false, via_proxy: true, yield_after_write: false },
            if quick { vec![Some(3)] } else { vec![Some(5), Some(6)] },
        ),
        (
            "proxy-timeout-two-callers",
            Params { callers: 2, noreply: false, timeout: true, eof: false, strays: 0, burst: false, via_proxy: true, yield_after_write: false },
            if quick { vec![Some(3)] } else { vec![Some(5), Some(6)] },
        ),
        (
            "queue-pressure",
            // more stray replies than the method-return queue holds (8)
            Params { callers: 2, noreply: false, timeout: false, eof: false, strays: 10, burst: true, via_proxy: false, yield_after_write: false },
            if quick { vec![Some(4)] } else { vec![Some(6)] },
        ),
    ];
    for (name, p, bounds) in scenarios {
        let plan = SchedPlan {
            bounds,
            max_execs: args.tier.pick(3_000_000, 60_000_000),
            time_budget_s: args.tier.pick(120.0, 900.0),
        };
        run_scenario(
            &report,
            &totals,
            name,
            json!({"callers": p.callers, "noreply": p.noreply, "timeout": p.timeout, "eof": p.eof, "strays": p.strays, "burst": p.burst, "via_proxy": p.via_proxy, "yield_after_write": p.yield_after_write}),
            &plan,
            move || scenario(p),
        );
    }
    report.assume("interleaving granularity is one task poll; the transport accepts whole writes in this check (partial writes are C18); in the reply-before-send-returns scenarios the writing task additionally yields once right after each write took effect");
    report.assume("the peer only answers calls it has completely received (it reads serial numbers off the wire)");
    finish_model_checking(
        &report,
        &totals,
        "all orders of caller polls, socket-reader polls and peer emissions (return/error per seen call, stray reply, signal, EOF, virtual timer expiry) up to the completed deviation bound",
    )
}
