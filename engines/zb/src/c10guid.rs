//! C10 (GUID part) — to be written. The GUID type lives in zbus, so this part of C10 runs in zb.
pub fn run(_report: &vcommon::Report) {}
