//! C10 (GUID part). The GUID type lives in zbus, so this part of C10 runs in the zb crate.
//!
//! `run(report)` adds its cases to the given C10 report (evaluations, outcome classes, non-trivial
//! hashes, violations, assumptions); the caller finishes the report.
//!
//! Reference (D-Bus specification, "UUIDs"): a GUID is exactly 32 hexadecimal digits - no hyphens,
//! braces or `urn:uuid:` prefix. Either letter case is accepted.
//!
//! Space:
//!  * every string of length <= 4 over {0,a,F,g,-};
//!  * for each length 30..=34 and each base filling (all `0`, all `a`, all `F`, mixed `0aF9bE...`):
//!    the base itself and every substitution of one or two positions by each of {0,a,F,g,-}
//!    (position classes: the rest of the string stays valid hex);
//!  * UUID text forms of three 32-digit values in lower/upper/mixed case: hyphenated 8-4-4-4-12,
//!    braced, `urn:uuid:`, braced without hyphens, hyphens at wrong places, padded with spaces,
//!    `0x` prefix, trailing NUL-free junk.
//! Routes: TryFrom<&str>, TryFrom<String>, TryFrom<Str>, TryFrom<Cow<str>>, FromStr,
//! from_static_str, Deserialize (Guid and OwnedGuid) from a reference-encoded D-Bus string.

use std::{borrow::Cow, collections::BTreeMap, str::FromStr};

use serde_json::json;
use vcommon::{hash64, Report, Violation};
use zbus::{
    zvariant::{
        serialized::{Context, Data},
        Str, LE,
    },
    Guid, OwnedGuid,
};

/// The reference acceptor.
pub fn ref_guid(s: &str) -> bool {
    s.len() == 32 && s.bytes().all(|b| b.is_ascii_hexdigit())
}

/// If `s` is one of the textual UUID decorations of 32 hex digits, say which.
pub fn uuid_text_form(s: &str) -> Option<String> {
    let mut parts = vec![];
    let mut t = s;
    if let Some(r) = t.strip_prefix("urn:uuid:") {
        parts.push("urn");
        t = r;
    }
    if let Some(r) = t.strip_prefix('{').and_then(|r| r.strip_suffix('}')) {
        parts.push("braced");
        t = r;
    }
    let b = t.as_bytes();
    let plain: String;
    if b.len() == 36 && [8, 13, 18, 23].iter().all(|i| b[*i] == b'-') {
        parts.push("hyphenated");
        plain = t.chars().enumerate().filter(|(i, _)| ![8, 13, 18, 23].contains(i)).map(|(_, c)| c).collect();
    } else {
        plain = t.to_string();
    }
    if ref_guid(&plain) && !parts.is_empty() {
        Some(parts.join("+"))
    } else {
        None
    }
}

#[derive(Debug, Clone, PartialEq)]
enum Out {
    Accepted,
    Rejected,
    Altered(String),
    Panicked(String),
}

fn obs<T, E>(s: &str, f: impl FnOnce() -> Result<T, E>, held: impl FnOnce(&T) -> String) -> Out {
    match vcommon::catch(|| f().ok().map(|t| held(&t))) {
        Ok(Some(h)) if h == s => Out::Accepted,
        Ok(Some(h)) => Out::Altered(h),
        Ok(None) => Out::Rejected,
        Err(m) => Out::Panicked(m),
    }
}

fn routes(s: &str) -> Vec<(&'static str, &'static str, Out)> {
    // SAFETY: the Guid built from `st` is dropped inside `obs`, before `s` goes away.
    let st: &'static str = unsafe { std::mem::transmute::<&str, &'static str>(s) };
    let h = |g: &Guid<'_>| g.as_str().to_string();
    let ho = |g: &OwnedGuid| g.as_str().to_string();
    let mut enc = (s.len() as u32).to_le_bytes().to_vec();
    enc.extend_from_slice(s.as_bytes());
    enc.push(0);
    let d = Data::new(enc, Context::new_dbus(LE, 0));
    vec![
        ("try_from(&str)", "str", obs(s, || Guid::try_from(s), h)),
        ("try_from(String)", "str", obs(s, || Guid::try_from(s.to_string()), h)),
        ("try_from(Str)", "str", obs(s, || Guid::try_from(Str::from(s)), h)),
        ("try_from(Cow<str>)", "str", obs(s, || Guid::try_from(Cow::Borrowed(s)), h)),
        ("from_str", "str", obs(s, || Guid::from_str(s), h)),
        ("from_static_str", "static", obs(s, || Guid::from_static_str(st), h)),
        ("deserialize(dbus s)", "deserialize", obs(s, || d.deserialize::<Guid<'_>>().map(|r| r.0), h)),
        ("Owned::deserialize(dbus s)", "deserialize", obs(s, || d.deserialize::<OwnedGuid>().map(|r| r.0), ho)),
    ]
}

pub fn cases() -> Vec<(String, &'static str)> {
    let syms = ['0', 'a', 'F', 'g', '-'];
    let mut out: Vec<(String, &'static str)> = vec![];
    // short strings
    let total = vcommon::enumerate::count_strings(5, 4);
    let mut idx = vec![];
    for i in 0..total {
        vcommon::enumerate::nth_string(5, i, &mut idx);
        out.push((idx.iter().map(|j| syms[*j]).collect(), "short"));
    }
    // position classes around 32
    let mixed: Vec<char> = "0aF9bE".chars().collect();
    for len in 30..=34usize {
        let bases: Vec<Vec<char>> = vec![
            vec!['0'; len],
            vec!['a'; len],
            vec!['F'; len],
            (0..len).map(|i| mixed[i % mixed.len()]).collect(),
        ];
        for base in bases {
            out.push((base.iter().collect(), "length"));
            for p in 0..len {
                for c in syms {
                    let mut b = base.clone();
                    b[p] = c;
                    out.push((b.iter().collect(), "one-position"));
                    for q in p + 1..len {
                        for e in syms {
                            let mut b2 = b.clone();
                            b2[q] = e;
                            out.push((b2.iter().collect(), "two-positions"));
                        }
                    }
                }
            }
        }
    }
    // UUID text forms
    for hex in ["0123456789abcdef0123456789abcdef", "0123456789ABCDEF0123456789ABCDEF", "00000000000000000000000000000000", "aBcDeF0123456789AbCdEf9876543210"] {
        let hy = format!("{}-{}-{}-{}-{}", &hex[0..8], &hex[8..12], &hex[12..16], &hex[16..20], &hex[20..32]);
        let forms = vec![
            hex.to_string(),
            hy.clone(),
            format!("{{{hy}}}"),
            format!("urn:uuid:{hy}"),
            format!("URN:UUID:{hy}"),
            format!("{{{hex}}}"),
            format!("urn:uuid:{hex}"),
            format!("urn:uuid:{{{hy}}}"),
            format!("({hy})"),
            format!("{}-{}", &hex[0..16], &hex[16..32]),
            format!("{}-{}-{}-{}-{}", &hex[0..4], &hex[4..8], &hex[8..12], &hex[12..16], &hex[16..32]),
            format!("{hy}-"),
            format!("-{hy}"),
            format!(" {hex}"),
            format!("{hex} "),
            format!("{hex}\n"),
            format!("0x{hex}"),
            format!("0x{}", &hex[2..]),
            format!("{hex}{hex}"),
            format!("{}", &hex[0..31]),
            format!("{hex}0"),
            format!("{}g", &hex[0..31]),
            format!("{}é", &hex[0..30]),
            format!("+{}", &hex[1..]),
        ];
        for f in forms {
            out.push((f, "uuid-form"));
        }
    }
    let mut seen = std::collections::BTreeSet::new();
    out.retain(|(s, _)| seen.insert(s.clone()));
    out
}

pub fn run(report: &Report) {
    let cs = cases();
    let n = cs.len();
    const BLOCK: usize = 4096;
    // identity -> (count, first violation); merged deterministically after the parallel part
    let per_block: Vec<std::sync::Mutex<BTreeMap<String, (u64, Violation)>>> = (0..n.div_ceil(BLOCK)).map(|_| Default::default()).collect();
    vcommon::par_for(n.div_ceil(BLOCK), 1, |b| {
        let mut viol: BTreeMap<String, (u64, Violation)> = BTreeMap::new();
        let mut outcomes: BTreeMap<String, u64> = BTreeMap::new();
        let mut nontrivial = vec![];
        let mut evals = 0u64;
        for (s, family) in &cs[b * BLOCK..((b + 1) * BLOCK).min(n)] {
            let expect = ref_guid(s);
            let rs = routes(s);
            evals += 1;
            let any = rs.iter().any(|r| matches!(r.2, Out::Accepted | Out::Altered(_)));
            *outcomes
                .entry(format!(
                    "guid:{}",
                    match (expect, any) {
                        (true, true) => "valid-accepted",
                        (true, false) => "valid-rejected",
                        (false, true) => "invalid-accepted-by-some-route",
                        (false, false) => "invalid-rejected",
                    }
                ))
                .or_insert(0) += 1;
            // non-trivial: within one or two substitutions of a valid GUID, or a UUID text form
            if *family != "short" {
                nontrivial.push(hash64(&("Guid", s)));
            }
            for (route, group, o) in rs {
                let (bad, clause, dir) = match &o {
                    Out::Panicked(_) => (true, "no-panic", "panic"),
                    Out::Altered(_) => (true, "accepted-value-holds-input", "altered"),
                    Out::Accepted if !expect => (true, "accept-iff-grammar", "accepts-invalid"),
                    Out::Rejected if expect => (true, "accept-iff-grammar", "rejects-valid"),
                    _ => (false, "", ""),
                };
                if !bad {
                    continue;
                }
                let form = uuid_text_form(s);
                let v = Violation::new(
                    clause,
                    format!("Guid: {route} on {s:?} -> {o:?}; a GUID is exactly 32 hex digits, so the reference {} it", if expect { "accepts" } else { "rejects" }),
                    json!({"kind": "Guid", "string": s}),
                )
                .feat("type", "Guid")
                .feat("route", route)
                .feat("route_group", group)
                .feat("direction", dir)
                .feat("uuid_text_form", form.is_some())
                .feat("form", form.unwrap_or_else(|| "none".into()));
                let id = format!("{} {:?}", v.clause, v.features);
                viol.entry(id).and_modify(|e| e.0 += 1).or_insert((1, v));
            }
        }
        report.eval(evals);
        for (k, c) in outcomes {
            report.outcome_n(&k, c);
        }
        report.nontrivial_many(nontrivial);
        *per_block[b].lock().unwrap() = viol;
    });
    let mut total = 0u64;
    for m in per_block {
        for (_, (c, v)) in m.into_inner().unwrap() {
            total += c;
            report.violation(v);
        }
    }
    report.set("guid_strings", json!(n));
    report.add("guid_violating_route_observations", total);
    report.assume("GUID reference = exactly 32 hexadecimal digits of either case (D-Bus specification, UUIDs)");
    report.assume("GUID strings: all strings of length <= 4 over {0,a,F,g,-}; for lengths 30..=34 four base fillings with every one- and two-position substitution by {0,a,F,g,-}; UUID text forms (hyphenated, braced, urn, misplaced hyphens, padding, 0x) of four digit strings");
}

/// Re-run one recorded GUID case (replay payload `{"kind":"Guid","string":...}`); returns true if it
/// still differs from the reference.
pub fn replay(s: &str) -> bool {
    let expect = ref_guid(s);
    println!("C10 (GUID) replay: {s:?} ({} bytes); reference: {}", s.len(), if expect { "accepts" } else { "rejects" });
    let mut bad = false;
    for (route, _, o) in routes(s) {
        let ok = matches!((&o, expect), (Out::Accepted, true) | (Out::Rejected, false));
        bad |= !ok;
        println!("  {route:28} -> {o:?}{}", if ok { "" } else { "   <-- differs from the reference" });
    }
    bad
}
