//! Reference model of D-Bus match rules (specification section "Match Rules"), written from the
//! specification and from the documented behaviour of the reference bus daemon — never by calling
//! zbus.
//!
//! * `RRule` / `RMsg`: plain-data rule and message views.
//! * `key_matches` / `matches`: per-key and whole-rule semantics with three-valued verdicts
//!   (`Unresolved` = the verdict depends on who owns a well-known name, which only a bus knows).
//! * `parse` / `print`: rule-string grammar with the bus daemon's quoting rules
//!   (`bus_match_rule_parse`): comma separated `key=value`; a value may contain single-quoted
//!   stretches inside which everything is literal up to the next apostrophe; outside quotes `\'`
//!   is a literal apostrophe and any other backslash is literal; an unquoted comma ends the value.
//! * `audit`: drives a private `dbus-daemon` with two libdbus clients (dlopen) and compares the
//!   daemon's delivery decisions and AddMatch accept/reject decisions with this model. A
//!   disagreement is a machinery failure of the checker, never a verdict about zbus.

use std::collections::BTreeMap;

#[derive(Clone, Copy, Debug, PartialEq, Eq, Hash, PartialOrd, Ord)]
pub enum MType {
    MethodCall,
    MethodReturn,
    Error,
    Signal,
}

impl MType {
    pub fn as_str(self) -> &'static str {
        match self {
            MType::MethodCall => "method_call",
            MType::MethodReturn => "method_return",
            MType::Error => "error",
            MType::Signal => "signal",
        }
    }
    pub fn parse(s: &str) -> Option<Self> {
        Some(match s {
            "method_call" => MType::MethodCall,
            "method_return" => MType::MethodReturn,
            "error" => MType::Error,
            "signal" => MType::Signal,
            _ => return None,
        })
    }
}

#[derive(Clone, Debug, Default, PartialEq, Eq, Hash, PartialOrd, Ord)]
pub struct RRule {
    pub msg_type: Option<MType>,
    pub sender: Option<String>,
    pub interface: Option<String>,
    pub member: Option<String>,
    pub path: Option<String>,
    pub path_namespace: Option<String>,
    pub destination: Option<String>,
    pub args: BTreeMap<u8, String>,
    pub arg_paths: BTreeMap<u8, String>,
    pub arg0namespace: Option<String>,
    pub eavesdrop: Option<bool>,
}

#[derive(Clone, Debug, PartialEq, Eq, Hash)]
pub enum RArg {
    Str(String),
    Path(String),
    /// Any other type (integers, variants, containers, signatures ...): never matched by arg keys.
    Other,
}

#[derive(Clone, Debug, PartialEq, Eq, Hash)]
pub struct RMsg {
    pub mtype: MType,
    pub sender: Option<String>,
    pub interface: Option<String>,
    pub member: Option<String>,
    pub path: Option<String>,
    pub destination: Option<String>,
    pub args: Vec<RArg>,
}

#[derive(Clone, Copy, Debug, PartialEq, Eq, Hash, PartialOrd, Ord)]
pub enum Key {
    Type,
    Sender,
    Interface,
    Member,
    Path,
    PathNamespace,
    Destination,
    Arg(u8),
    ArgPath(u8),
    Arg0Namespace,
}

impl Key {
    pub fn name(self) -> String {
        match self {
            Key::Type => "type".into(),
            Key::Sender => "sender".into(),
            Key::Interface => "interface".into(),
            Key::Member => "member".into(),
            Key::Path => "path".into(),
            Key::PathNamespace => "path_namespace".into(),
            Key::Destination => "destination".into(),
            Key::Arg(i) => format!("arg{i}"),
            Key::ArgPath(i) => format!("arg{i}path"),
            Key::Arg0Namespace => "arg0namespace".into(),
        }
    }
    /// Key family without the index (feature value for known-finding identity).
    pub fn family(self) -> &'static str {
        match self {
            Key::Type => "type",
            Key::Sender => "sender",
            Key::Interface => "interface",
            Key::Member => "member",
            Key::Path => "path",
            Key::PathNamespace => "path_namespace",
            Key::Destination => "destination",
            Key::Arg(_) => "argN",
            Key::ArgPath(_) => "argNpath",
            Key::Arg0Namespace => "arg0namespace",
        }
    }
}

impl RRule {
    pub fn keys(&self) -> Vec<Key> {
        let mut k = vec![];
        if self.msg_type.is_some() {
            k.push(Key::Type)
        }
        if self.sender.is_some() {
            k.push(Key::Sender)
        }
        if self.interface.is_some() {
            k.push(Key::Interface)
        }
        if self.member.is_some() {
            k.push(Key::Member)
        }
        if self.path.is_some() {
            k.push(Key::Path)
        }
        if self.path_namespace.is_some() {
            k.push(Key::PathNamespace)
        }
        if self.destination.is_some() {
            k.push(Key::Destination)
        }
        for i in self.args.keys() {
            k.push(Key::Arg(*i))
        }
        for i in self.arg_paths.keys() {
            k.push(Key::ArgPath(*i))
        }
        if self.arg0namespace.is_some() {
            k.push(Key::Arg0Namespace)
        }
        k
    }

    /// The sub-rule that keeps only `key` (and eavesdrop).
    pub fn only(&self, key: Key) -> RRule {
        let mut r = RRule {
            eavesdrop: self.eavesdrop,
            ..Default::default()
        };
        match key {
            Key::Type => r.msg_type = self.msg_type,
            Key::Sender => r.sender = self.sender.clone(),
            Key::Interface => r.interface = self.interface.clone(),
            Key::Member => r.member = self.member.clone(),
            Key::Path => r.path = self.path.clone(),
            Key::PathNamespace => r.path_namespace = self.path_namespace.clone(),
            Key::Destination => r.destination = self.destination.clone(),
            Key::Arg(i) => {
                if let Some(v) = self.args.get(&i) {
                    r.args.insert(i, v.clone());
                }
            }
            Key::ArgPath(i) => {
                if let Some(v) = self.arg_paths.get(&i) {
                    r.arg_paths.insert(i, v.clone());
                }
            }
            Key::Arg0Namespace => r.arg0namespace = self.arg0namespace.clone(),
        }
        r
    }
}

/// Three-valued verdict.
#[derive(Clone, Copy, Debug, PartialEq, Eq, Hash)]
pub enum V3 {
    Yes,
    No,
    /// Depends on the owner of a well-known name that the resolver does not know.
    Unresolved,
}

/// What the evaluator knows about a well-known bus name.
#[derive(Clone, Debug, PartialEq, Eq)]
pub enum Owner {
    Unique(String),
    NoOwner,
    Unknown,
}

pub fn is_unique(name: &str) -> bool {
    name.starts_with(':')
}

fn resolve(name: &str, owners: &dyn Fn(&str) -> Owner) -> Owner {
    if is_unique(name) {
        Owner::Unique(name.to_string())
    } else {
        owners(name)
    }
}

/// `path_namespace`: the path itself or any path below it; `/` is above everything.
pub fn path_in_namespace(path: &str, ns: &str) -> bool {
    if ns == "/" {
        return true;
    }
    if path == ns {
        return true;
    }
    path.len() > ns.len() && path.starts_with(ns) && path.as_bytes()[ns.len()] == b'/'
}

/// `argNpath`: equal, or either one ends with '/' and is a prefix of the other.
pub fn arg_path_matches(rule: &str, actual: &str) -> bool {
    if rule == actual {
        return true;
    }
    if rule.ends_with('/') && actual.starts_with(rule) {
        return true;
    }
    if actual.ends_with('/') && rule.starts_with(actual) {
        return true;
    }
    false
}

/// `arg0namespace`: equal, or the argument continues with '.' after the namespace.
pub fn in_name_namespace(arg0: &str, ns: &str) -> bool {
    arg0 == ns
        || (arg0.len() > ns.len() && arg0.starts_with(ns) && arg0.as_bytes()[ns.len()] == b'.')
}

pub fn key_matches(rule: &RRule, key: Key, msg: &RMsg, owners: &dyn Fn(&str) -> Owner) -> V3 {
    let b = |x: bool| if x { V3::Yes } else { V3::No };
    match key {
        Key::Type => b(rule.msg_type.map(|t| t == msg.mtype).unwrap_or(true)),
        Key::Sender => match &rule.sender {
            None => V3::Yes,
            Some(s) => match resolve(s, owners) {
                Owner::Unique(u) => b(msg.sender.as_deref() == Some(u.as_str())),
                Owner::NoOwner => V3::No,
                Owner::Unknown => V3::Unresolved,
            },
        },
        Key::Interface => match &rule.interface {
            None => V3::Yes,
            Some(i) => b(msg.interface.as_deref() == Some(i.as_str())),
        },
        Key::Member => match &rule.member {
            None => V3::Yes,
            Some(m) => b(msg.member.as_deref() == Some(m.as_str())),
        },
        Key::Path => match &rule.path {
            None => V3::Yes,
            Some(p) => b(msg.path.as_deref() == Some(p.as_str())),
        },
        Key::PathNamespace => match &rule.path_namespace {
            None => V3::Yes,
            Some(ns) => b(msg
                .path
                .as_deref()
                .map(|p| path_in_namespace(p, ns))
                .unwrap_or(false)),
        },
        Key::Destination => match &rule.destination {
            None => V3::Yes,
            Some(d) => match &msg.destination {
                // "messages which are being sent to the given name": a message without a
                // destination is not being sent to anybody in particular.
                None => V3::No,
                Some(md) => match (resolve(d, owners), resolve(md, owners)) {
                    (Owner::Unique(a), Owner::Unique(b2)) => b(a == b2),
                    (Owner::Unknown, _) | (_, Owner::Unknown) => V3::Unresolved,
                    _ => V3::No,
                },
            },
        },
        Key::Arg(i) => match rule.args.get(&i) {
            None => V3::Yes,
            Some(v) => b(matches!(msg.args.get(i as usize), Some(RArg::Str(s)) if s == v)),
        },
        Key::ArgPath(i) => match rule.arg_paths.get(&i) {
            None => V3::Yes,
            Some(v) => b(match msg.args.get(i as usize) {
                Some(RArg::Str(s)) | Some(RArg::Path(s)) => arg_path_matches(v, s),
                _ => false,
            }),
        },
        Key::Arg0Namespace => match &rule.arg0namespace {
            None => V3::Yes,
            Some(ns) => b(matches!(msg.args.first(), Some(RArg::Str(s)) if in_name_namespace(s, ns))),
        },
    }
}

pub fn matches(rule: &RRule, msg: &RMsg, owners: &dyn Fn(&str) -> Owner) -> V3 {
    let mut unresolved = false;
    for k in rule.keys() {
        match key_matches(rule, k, msg, owners) {
            V3::No => return V3::No,
            V3::Unresolved => unresolved = true,
            V3::Yes => {}
        }
    }
    if unresolved {
        V3::Unresolved
    } else {
        V3::Yes
    }
}

pub fn nobody_knows(_: &str) -> Owner {
    Owner::Unknown
}

// ---------------------------------------------------------------------------------------------
// Name validators (specification "Valid Names"), only what the rule parser needs.

fn name_elem_char(c: u8, allow_hyphen: bool) -> bool {
    c.is_ascii_alphanumeric() || c == b'_' || (allow_hyphen && c == b'-')
}

pub fn valid_interface(s: &str) -> bool {
    if s.is_empty() || s.len() > 255 {
        return false;
    }
    let elems: Vec<&str> = s.split('.').collect();
    elems.len() >= 2
        && elems.iter().all(|e| {
            !e.is_empty()
                && !e.as_bytes()[0].is_ascii_digit()
                && e.bytes().all(|c| name_elem_char(c, false))
        })
}

pub fn valid_member(s: &str) -> bool {
    !s.is_empty()
        && s.len() <= 255
        && !s.as_bytes()[0].is_ascii_digit()
        && s.bytes().all(|c| name_elem_char(c, false))
}

pub fn valid_bus_name(s: &str) -> bool {
    if s.is_empty() || s.len() > 255 {
        return false;
    }
    let (unique, rest) = match s.strip_prefix(':') {
        Some(r) => (true, r),
        None => (false, s),
    };
    let elems: Vec<&str> = rest.split('.').collect();
    elems.len() >= 2
        && elems.iter().all(|e| {
            !e.is_empty()
                && (unique || !e.as_bytes()[0].is_ascii_digit())
                && e.bytes().all(|c| name_elem_char(c, true))
        })
}

/// A prefix of a (well-known) bus name made of whole elements: like a bus name, but one element
/// is enough (the daemon's `_dbus_validate_bus_namespace`).
pub fn valid_bus_namespace(s: &str) -> bool {
    if s.is_empty() || s.len() > 255 {
        return false;
    }
    let (unique, rest) = match s.strip_prefix(':') {
        Some(r) => (true, r),
        None => (false, s),
    };
    rest.split('.').all(|e| {
        !e.is_empty()
            && (unique || !e.as_bytes()[0].is_ascii_digit())
            && e.bytes().all(|c| name_elem_char(c, true))
    })
}

pub fn valid_path(s: &str) -> bool {
    if s == "/" {
        return true;
    }
    s.starts_with('/')
        && s[1..]
            .split('/')
            .all(|e| !e.is_empty() && e.bytes().all(|c| name_elem_char(c, false)))
}

// ---------------------------------------------------------------------------------------------
// Rule strings

#[derive(Clone, Copy, Debug)]
pub struct ParseOpts {
    /// The reference daemon stores one matcher per argument index, so `arg0` together with
    /// `arg0path` or `arg0namespace` is rejected ("matched more than once"). The specification
    /// does not say so; the lenient mode accepts the combination.
    pub one_matcher_per_arg_index: bool,
    /// The reference daemon gives up after 16 tokens.
    pub max_tokens: Option<usize>,
}

impl ParseOpts {
    pub const DAEMON: ParseOpts = ParseOpts {
        one_matcher_per_arg_index: true,
        max_tokens: Some(16),
    };
    pub const LENIENT: ParseOpts = ParseOpts {
        one_matcher_per_arg_index: false,
        max_tokens: None,
    };
}

fn is_space(c: u8) -> bool {
    matches!(c, b' ' | b'\t' | b'\n' | b'\r' | 0x0b | 0x0c)
}

/// Split a rule string into (key, value) tokens with the quoting rules applied to the values.
pub fn tokenize(s: &str) -> Result<Vec<(String, String)>, String> {
    let b = s.as_bytes();
    let mut pos = 0usize;
    let mut out = vec![];
    while pos < b.len() {
        // key
        while pos < b.len() && is_space(b[pos]) {
            pos += 1;
        }
        let key_start = pos;
        while pos < b.len() && b[pos] != b'=' && !is_space(b[pos]) {
            pos += 1;
        }
        let key_end = pos;
        while pos < b.len() && is_space(b[pos]) {
            pos += 1;
        }
        if key_start == key_end {
            // empty rule or trailing whitespace
            if pos < b.len() {
                // something like " =x": an '=' without a key
                return Err("empty key".into());
            }
            break;
        }
        if pos >= b.len() || b[pos] != b'=' {
            return Err("key without '='".into());
        }
        pos += 1;
        let key = String::from_utf8_lossy(&b[key_start..key_end]).into_owned();
        // value
        let mut val: Vec<u8> = vec![];
        #[derive(PartialEq)]
        enum Q {
            None,
            Quote,
            Backslash,
        }
        let mut q = Q::None;
        while pos < b.len() {
            let c = b[pos];
            match q {
                Q::None => match c {
                    b'\'' => q = Q::Quote,
                    b',' => {
                        pos += 1;
                        break;
                    }
                    b'\\' => q = Q::Backslash,
                    _ => val.push(c),
                },
                Q::Backslash => {
                    if c != b'\'' {
                        val.push(b'\\');
                    }
                    val.push(c);
                    q = Q::None;
                }
                Q::Quote => {
                    if c == b'\'' {
                        q = Q::None
                    } else {
                        val.push(c)
                    }
                }
            }
            pos += 1;
        }
        match q {
            Q::Backslash => val.push(b'\\'),
            Q::Quote => return Err("unbalanced quotation marks".into()),
            Q::None => {}
        }
        let val = String::from_utf8(val).map_err(|_| "value is not UTF-8".to_string())?;
        out.push((key, val));
    }
    Ok(out)
}

pub fn parse(s: &str, opts: ParseOpts) -> Result<RRule, String> {
    let toks = tokenize(s)?;
    if let Some(m) = opts.max_tokens {
        if toks.len() > m {
            return Err("too many tokens".into());
        }
    }
    let mut r = RRule::default();
    let mut seen: Vec<&str> = vec![];
    let mut arg_index_used: Vec<u8> = vec![];
    for (k, v) in &toks {
        // (the daemon checks "specified twice" per key, and has no such check for eavesdrop: the
        // last one wins)
        if k != "eavesdrop" && seen.contains(&k.as_str()) {
            return Err(format!("key {k} specified twice"));
        }
        seen.push(k.as_str());
        match k.as_str() {
            "type" => r.msg_type = Some(MType::parse(v).ok_or("invalid message type")?),
            "sender" => {
                if !valid_bus_name(v) {
                    return Err("invalid sender".into());
                }
                r.sender = Some(v.clone())
            }
            "interface" => {
                if !valid_interface(v) {
                    return Err("invalid interface".into());
                }
                r.interface = Some(v.clone())
            }
            "member" => {
                if !valid_member(v) {
                    return Err("invalid member".into());
                }
                r.member = Some(v.clone())
            }
            "path" | "path_namespace" => {
                if r.path.is_some() || r.path_namespace.is_some() {
                    return Err("path and path_namespace together".into());
                }
                if !valid_path(v) {
                    return Err("invalid path".into());
                }
                if k == "path" {
                    r.path = Some(v.clone())
                } else {
                    r.path_namespace = Some(v.clone())
                }
            }
            "destination" => {
                if !valid_bus_name(v) {
                    return Err("invalid destination".into());
                }
                r.destination = Some(v.clone())
            }
            "eavesdrop" => {
                r.eavesdrop = Some(match v.as_str() {
                    "true" => true,
                    "false" => false,
                    _ => return Err("invalid eavesdrop".into()),
                })
            }
            k if k.starts_with("arg") => {
                let rest = &k[3..];
                let digits = rest.bytes().take_while(|c| c.is_ascii_digit()).count();
                if digits == 0 {
                    return Err("argN without N".into());
                }
                let n: u32 = rest[..digits].parse().map_err(|_| "bad arg index")?;
                if n > 63 {
                    return Err("arg index above 63".into());
                }
                let n = n as u8;
                let suffix = &rest[digits..];
                if opts.one_matcher_per_arg_index {
                    if arg_index_used.contains(&n) {
                        return Err("argument matched more than once".into());
                    }
                    arg_index_used.push(n);
                }
                match suffix {
                    "" => {
                        r.args.insert(n, v.clone());
                    }
                    "path" => {
                        r.arg_paths.insert(n, v.clone());
                    }
                    "namespace" => {
                        if n != 0 {
                            return Err("namespace only for arg0".into());
                        }
                        if !valid_bus_namespace(v) {
                            return Err("invalid arg0namespace".into());
                        }
                        r.arg0namespace = Some(v.clone());
                    }
                    _ => return Err("unknown arg key suffix".into()),
                }
            }
            _ => return Err(format!("unknown key {k}")),
        }
    }
    Ok(r)
}

pub fn quote(v: &str) -> String {
    format!("'{}'", v.replace('\'', "'\\''"))
}

/// Canonical, always-quoted string form.
pub fn print(r: &RRule) -> String {
    let mut parts = vec![];
    if let Some(t) = r.msg_type {
        parts.push(format!("type={}", quote(t.as_str())));
    }
    if let Some(v) = &r.sender {
        parts.push(format!("sender={}", quote(v)));
    }
    if let Some(v) = &r.interface {
        parts.push(format!("interface={}", quote(v)));
    }
    if let Some(v) = &r.member {
        parts.push(format!("member={}", quote(v)));
    }
    if let Some(v) = &r.path {
        parts.push(format!("path={}", quote(v)));
    }
    if let Some(v) = &r.path_namespace {
        parts.push(format!("path_namespace={}", quote(v)));
    }
    if let Some(v) = &r.destination {
        parts.push(format!("destination={}", quote(v)));
    }
    for (i, v) in &r.args {
        parts.push(format!("arg{i}={}", quote(v)));
    }
    for (i, v) in &r.arg_paths {
        parts.push(format!("arg{i}path={}", quote(v)));
    }
    if let Some(v) = &r.arg0namespace {
        parts.push(format!("arg0namespace={}", quote(v)));
    }
    if let Some(e) = r.eavesdrop {
        parts.push(format!("eavesdrop='{e}'"));
    }
    parts.join(",")
}

#[cfg(test)]
mod tests {
    use super::*;
    #[test]
    fn quoting() {
        let t = tokenize("arg0='a,b',arg1=a\\'b,arg2='\\',arg3=x\\y,arg4='a'\\''b'").unwrap();
        assert_eq!(t[0].1, "a,b");
        assert_eq!(t[1].1, "a'b");
        assert_eq!(t[2].1, "\\");
        assert_eq!(t[3].1, "x\\y");
        assert_eq!(t[4].1, "a'b");
        assert!(tokenize("arg0='''").is_err());
        for v in ["", "a", "'", ",", "\\", "'\\''", "a,b", "=", " "] {
            let mut r = RRule::default();
            r.args.insert(0, v.to_string());
            assert_eq!(parse(&print(&r), ParseOpts::DAEMON).unwrap(), r);
        }
    }
    #[test]
    fn semantics() {
        assert!(path_in_namespace("/a/b", "/a"));
        assert!(!path_in_namespace("/ab", "/a"));
        assert!(path_in_namespace("/ab", "/"));
        assert!(arg_path_matches("/a/", "/a/b"));
        assert!(arg_path_matches("/a/b", "/a/"));
        assert!(!arg_path_matches("/a/b", "/a/b/"));
        assert!(!arg_path_matches("/a/b", "/a/b/c"));
        assert!(in_name_namespace("a.b.c", "a.b"));
        assert!(!in_name_namespace("a.bc", "a.b"));
    }
}

// ---------------------------------------------------------------------------------------------
// libdbus through dlopen (no link-time dependency)

pub mod ffi {
    use std::ffi::{c_char, c_int, c_uint, c_void, CStr, CString};

    #[repr(C)]
    pub struct DBusError {
        pub name: *const c_char,
        pub message: *const c_char,
        dummy: c_uint,
        padding1: *mut c_void,
    }

    impl DBusError {
        pub fn new() -> Self {
            DBusError {
                name: std::ptr::null(),
                message: std::ptr::null(),
                dummy: 0,
                padding1: std::ptr::null_mut(),
            }
        }
    }

    /// Opaque, generously sized (the real one is 14 words).
    #[repr(C, align(8))]
    pub struct DBusMessageIter(pub [u8; 256]);

    pub const DBUS_TYPE_STRING: c_int = b's' as c_int;
    pub const DBUS_TYPE_OBJECT_PATH: c_int = b'o' as c_int;
    pub const DBUS_TYPE_UINT32: c_int = b'u' as c_int;
    pub const DBUS_TYPE_VARIANT: c_int = b'v' as c_int;

    macro_rules! lib {
        ($( fn $name:ident ( $($a:ident : $t:ty),* ) $(-> $r:ty)? ; )*) => {
            #[allow(non_snake_case)]
            pub struct Lib { $( pub $name: unsafe extern "C" fn($($t),*) $(-> $r)?, )* }
            impl Lib {
                pub fn load() -> Result<Lib, String> {
                    unsafe {
                        let mut h = std::ptr::null_mut();
                        for n in ["libdbus-1.so.3\0", "libdbus-1.so\0"] {
                            h = libc::dlopen(n.as_ptr() as *const c_char, libc::RTLD_NOW | libc::RTLD_GLOBAL);
                            if !h.is_null() { break; }
                        }
                        if h.is_null() { return Err("cannot dlopen libdbus-1".into()); }
                        Ok(Lib { $( $name: {
                            let sym = libc::dlsym(h, concat!(stringify!($name), "\0").as_ptr() as *const c_char);
                            if sym.is_null() { return Err(format!("libdbus-1 lacks {}", stringify!($name))); }
                            std::mem::transmute::<*mut c_void, unsafe extern "C" fn($($t),*) $(-> $r)?>(sym)
                        }, )* })
                    }
                }
            }
        };
    }

    lib! {
        fn dbus_error_init(e: *mut DBusError);
        fn dbus_error_free(e: *mut DBusError);
        fn dbus_error_is_set(e: *const DBusError) -> c_uint;
        fn dbus_connection_open_private(addr: *const c_char, e: *mut DBusError) -> *mut c_void;
        fn dbus_connection_set_exit_on_disconnect(c: *mut c_void, v: c_uint);
        fn dbus_bus_register(c: *mut c_void, e: *mut DBusError) -> c_uint;
        fn dbus_bus_get_unique_name(c: *mut c_void) -> *const c_char;
        fn dbus_bus_add_match(c: *mut c_void, rule: *const c_char, e: *mut DBusError);
        fn dbus_bus_remove_match(c: *mut c_void, rule: *const c_char, e: *mut DBusError);
        fn dbus_bus_request_name(c: *mut c_void, name: *const c_char, flags: c_uint, e: *mut DBusError) -> c_int;
        fn dbus_bus_release_name(c: *mut c_void, name: *const c_char, e: *mut DBusError) -> c_int;
        fn dbus_connection_send(c: *mut c_void, m: *mut c_void, serial: *mut u32) -> c_uint;
        fn dbus_connection_flush(c: *mut c_void);
        fn dbus_connection_read_write(c: *mut c_void, timeout_ms: c_int) -> c_uint;
        fn dbus_connection_pop_message(c: *mut c_void) -> *mut c_void;
        fn dbus_connection_close(c: *mut c_void);
        fn dbus_connection_unref(c: *mut c_void);
        fn dbus_message_new_signal(path: *const c_char, iface: *const c_char, name: *const c_char) -> *mut c_void;
        fn dbus_message_new_method_call(dest: *const c_char, path: *const c_char, iface: *const c_char, method: *const c_char) -> *mut c_void;
        fn dbus_message_set_destination(m: *mut c_void, d: *const c_char) -> c_uint;
        fn dbus_message_set_no_reply(m: *mut c_void, v: c_uint);
        fn dbus_message_unref(m: *mut c_void);
        fn dbus_message_get_serial(m: *mut c_void) -> u32;
        fn dbus_message_get_sender(m: *mut c_void) -> *const c_char;
        fn dbus_message_get_member(m: *mut c_void) -> *const c_char;
        fn dbus_message_get_type(m: *mut c_void) -> c_int;
        fn dbus_message_iter_init_append(m: *mut c_void, it: *mut DBusMessageIter);
        fn dbus_message_iter_append_basic(it: *mut DBusMessageIter, ty: c_int, v: *const c_void) -> c_uint;
        fn dbus_message_iter_open_container(it: *mut DBusMessageIter, ty: c_int, sig: *const c_char, sub: *mut DBusMessageIter) -> c_uint;
        fn dbus_message_iter_close_container(it: *mut DBusMessageIter, sub: *mut DBusMessageIter) -> c_uint;
        fn dbus_parse_address(addr: *const c_char, entries: *mut *mut *mut c_void, n: *mut c_int, e: *mut DBusError) -> c_uint;
        fn dbus_address_entries_free(entries: *mut *mut c_void);
        fn dbus_address_entry_get_method(entry: *mut c_void) -> *const c_char;
        fn dbus_address_entry_get_value(entry: *mut c_void, key: *const c_char) -> *const c_char;
        fn dbus_address_escape_value(v: *const c_char) -> *mut c_char;
        fn dbus_free(p: *mut c_void);
    }

    pub fn cs(s: &str) -> CString {
        CString::new(s).expect("no NUL in C string")
    }

    pub unsafe fn from_c(p: *const c_char) -> Option<String> {
        if p.is_null() {
            None
        } else {
            Some(CStr::from_ptr(p).to_string_lossy().into_owned())
        }
    }
}

// ---------------------------------------------------------------------------------------------
// Audit against a private dbus-daemon

pub mod audit {
    use super::ffi::*;
    use super::{MType, RArg, RMsg};
    use std::{
        ffi::{c_int, c_void},
        os::unix::process::CommandExt,
        path::PathBuf,
        process::{Child, Command, Stdio},
    };

    pub struct Bus {
        pub dir: PathBuf,
        pub address: String,
        child: Child,
    }

    impl Bus {
        /// Start a private dbus-daemon on a unix socket below `<VERIF_ROOT>/.run`. The daemon is
        /// killed when this process dies (PR_SET_PDEATHSIG) or when `Bus` is dropped.
        pub fn start(tag: &str) -> Result<Bus, String> {
            let dir = vcommon::verif_root()
                .join(".run")
                .join(format!("{tag}-{}", std::process::id()));
            let _ = std::fs::remove_dir_all(&dir);
            std::fs::create_dir_all(&dir).map_err(|e| format!("mkdir {dir:?}: {e}"))?;
            let sock = dir.join("sock");
            let conf = dir.join("bus.conf");
            let xml = format!(
                r#"<!DOCTYPE busconfig PUBLIC "-//freedesktop//DTD D-Bus Bus Configuration 1.0//EN"
 "http://www.freedesktop.org/standards/dbus/1.0/busconfig.dtd">
<busconfig>
  <type>session</type>
  <listen>unix:path={}</listen>
  <auth>EXTERNAL</auth>
  <policy context="default">
    <allow user="*"/>
    <allow own="*"/>
    <allow send_destination="*" eavesdrop="true"/>
    <allow eavesdrop="true"/>
  </policy>
  <limit name="max_replies_per_connection">50000</limit>
  <limit name="max_match_rules_per_connection">50000</limit>
</busconfig>
"#,
                sock.display()
            );
            std::fs::write(&conf, xml).map_err(|e| format!("write conf: {e}"))?;
            let mut cmd = Command::new("/usr/bin/dbus-daemon");
            cmd.arg(format!("--config-file={}", conf.display()))
                .arg("--nofork")
                .arg("--nopidfile")
                .arg("--nosyslog")
                .stdin(Stdio::null())
                .stdout(Stdio::null())
                .stderr(Stdio::null());
            unsafe {
                cmd.pre_exec(|| {
                    libc::prctl(libc::PR_SET_PDEATHSIG, libc::SIGKILL);
                    Ok(())
                });
            }
            let mut child = cmd.spawn().map_err(|e| format!("spawn dbus-daemon: {e}"))?;
            let t0 = std::time::Instant::now();
            while !sock.exists() {
                if let Ok(Some(st)) = child.try_wait() {
                    return Err(format!("dbus-daemon exited early: {st}"));
                }
                if t0.elapsed().as_secs() > 10 {
                    let _ = child.kill();
                    return Err("dbus-daemon did not create its socket".into());
                }
                std::thread::sleep(std::time::Duration::from_millis(5));
            }
            Ok(Bus {
                address: format!("unix:path={}", sock.display()),
                dir,
                child,
            })
        }
    }

    impl Drop for Bus {
        fn drop(&mut self) {
            let _ = self.child.kill();
            let _ = self.child.wait();
            let _ = std::fs::remove_dir_all(&self.dir);
        }
    }

    pub struct Client<'l> {
        pub lib: &'l Lib,
        conn: *mut c_void,
        pub unique: String,
    }

    #[derive(Clone, Debug)]
    pub struct Seen {
        pub serial: u32,
        pub sender: Option<String>,
        pub member: Option<String>,
        pub mtype: c_int,
    }

    impl<'l> Client<'l> {
        pub fn connect(lib: &'l Lib, bus: &Bus) -> Result<Self, String> {
            unsafe {
                let mut e = DBusError::new();
                (lib.dbus_error_init)(&mut e);
                let a = cs(&bus.address);
                let conn = (lib.dbus_connection_open_private)(a.as_ptr(), &mut e);
                if conn.is_null() {
                    let m = from_c(e.message).unwrap_or_default();
                    (lib.dbus_error_free)(&mut e);
                    return Err(format!("connect: {m}"));
                }
                (lib.dbus_connection_set_exit_on_disconnect)(conn, 0);
                if (lib.dbus_bus_register)(conn, &mut e) == 0 {
                    let m = from_c(e.message).unwrap_or_default();
                    (lib.dbus_error_free)(&mut e);
                    return Err(format!("Hello: {m}"));
                }
                let unique = from_c((lib.dbus_bus_get_unique_name)(conn)).unwrap_or_default();
                Ok(Client { lib, conn, unique })
            }
        }

        /// AddMatch, waiting for the daemon's answer. Err = the daemon's error message.
        pub fn add_match(&self, rule: &str) -> Result<(), String> {
            unsafe {
                let mut e = DBusError::new();
                (self.lib.dbus_error_init)(&mut e);
                let r = cs(rule);
                (self.lib.dbus_bus_add_match)(self.conn, r.as_ptr(), &mut e);
                if (self.lib.dbus_error_is_set)(&e) != 0 {
                    let m = format!(
                        "{}: {}",
                        from_c(e.name).unwrap_or_default(),
                        from_c(e.message).unwrap_or_default()
                    );
                    (self.lib.dbus_error_free)(&mut e);
                    return Err(m);
                }
                Ok(())
            }
        }

        pub fn remove_match(&self, rule: &str) -> Result<(), String> {
            unsafe {
                let mut e = DBusError::new();
                (self.lib.dbus_error_init)(&mut e);
                let r = cs(rule);
                (self.lib.dbus_bus_remove_match)(self.conn, r.as_ptr(), &mut e);
                if (self.lib.dbus_error_is_set)(&e) != 0 {
                    let m = from_c(e.message).unwrap_or_default();
                    (self.lib.dbus_error_free)(&mut e);
                    return Err(m);
                }
                Ok(())
            }
        }

        pub fn request_name(&self, name: &str) -> Result<i32, String> {
            unsafe {
                let mut e = DBusError::new();
                (self.lib.dbus_error_init)(&mut e);
                let n = cs(name);
                let r = (self.lib.dbus_bus_request_name)(self.conn, n.as_ptr(), 0, &mut e);
                if (self.lib.dbus_error_is_set)(&e) != 0 {
                    let m = from_c(e.message).unwrap_or_default();
                    (self.lib.dbus_error_free)(&mut e);
                    return Err(m);
                }
                Ok(r)
            }
        }

        /// Build and queue a message described by `m` (sender is stamped by the daemon). Method
        /// calls are flagged NO_REPLY_EXPECTED. Returns the serial.
        pub fn send(&self, m: &RMsg) -> Result<u32, String> {
            unsafe {
                let path = cs(m.path.as_deref().unwrap_or("/"));
                let iface = m.interface.as_deref().map(cs);
                let member = cs(m.member.as_deref().unwrap_or("M"));
                let dest = m.destination.as_deref().map(cs);
                let msg = match m.mtype {
                    MType::Signal => (self.lib.dbus_message_new_signal)(
                        path.as_ptr(),
                        iface.as_ref().map(|c| c.as_ptr()).unwrap_or(std::ptr::null()),
                        member.as_ptr(),
                    ),
                    MType::MethodCall => (self.lib.dbus_message_new_method_call)(
                        std::ptr::null(),
                        path.as_ptr(),
                        iface.as_ref().map(|c| c.as_ptr()).unwrap_or(std::ptr::null()),
                        member.as_ptr(),
                    ),
                    _ => return Err("audit sends signals and method calls only".into()),
                };
                if msg.is_null() {
                    return Err("libdbus refused to build the message".into());
                }
                if m.mtype == MType::MethodCall {
                    (self.lib.dbus_message_set_no_reply)(msg, 1);
                }
                if let Some(d) = &dest {
                    if (self.lib.dbus_message_set_destination)(msg, d.as_ptr()) == 0 {
                        (self.lib.dbus_message_unref)(msg);
                        return Err("set_destination failed".into());
                    }
                }
                let mut it = DBusMessageIter([0; 256]);
                (self.lib.dbus_message_iter_init_append)(msg, &mut it);
                for a in &m.args {
                    let ok = match a {
                        RArg::Str(s) => {
                            let c = cs(s);
                            let p = c.as_ptr();
                            (self.lib.dbus_message_iter_append_basic)(
                                &mut it,
                                DBUS_TYPE_STRING,
                                &p as *const _ as *const c_void,
                            )
                        }
                        RArg::Path(s) => {
                            let c = cs(s);
                            let p = c.as_ptr();
                            (self.lib.dbus_message_iter_append_basic)(
                                &mut it,
                                DBUS_TYPE_OBJECT_PATH,
                                &p as *const _ as *const c_void,
                            )
                        }
                        RArg::Other => {
                            let v: u32 = 1;
                            (self.lib.dbus_message_iter_append_basic)(
                                &mut it,
                                DBUS_TYPE_UINT32,
                                &v as *const _ as *const c_void,
                            )
                        }
                    };
                    if ok == 0 {
                        (self.lib.dbus_message_unref)(msg);
                        return Err("append failed".into());
                    }
                }
                let mut serial = 0u32;
                let ok = (self.lib.dbus_connection_send)(self.conn, msg, &mut serial);
                (self.lib.dbus_message_unref)(msg);
                if ok == 0 {
                    return Err("send failed".into());
                }
                Ok(serial)
            }
        }

        pub fn flush(&self) {
            unsafe { (self.lib.dbus_connection_flush)(self.conn) }
        }

        /// Read messages until one with member `sentinel_member` and serial `sentinel_serial`
        /// arrives; returns everything seen before it.
        pub fn read_until(
            &self,
            sentinel_member: &str,
            sentinel_sender: &str,
            sentinel_serial: u32,
        ) -> Result<Vec<Seen>, String> {
            let t0 = std::time::Instant::now();
            let mut seen = vec![];
            unsafe {
                loop {
                    loop {
                        let m = (self.lib.dbus_connection_pop_message)(self.conn);
                        if m.is_null() {
                            break;
                        }
                        let s = Seen {
                            serial: (self.lib.dbus_message_get_serial)(m),
                            sender: from_c((self.lib.dbus_message_get_sender)(m)),
                            member: from_c((self.lib.dbus_message_get_member)(m)),
                            mtype: (self.lib.dbus_message_get_type)(m),
                        };
                        (self.lib.dbus_message_unref)(m);
                        if s.member.as_deref() == Some(sentinel_member)
                            && s.sender.as_deref() == Some(sentinel_sender)
                            && s.serial == sentinel_serial
                        {
                            return Ok(seen);
                        }
                        seen.push(s);
                    }
                    if t0.elapsed().as_secs() > 20 {
                        return Err("timeout waiting for the sentinel signal".into());
                    }
                    if (self.lib.dbus_connection_read_write)(self.conn, 200) == 0 {
                        return Err("disconnected from the private bus".into());
                    }
                }
            }
        }
    }

    impl Drop for Client<'_> {
        fn drop(&mut self) {
            unsafe {
                (self.lib.dbus_connection_close)(self.conn);
                (self.lib.dbus_connection_unref)(self.conn);
            }
        }
    }

    pub const SENTINEL_IFACE: &str = "zz.verif.Sentinel";
    pub const SENTINEL_MEMBER: &str = "Sentinel";

    /// Two registered clients: `s` emits, `r` holds the rule under audit. Both permanently match
    /// the sentinel signal so that each can synchronise with the daemon.
    pub struct Pair<'l> {
        pub s: Client<'l>,
        pub r: Client<'l>,
        /// a third connection whose unique name serves as "some other existing connection"
        pub t: Client<'l>,
    }

    impl<'l> Pair<'l> {
        pub fn new(lib: &'l Lib, bus: &Bus) -> Result<Self, String> {
            let s = Client::connect(lib, bus)?;
            let r = Client::connect(lib, bus)?;
            let t = Client::connect(lib, bus)?;
            let rule = format!("type='signal',interface='{SENTINEL_IFACE}'");
            s.add_match(&rule)?;
            r.add_match(&rule)?;
            Ok(Pair { s, r, t })
        }

        /// With `rule` installed on `r`, send `msgs` from `s`; result[i] = whether msgs[i] was
        /// delivered to `r`. Err(..) from AddMatch is returned as Ok(Err(daemon message)).
        pub fn deliveries(&self, rule: &str, msgs: &[RMsg]) -> Result<Result<Vec<bool>, String>, String> {
            if let Err(e) = self.r.add_match(rule) {
                return Ok(Err(e));
            }
            let mut out = Vec::with_capacity(msgs.len());
            for batch in msgs.chunks(64) {
                let mut serials = vec![];
                for m in batch {
                    serials.push(self.s.send(m)?);
                }
                let sentinel = RMsg {
                    mtype: MType::Signal,
                    sender: None,
                    interface: Some(SENTINEL_IFACE.into()),
                    member: Some(SENTINEL_MEMBER.into()),
                    path: Some("/".into()),
                    destination: None,
                    args: vec![],
                };
                let ss = self.s.send(&sentinel)?;
                self.s.flush();
                let seen = self.r.read_until(SENTINEL_MEMBER, &self.s.unique, ss)?;
                let _ = self.s.read_until(SENTINEL_MEMBER, &self.s.unique, ss)?;
                for sn in &serials {
                    out.push(seen.iter().any(|x| {
                        x.serial == *sn && x.sender.as_deref() == Some(self.s.unique.as_str())
                    }));
                }
            }
            self.r.remove_match(rule)?;
            Ok(Ok(out))
        }
    }
}

// ---------------------------------------------------------------------------------------------
// JSON form of a rule (replay artefacts)

pub fn rule_to_json(r: &RRule) -> serde_json::Value {
    serde_json::json!({
        "type": r.msg_type.map(|t| t.as_str()),
        "sender": r.sender,
        "interface": r.interface,
        "member": r.member,
        "path": r.path,
        "path_namespace": r.path_namespace,
        "destination": r.destination,
        "args": r.args.iter().map(|(i, v)| serde_json::json!([i, v])).collect::<Vec<_>>(),
        "arg_paths": r.arg_paths.iter().map(|(i, v)| serde_json::json!([i, v])).collect::<Vec<_>>(),
        "arg0namespace": r.arg0namespace,
    })
}

pub fn rule_from_json(v: &serde_json::Value) -> RRule {
    let s = |k: &str| v[k].as_str().map(|x| x.to_string());
    let pairs = |k: &str| -> BTreeMap<u8, String> {
        v[k].as_array()
            .map(|a| {
                a.iter()
                    .map(|p| (p[0].as_u64().unwrap_or(0) as u8, p[1].as_str().unwrap_or("").to_string()))
                    .collect()
            })
            .unwrap_or_default()
    };
    RRule {
        msg_type: v["type"].as_str().and_then(MType::parse),
        sender: s("sender"),
        interface: s("interface"),
        member: s("member"),
        path: s("path"),
        path_namespace: s("path_namespace"),
        destination: s("destination"),
        args: pairs("args"),
        arg_paths: pairs("arg_paths"),
        arg0namespace: s("arg0namespace"),
        eavesdrop: None,
    }
}
