//! C28 — not built yet.
use vcommon::Args;

pub fn main(_args: &Args) -> i32 {
    vcommon::machinery_failure("C28: check not built yet")
}
