//! C28 — the Properties interface behaves as the property definitions say.
//!
//! A hand-generated bank of four interfaces covers property types {u, s, as, (us)} x access
//! {read, readwrite, write} x EmitsChangedSignal {true, invalidates, const, false} (write-only
//! properties cannot carry the attribute; the macro makes them `false`). Setter styles differ per
//! interface (`&mut self`, `&self`, fallible, async). All four interfaces are registered at one
//! path of a real p2p connection pair; every history of Get / GetAll / Set (valid, wrongly typed,
//! unknown, read-only) over one interface, up to the depth bound, is issued over the wire through
//! org.freedesktop.DBus.Properties, a PropertiesChanged collector on the client is drained after
//! every step, and after the last step the whole property state is read back (GetAll, Get of every
//! property, and the write-only field through `ObjectServer::interface`).

use std::collections::{BTreeMap, HashSet};
use std::sync::atomic::{AtomicU64, Ordering::Relaxed};
use std::sync::Mutex;

use futures_lite::StreamExt;
use serde_json::{json, Value as J};
use vcommon::{enumerate, hash64, Args, Report, Violation};
use zbus::{
    zvariant::{Array, OwnedValue, StructureBuilder, Value},
    Connection, MessageStream,
};

use crate::osrv::{call, short_err, Ran, Reply, Sys};

const PATH: &str = "/o";
const PROPS: &str = "org.freedesktop.DBus.Properties";

#[derive(Clone, Copy, PartialEq, Eq, Debug, Hash, PartialOrd, Ord)]
pub(crate) enum Ty {
    U,
    S,
    AS,
    US,
}
const TYPES: [Ty; 4] = [Ty::U, Ty::S, Ty::AS, Ty::US];

impl Ty {
    fn sig(self) -> &'static str {
        match self {
            Ty::U => "u",
            Ty::S => "s",
            Ty::AS => "as",
            Ty::US => "(us)",
        }
    }
}

#[derive(Clone, PartialEq, Eq, Debug, Hash, PartialOrd, Ord)]
pub(crate) enum PV {
    U(u32),
    S(String),
    AS(Vec<String>),
    US(u32, String),
    Other(String),
}

pub(crate) trait Rusty: Sized {
    fn from_pv(p: PV) -> Self;
    fn to_pv(self) -> PV;
}
impl Rusty for u32 {
    fn from_pv(p: PV) -> Self {
        match p {
            PV::U(v) => v,
            _ => unreachable!(),
        }
    }
    fn to_pv(self) -> PV {
        PV::U(self)
    }
}
impl Rusty for String {
    fn from_pv(p: PV) -> Self {
        match p {
            PV::S(v) => v,
            _ => unreachable!(),
        }
    }
    fn to_pv(self) -> PV {
        PV::S(self)
    }
}
impl Rusty for Vec<String> {
    fn from_pv(p: PV) -> Self {
        match p {
            PV::AS(v) => v,
            _ => unreachable!(),
        }
    }
    fn to_pv(self) -> PV {
        PV::AS(self)
    }
}
impl Rusty for (u32, String) {
    fn from_pv(p: PV) -> Self {
        match p {
            PV::US(a, b) => (a, b),
            _ => unreachable!(),
        }
    }
    fn to_pv(self) -> PV {
        PV::US(self.0, self.1)
    }
}

impl PV {
    fn into_rust<T: Rusty>(self) -> T {
        T::from_pv(self)
    }
    fn from_rust<T: Rusty>(t: T) -> PV {
        t.to_pv()
    }
    fn to_value(&self) -> Value<'static> {
        match self {
            PV::U(v) => Value::U32(*v),
            PV::S(s) => Value::Str(s.clone().into()),
            PV::AS(v) => Value::Array(Array::from(v.clone())),
            PV::US(a, b) => Value::Structure(
                StructureBuilder::new().add_field(*a).add_field(b.clone()).build().unwrap(),
            ),
            PV::Other(_) => Value::Bool(false),
        }
    }
    fn from_value(v: &Value<'_>) -> PV {
        match v {
            Value::U32(u) => PV::U(*u),
            Value::Str(s) => PV::S(s.to_string()),
            Value::Array(a) if a.element_signature().to_string() == "s" => {
                let mut out = vec![];
                for e in a.iter() {
                    match e {
                        Value::Str(s) => out.push(s.to_string()),
                        _ => return PV::Other(format!("{v:?}")),
                    }
                }
                PV::AS(out)
            }
            Value::Structure(s) => match s.fields() {
                [Value::U32(a), Value::Str(b)] => PV::US(*a, b.to_string()),
                _ => PV::Other(format!("{v:?}")),
            },
            Value::Value(inner) => PV::Other(format!("nested variant {inner:?}")),
            _ => PV::Other(format!("{v:?}")),
        }
    }
    fn show(&self) -> String {
        match self {
            PV::U(v) => format!("{v}"),
            PV::S(s) => format!("{s:?}"),
            PV::AS(v) => format!("{v:?}"),
            PV::US(a, b) => format!("({a}, {b:?})"),
            PV::Other(s) => format!("?{s}"),
        }
    }
}

#[derive(Clone, Copy, PartialEq, Eq, Debug)]
enum Access {
    Ro,
    Rw,
    Wo,
}

/// The nine access / EmitsChangedSignal modes every bank interface has, in field order.
const MODES: [(Access, &str, &str); 9] = [
    (Access::Ro, "true", "RoTrue"),
    (Access::Ro, "invalidates", "RoInval"),
    (Access::Ro, "const", "RoConst"),
    (Access::Ro, "false", "RoFalse"),
    (Access::Rw, "true", "RwTrue"),
    (Access::Rw, "invalidates", "RwInval"),
    (Access::Rw, "const", "RwConst"),
    (Access::Rw, "false", "RwFalse"),
    (Access::Wo, "false", "Wo"),
];
const SETTER_STYLE: [&str; 4] = ["&mut self", "&self", "&mut self -> fdo::Result", "async &self"];

fn ty_of(k: usize, j: usize) -> Ty {
    TYPES[(j + k) % 4]
}
fn readable(j: usize) -> bool {
    MODES[j].0 != Access::Wo
}
fn writable(j: usize) -> bool {
    MODES[j].0 != Access::Ro
}
fn access_str(j: usize) -> &'static str {
    match MODES[j].0 {
        Access::Ro => "read",
        Access::Rw => "readwrite",
        Access::Wo => "write",
    }
}

fn init(t: Ty, j: usize) -> PV {
    match t {
        Ty::U => PV::U(100 + j as u32),
        Ty::S => PV::S(format!("s{j}")),
        Ty::AS => PV::AS(vec![format!("i{j}")]),
        Ty::US => PV::US(j as u32, format!("t{j}")),
    }
}

/// Two values to Set, both different from every initial value.
fn set_values(t: Ty) -> [PV; 2] {
    match t {
        Ty::U => [PV::U(11), PV::U(0)],
        Ty::S => [PV::S("p".into()), PV::S(String::new())],
        Ty::AS => [PV::AS(vec!["a".into(), "b".into()]), PV::AS(vec![])],
        Ty::US => [PV::US(1, "x".into()), PV::US(0, String::new())],
    }
}

/// A well-typed value that the fallible setters (interface B2) refuse with an error.
fn refused_value(t: Ty) -> PV {
    match t {
        Ty::U => PV::U(999),
        Ty::S => PV::S("refuse".into()),
        Ty::AS => PV::AS(vec!["refuse".into()]),
        Ty::US => PV::US(999, "refuse".into()),
    }
}
fn refuses<T: Rusty + Clone>(t: Ty, v: &T) -> zbus::fdo::Result<()> {
    if v.clone().to_pv() == refused_value(t) {
        Err(zbus::fdo::Error::InvalidArgs("refused by the setter".into()))
    } else {
        Ok(())
    }
}

/// Values whose D-Bus type is not the property's.
fn wrong_kinds(t: Ty) -> &'static [&'static str] {
    match t {
        Ty::U => &["string", "int32"],
        Ty::S => &["uint32", "object-path"],
        Ty::AS => &["uint32", "array-of-uint32", "empty-array-of-uint32", "array-of-variants-holding-strings"],
        Ty::US => &["string", "struct-fields-swapped", "struct-with-missing-field", "struct-with-extra-field"],
    }
}

fn wrong_value(kind: &str) -> Value<'static> {
    match kind {
        "string" => Value::Str("x".into()),
        "int32" => Value::I32(5),
        "uint32" => Value::U32(7),
        "object-path" => Value::ObjectPath("/x".try_into().unwrap()),
        "array-of-uint32" => Value::Array(Array::from(vec![1u32])),
        "empty-array-of-uint32" => Value::Array(Array::from(Vec::<u32>::new())),
        "array-of-variants-holding-strings" => {
            Value::Array(Array::from(vec![Value::Str("x".into())]))
        }
        "struct-fields-swapped" => Value::Structure(
            StructureBuilder::new().add_field("x").add_field(1u32).build().unwrap(),
        ),
        "struct-with-missing-field" => {
            Value::Structure(StructureBuilder::new().add_field(1u32).build().unwrap())
        }
        "struct-with-extra-field" => Value::Structure(
            StructureBuilder::new().add_field(1u32).add_field("x").add_field(2u32).build().unwrap(),
        ),
        _ => unreachable!(),
    }
}

pub(crate) trait Bank: zbus::object_server::Interface + Sized {
    fn fresh() -> Self;
    fn peek(&self, j: usize) -> PV;
}

// ---- generated by hand-run script (see DESIGN §6 C28): 4 interfaces x 9 access/emits modes, types rotated ----
pub(crate) struct B0 {
    ro_true: Mutex<u32>,
    ro_inval: Mutex<String>,
    ro_const: Mutex<Vec<String>>,
    ro_false: Mutex<(u32, String)>,
    rw_true: Mutex<u32>,
    rw_inval: Mutex<String>,
    rw_const: Mutex<Vec<String>>,
    rw_false: Mutex<(u32, String)>,
    wo: Mutex<u32>,
}
#[zbus::interface(name = "x.v.B0")]
impl B0 {
    #[zbus(property)]
    fn ro_true(&self) -> u32 { self.ro_true.lock().unwrap().clone() }
    #[zbus(property(emits_changed_signal = "invalidates"))]
    fn ro_inval(&self) -> String { self.ro_inval.lock().unwrap().clone() }
    #[zbus(property(emits_changed_signal = "const"))]
    fn ro_const(&self) -> Vec<String> { self.ro_const.lock().unwrap().clone() }
    #[zbus(property(emits_changed_signal = "false"))]
    fn ro_false(&self) -> (u32, String) { self.ro_false.lock().unwrap().clone() }
    #[zbus(property)]
    fn rw_true(&self) -> u32 { self.rw_true.lock().unwrap().clone() }
    #[zbus(property)]
    fn set_rw_true(&mut self, v: u32) { *self.rw_true.get_mut().unwrap() = v; }
    #[zbus(property(emits_changed_signal = "invalidates"))]
    fn rw_inval(&self) -> String { self.rw_inval.lock().unwrap().clone() }
    #[zbus(property)]
    fn set_rw_inval(&mut self, v: String) { *self.rw_inval.get_mut().unwrap() = v; }
    #[zbus(property(emits_changed_signal = "const"))]
    fn rw_const(&self) -> Vec<String> { self.rw_const.lock().unwrap().clone() }
    #[zbus(property)]
    fn set_rw_const(&mut self, v: Vec<String>) { *self.rw_const.get_mut().unwrap() = v; }
    #[zbus(property(emits_changed_signal = "false"))]
    fn rw_false(&self) -> (u32, String) { self.rw_false.lock().unwrap().clone() }
    #[zbus(property)]
    fn set_rw_false(&mut self, v: (u32, String)) { *self.rw_false.get_mut().unwrap() = v; }
    #[zbus(property)]
    fn set_wo(&mut self, v: u32) { *self.wo.get_mut().unwrap() = v; }
}
impl Bank for B0 {
    fn fresh() -> Self { B0 { ro_true: Mutex::new(init(Ty::U, 0).into_rust()), ro_inval: Mutex::new(init(Ty::S, 1).into_rust()), ro_const: Mutex::new(init(Ty::AS, 2).into_rust()), ro_false: Mutex::new(init(Ty::US, 3).into_rust()), rw_true: Mutex::new(init(Ty::U, 4).into_rust()), rw_inval: Mutex::new(init(Ty::S, 5).into_rust()), rw_const: Mutex::new(init(Ty::AS, 6).into_rust()), rw_false: Mutex::new(init(Ty::US, 7).into_rust()), wo: Mutex::new(init(Ty::U, 8).into_rust()) } }
    fn peek(&self, j: usize) -> PV { match j { 0 => PV::from_rust(self.ro_true.lock().unwrap().clone()), 1 => PV::from_rust(self.ro_inval.lock().unwrap().clone()), 2 => PV::from_rust(self.ro_const.lock().unwrap().clone()), 3 => PV::from_rust(self.ro_false.lock().unwrap().clone()), 4 => PV::from_rust(self.rw_true.lock().unwrap().clone()), 5 => PV::from_rust(self.rw_inval.lock().unwrap().clone()), 6 => PV::from_rust(self.rw_const.lock().unwrap().clone()), 7 => PV::from_rust(self.rw_false.lock().unwrap().clone()), 8 => PV::from_rust(self.wo.lock().unwrap().clone()), _ => PV::Other(String::new()) } }
}
pub(crate) struct B1 {
    ro_true: Mutex<String>,
    ro_inval: Mutex<Vec<String>>,
    ro_const: Mutex<(u32, String)>,
    ro_false: Mutex<u32>,
    rw_true: Mutex<String>,
    rw_inval: Mutex<Vec<String>>,
    rw_const: Mutex<(u32, String)>,
    rw_false: Mutex<u32>,
    wo: Mutex<String>,
}
#[zbus::interface(name = "x.v.B1")]
impl B1 {
    #[zbus(property)]
    async fn ro_true(&self) -> String { self.ro_true.lock().unwrap().clone() }
    #[zbus(property(emits_changed_signal = "invalidates"))]
    async fn ro_inval(&self) -> Vec<String> { self.ro_inval.lock().unwrap().clone() }
    #[zbus(property(emits_changed_signal = "const"))]
    async fn ro_const(&self) -> (u32, String) { self.ro_const.lock().unwrap().clone() }
    #[zbus(property(emits_changed_signal = "false"))]
    async fn ro_false(&self) -> u32 { self.ro_false.lock().unwrap().clone() }
    #[zbus(property)]
    async fn rw_true(&self) -> String { self.rw_true.lock().unwrap().clone() }
    #[zbus(property)]
    fn set_rw_true(&self, v: String) { *self.rw_true.lock().unwrap() = v; }
    #[zbus(property(emits_changed_signal = "invalidates"))]
    async fn rw_inval(&self) -> Vec<String> { self.rw_inval.lock().unwrap().clone() }
    #[zbus(property)]
    fn set_rw_inval(&self, v: Vec<String>) { *self.rw_inval.lock().unwrap() = v; }
    #[zbus(property(emits_changed_signal = "const"))]
    async fn rw_const(&self) -> (u32, String) { self.rw_const.lock().unwrap().clone() }
    #[zbus(property)]
    fn set_rw_const(&self, v: (u32, String)) { *self.rw_const.lock().unwrap() = v; }
    #[zbus(property(emits_changed_signal = "false"))]
    async fn rw_false(&self) -> u32 { self.rw_false.lock().unwrap().clone() }
    #[zbus(property)]
    fn set_rw_false(&self, v: u32) { *self.rw_false.lock().unwrap() = v; }
    #[zbus(property)]
    fn set_wo(&self, v: String) { *self.wo.lock().unwrap() = v; }
}
impl Bank for B1 {
    fn fresh() -> Self { B1 { ro_true: Mutex::new(init(Ty::S, 0).into_rust()), ro_inval: Mutex::new(init(Ty::AS, 1).into_rust()), ro_const: Mutex::new(init(Ty::US, 2).into_rust()), ro_false: Mutex::new(init(Ty::U, 3).into_rust()), rw_true: Mutex::new(init(Ty::S, 4).into_rust()), rw_inval: Mutex::new(init(Ty::AS, 5).into_rust()), rw_const: Mutex::new(init(Ty::US, 6).into_rust()), rw_false: Mutex::new(init(Ty::U, 7).into_rust()), wo: Mutex::new(init(Ty::S, 8).into_rust()) } }
    fn peek(&self, j: usize) -> PV { match j { 0 => PV::from_rust(self.ro_true.lock().unwrap().clone()), 1 => PV::from_rust(self.ro_inval.lock().unwrap().clone()), 2 => PV::from_rust(self.ro_const.lock().unwrap().clone()), 3 => PV::from_rust(self.ro_false.lock().unwrap().clone()), 4 => PV::from_rust(self.rw_true.lock().unwrap().clone()), 5 => PV::from_rust(self.rw_inval.lock().unwrap().clone()), 6 => PV::from_rust(self.rw_const.lock().unwrap().clone()), 7 => PV::from_rust(self.rw_false.lock().unwrap().clone()), 8 => PV::from_rust(self.wo.lock().unwrap().clone()), _ => PV::Other(String::new()) } }
}
pub(crate) struct B2 {
    ro_true: Mutex<Vec<String>>,
    ro_inval: Mutex<(u32, String)>,
    ro_const: Mutex<u32>,
    ro_false: Mutex<String>,
    rw_true: Mutex<Vec<String>>,
    rw_inval: Mutex<(u32, String)>,
    rw_const: Mutex<u32>,
    rw_false: Mutex<String>,
    wo: Mutex<Vec<String>>,
}
#[zbus::interface(name = "x.v.B2")]
impl B2 {
    #[zbus(property)]
    fn ro_true(&self) -> Vec<String> { self.ro_true.lock().unwrap().clone() }
    #[zbus(property(emits_changed_signal = "invalidates"))]
    fn ro_inval(&self) -> (u32, String) { self.ro_inval.lock().unwrap().clone() }
    #[zbus(property(emits_changed_signal = "const"))]
    fn ro_const(&self) -> u32 { self.ro_const.lock().unwrap().clone() }
    #[zbus(property(emits_changed_signal = "false"))]
    fn ro_false(&self) -> String { self.ro_false.lock().unwrap().clone() }
    #[zbus(property)]
    fn rw_true(&self) -> Vec<String> { self.rw_true.lock().unwrap().clone() }
    #[zbus(property)]
    fn set_rw_true(&mut self, v: Vec<String>) -> zbus::fdo::Result<()> { refuses(Ty::AS, &v)?; *self.rw_true.get_mut().unwrap() = v; Ok(()) }
    #[zbus(property(emits_changed_signal = "invalidates"))]
    fn rw_inval(&self) -> (u32, String) { self.rw_inval.lock().unwrap().clone() }
    #[zbus(property)]
    fn set_rw_inval(&mut self, v: (u32, String)) -> zbus::fdo::Result<()> { refuses(Ty::US, &v)?; *self.rw_inval.get_mut().unwrap() = v; Ok(()) }
    #[zbus(property(emits_changed_signal = "const"))]
    fn rw_const(&self) -> u32 { self.rw_const.lock().unwrap().clone() }
    #[zbus(property)]
    fn set_rw_const(&mut self, v: u32) -> zbus::fdo::Result<()> { refuses(Ty::U, &v)?; *self.rw_const.get_mut().unwrap() = v; Ok(()) }
    #[zbus(property(emits_changed_signal = "false"))]
    fn rw_false(&self) -> String { self.rw_false.lock().unwrap().clone() }
    #[zbus(property)]
    fn set_rw_false(&mut self, v: String) -> zbus::fdo::Result<()> { refuses(Ty::S, &v)?; *self.rw_false.get_mut().unwrap() = v; Ok(()) }
    #[zbus(property)]
    fn set_wo(&mut self, v: Vec<String>) -> zbus::fdo::Result<()> { refuses(Ty::AS, &v)?; *self.wo.get_mut().unwrap() = v; Ok(()) }
}
impl Bank for B2 {
    fn fresh() -> Self { B2 { ro_true: Mutex::new(init(Ty::AS, 0).into_rust()), ro_inval: Mutex::new(init(Ty::US, 1).into_rust()), ro_const: Mutex::new(init(Ty::U, 2).into_rust()), ro_false: Mutex::new(init(Ty::S, 3).into_rust()), rw_true: Mutex::new(init(Ty::AS, 4).into_rust()), rw_inval: Mutex::new(init(Ty::US, 5).into_rust()), rw_const: Mutex::new(init(Ty::U, 6).into_rust()), rw_false: Mutex::new(init(Ty::S, 7).into_rust()), wo: Mutex::new(init(Ty::AS, 8).into_rust()) } }
    fn peek(&self, j: usize) -> PV { match j { 0 => PV::from_rust(self.ro_true.lock().unwrap().clone()), 1 => PV::from_rust(self.ro_inval.lock().unwrap().clone()), 2 => PV::from_rust(self.ro_const.lock().unwrap().clone()), 3 => PV::from_rust(self.ro_false.lock().unwrap().clone()), 4 => PV::from_rust(self.rw_true.lock().unwrap().clone()), 5 => PV::from_rust(self.rw_inval.lock().unwrap().clone()), 6 => PV::from_rust(self.rw_const.lock().unwrap().clone()), 7 => PV::from_rust(self.rw_false.lock().unwrap().clone()), 8 => PV::from_rust(self.wo.lock().unwrap().clone()), _ => PV::Other(String::new()) } }
}
pub(crate) struct B3 {
    ro_true: Mutex<(u32, String)>,
    ro_inval: Mutex<u32>,
    ro_const: Mutex<String>,
    ro_false: Mutex<Vec<String>>,
    rw_true: Mutex<(u32, String)>,
    rw_inval: Mutex<u32>,
    rw_const: Mutex<String>,
    rw_false: Mutex<Vec<String>>,
    wo: Mutex<(u32, String)>,
}
#[zbus::interface(name = "x.v.B3")]
impl B3 {
    #[zbus(property)]
    async fn ro_true(&self) -> (u32, String) { self.ro_true.lock().unwrap().clone() }
    #[zbus(property(emits_changed_signal = "invalidates"))]
    async fn ro_inval(&self) -> u32 { self.ro_inval.lock().unwrap().clone() }
    #[zbus(property(emits_changed_signal = "const"))]
    async fn ro_const(&self) -> String { self.ro_const.lock().unwrap().clone() }
    #[zbus(property(emits_changed_signal = "false"))]
    async fn ro_false(&self) -> Vec<String> { self.ro_false.lock().unwrap().clone() }
    #[zbus(property)]
    async fn rw_true(&self) -> (u32, String) { self.rw_true.lock().unwrap().clone() }
    #[zbus(property)]
    async fn set_rw_true(&self, v: (u32, String)) { *self.rw_true.lock().unwrap() = v; }
    #[zbus(property(emits_changed_signal = "invalidates"))]
    async fn rw_inval(&self) -> u32 { self.rw_inval.lock().unwrap().clone() }
    #[zbus(property)]
    async fn set_rw_inval(&self, v: u32) { *self.rw_inval.lock().unwrap() = v; }
    #[zbus(property(emits_changed_signal = "const"))]
    async fn rw_const(&self) -> String { self.rw_const.lock().unwrap().clone() }
    #[zbus(property)]
    async fn set_rw_const(&self, v: String) { *self.rw_const.lock().unwrap() = v; }
    #[zbus(property(emits_changed_signal = "false"))]
    async fn rw_false(&self) -> Vec<String> { self.rw_false.lock().unwrap().clone() }
    #[zbus(property)]
    async fn set_rw_false(&self, v: Vec<String>) { *self.rw_false.lock().unwrap() = v; }
    #[zbus(property)]
    async fn set_wo(&self, v: (u32, String)) { *self.wo.lock().unwrap() = v; }
}
impl Bank for B3 {
    fn fresh() -> Self { B3 { ro_true: Mutex::new(init(Ty::US, 0).into_rust()), ro_inval: Mutex::new(init(Ty::U, 1).into_rust()), ro_const: Mutex::new(init(Ty::S, 2).into_rust()), ro_false: Mutex::new(init(Ty::AS, 3).into_rust()), rw_true: Mutex::new(init(Ty::US, 4).into_rust()), rw_inval: Mutex::new(init(Ty::U, 5).into_rust()), rw_const: Mutex::new(init(Ty::S, 6).into_rust()), rw_false: Mutex::new(init(Ty::AS, 7).into_rust()), wo: Mutex::new(init(Ty::US, 8).into_rust()) } }
    fn peek(&self, j: usize) -> PV { match j { 0 => PV::from_rust(self.ro_true.lock().unwrap().clone()), 1 => PV::from_rust(self.ro_inval.lock().unwrap().clone()), 2 => PV::from_rust(self.ro_const.lock().unwrap().clone()), 3 => PV::from_rust(self.ro_false.lock().unwrap().clone()), 4 => PV::from_rust(self.rw_true.lock().unwrap().clone()), 5 => PV::from_rust(self.rw_inval.lock().unwrap().clone()), 6 => PV::from_rust(self.rw_const.lock().unwrap().clone()), 7 => PV::from_rust(self.rw_false.lock().unwrap().clone()), 8 => PV::from_rust(self.wo.lock().unwrap().clone()), _ => PV::Other(String::new()) } }
}

// ---------------------------------------------------------------------------------------------
// Operations
// ---------------------------------------------------------------------------------------------

#[derive(Clone, Debug, PartialEq, Eq, Hash)]
enum POp {
    Get(usize),
    GetAll,
    Set(usize, PV),
    SetWrong(usize, &'static str),
    SetUnknown,
    SetRo(usize),
    /// A well-typed value for a writable property whose setter returns an error for it.
    SetRefused(usize),
}

impl POp {
    fn kind(&self) -> &'static str {
        match self {
            POp::Get(_) => "get",
            POp::GetAll => "getall",
            POp::Set(..) => "set",
            POp::SetWrong(..) => "set-wrong-type",
            POp::SetUnknown => "set-unknown",
            POp::SetRo(_) => "set-read-only",
            POp::SetRefused(_) => "set-refused-by-setter",
        }
    }
    fn prop(&self) -> Option<usize> {
        match self {
            POp::Get(j) | POp::Set(j, _) | POp::SetWrong(j, _) | POp::SetRo(j) | POp::SetRefused(j) => Some(*j),
            _ => None,
        }
    }
    fn show(&self) -> String {
        match self {
            POp::Get(j) => format!("Get {}", MODES[*j].2),
            POp::GetAll => "GetAll".into(),
            POp::Set(j, v) => format!("Set {} {}", MODES[*j].2, v.show()),
            POp::SetWrong(j, k) => format!("Set {} <{k}>", MODES[*j].2),
            POp::SetUnknown => "Set Nope 1".into(),
            POp::SetRo(j) => format!("Set {} (read-only)", MODES[*j].2),
            POp::SetRefused(j) => format!("Set {} <value the setter refuses>", MODES[*j].2),
        }
    }
    fn to_json(&self) -> J {
        match self {
            POp::Get(j) => json!({"op":"get","prop":MODES[*j].2}),
            POp::GetAll => json!({"op":"getall"}),
            POp::Set(j, v) => json!({"op":"set","prop":MODES[*j].2,"value":pv_json(v)}),
            POp::SetWrong(j, k) => json!({"op":"set-wrong-type","prop":MODES[*j].2,"wrong":k}),
            POp::SetUnknown => json!({"op":"set-unknown"}),
            POp::SetRo(j) => json!({"op":"set-read-only","prop":MODES[*j].2}),
            POp::SetRefused(j) => json!({"op":"set-refused-by-setter","prop":MODES[*j].2}),
        }
    }
    fn from_json(v: &J, k: usize) -> Option<POp> {
        let j = || MODES.iter().position(|m| Some(m.2) == v["prop"].as_str());
        match v["op"].as_str()? {
            "get" => Some(POp::Get(j()?)),
            "getall" => Some(POp::GetAll),
            "set" => Some(POp::Set(j()?, pv_from_json(&v["value"])?)),
            "set-wrong-type" => {
                let j = j()?;
                let kind = wrong_kinds(ty_of(k, j)).iter().find(|w| Some(**w) == v["wrong"].as_str())?;
                Some(POp::SetWrong(j, *kind))
            }
            "set-unknown" => Some(POp::SetUnknown),
            "set-read-only" => Some(POp::SetRo(j()?)),
            "set-refused-by-setter" => Some(POp::SetRefused(j()?)),
            _ => None,
        }
    }
}

fn pv_json(v: &PV) -> J {
    match v {
        PV::U(u) => json!({"u": u}),
        PV::S(s) => json!({"s": s}),
        PV::AS(a) => json!({"as": a}),
        PV::US(a, b) => json!({"us": [a, b]}),
        PV::Other(s) => json!({"other": s}),
    }
}
fn pv_from_json(v: &J) -> Option<PV> {
    if let Some(u) = v.get("u") {
        return Some(PV::U(u.as_u64()? as u32));
    }
    if let Some(s) = v.get("s") {
        return Some(PV::S(s.as_str()?.to_string()));
    }
    if let Some(a) = v.get("as") {
        return Some(PV::AS(a.as_array()?.iter().filter_map(|x| x.as_str().map(|s| s.to_string())).collect()));
    }
    if let Some(a) = v.get("us") {
        return Some(PV::US(a[0].as_u64()? as u32, a[1].as_str()?.to_string()));
    }
    None
}

fn show_history(k: usize, h: &[POp]) -> String {
    format!("x.v.B{k}: {}", h.iter().map(|o| o.show()).collect::<Vec<_>>().join("; "))
}

/// `n_values`: how many of the two well-typed values per writable property are in the alphabet
/// (quick: 1, thorough: 2).
fn alphabet(k: usize, n_values: usize) -> Vec<POp> {
    let mut v = vec![];
    for j in 0..MODES.len() {
        v.push(POp::Get(j));
    }
    v.push(POp::GetAll);
    for j in (0..MODES.len()).filter(|j| writable(*j)) {
        for val in set_values(ty_of(k, j)).into_iter().take(n_values) {
            v.push(POp::Set(j, val));
        }
    }
    for j in (0..MODES.len()).filter(|j| writable(*j)) {
        for w in wrong_kinds(ty_of(k, j)) {
            v.push(POp::SetWrong(j, w));
        }
    }
    v.push(POp::SetUnknown);
    for j in (0..MODES.len()).filter(|j| !writable(*j)) {
        v.push(POp::SetRo(j));
    }
    if SETTER_STYLE[k].contains("Result") {
        // only this interface's setters can fail
        for j in (0..MODES.len()).filter(|j| writable(*j)) {
            v.push(POp::SetRefused(j));
        }
    }
    v
}

#[derive(Clone, Debug, PartialEq, Eq, Hash)]
enum PRes {
    Value(PV),
    All(BTreeMap<String, PV>),
    SetOk,
    /// D-Bus error reply (short name)
    Err(String),
    Odd(String),
}

impl PRes {
    fn class(&self) -> String {
        match self {
            PRes::Value(_) => "value".into(),
            PRes::All(m) => format!("dict[{}]", m.len()),
            PRes::SetOk => "ok".into(),
            PRes::Err(n) => format!("error {n}"),
            PRes::Odd(_) => "odd".into(),
        }
    }
    fn show(&self) -> String {
        match self {
            PRes::Value(v) => v.show(),
            PRes::All(m) => format!("{{{}}}", m.iter().map(|(k, v)| format!("{k}: {}", v.show())).collect::<Vec<_>>().join(", ")),
            PRes::SetOk => "ok".into(),
            PRes::Err(n) => format!("error {n}"),
            PRes::Odd(e) => format!("ODD {e}"),
        }
    }
}

fn iface(k: usize) -> String {
    format!("x.v.B{k}")
}

async fn get(c: &Connection, k: usize, name: &str) -> PRes {
    match call(c, PATH, PROPS, "Get", &(iface(k), name)).await {
        Reply::Ok(m) => match m.body().deserialize::<OwnedValue>() {
            Ok(v) => PRes::Value(PV::from_value(&v)),
            Err(e) => PRes::Odd(format!("bad Get reply: {e}")),
        },
        Reply::Err(n, _) => PRes::Err(short_err(&n).to_string()),
        Reply::Other(e) => PRes::Odd(e),
    }
}

async fn get_all(c: &Connection, k: usize) -> PRes {
    match call(c, PATH, PROPS, "GetAll", &(iface(k),)).await {
        Reply::Ok(m) => match m.body().deserialize::<std::collections::HashMap<String, OwnedValue>>() {
            Ok(v) => PRes::All(v.iter().map(|(a, b)| (a.clone(), PV::from_value(b))).collect()),
            Err(e) => PRes::Odd(format!("bad GetAll reply: {e}")),
        },
        Reply::Err(n, _) => PRes::Err(short_err(&n).to_string()),
        Reply::Other(e) => PRes::Odd(e),
    }
}

async fn set(c: &Connection, k: usize, name: &str, v: Value<'static>) -> PRes {
    match call(c, PATH, PROPS, "Set", &(iface(k), name, v)).await {
        Reply::Ok(_) => PRes::SetOk,
        Reply::Err(n, _) => PRes::Err(short_err(&n).to_string()),
        Reply::Other(e) => PRes::Odd(e),
    }
}

async fn do_op(c: Connection, k: usize, op: POp) -> PRes {
    match op {
        POp::Get(j) => get(&c, k, MODES[j].2).await,
        POp::GetAll => get_all(&c, k).await,
        POp::Set(j, v) => set(&c, k, MODES[j].2, v.to_value()).await,
        POp::SetWrong(j, w) => set(&c, k, MODES[j].2, wrong_value(w)).await,
        POp::SetUnknown => set(&c, k, "Nope", Value::U32(1)).await,
        POp::SetRo(j) => set(&c, k, MODES[j].2, set_values(ty_of(k, j))[0].to_value()).await,
        POp::SetRefused(j) => set(&c, k, MODES[j].2, refused_value(ty_of(k, j)).to_value()).await,
    }
}

#[derive(Clone, Debug, PartialEq, Eq, Hash)]
enum PSig {
    Changed { path: String, iface: String, changed: BTreeMap<String, PV>, invalidated: Vec<String> },
    Odd(String),
}

impl PSig {
    fn show(&self) -> String {
        match self {
            PSig::Changed { path, iface, changed, invalidated } => format!(
                "PropertiesChanged({path} {iface} changed={{{}}} invalidated={invalidated:?})",
                changed.iter().map(|(k, v)| format!("{k}: {}", v.show())).collect::<Vec<_>>().join(", ")
            ),
            PSig::Odd(e) => format!("ODD {e}"),
        }
    }
}

async fn drain(mut stream: MessageStream) -> (MessageStream, Vec<PSig>) {
    let mut out = vec![];
    loop {
        match futures_lite::future::poll_once(stream.next()).await {
            Some(Some(Ok(m))) => {
                let h = m.header();
                let path = h.path().map(|p| p.to_string()).unwrap_or_default();
                if h.member().map(|m| m.as_str() == "PropertiesChanged") != Some(true) {
                    out.push(PSig::Odd(format!("unexpected signal {:?}", h.member())));
                    continue;
                }
                match m.body().deserialize::<(String, std::collections::HashMap<String, OwnedValue>, Vec<String>)>() {
                    Ok((iface, ch, inv)) => out.push(PSig::Changed {
                        path,
                        iface,
                        changed: ch.iter().map(|(a, b)| (a.clone(), PV::from_value(b))).collect(),
                        invalidated: inv,
                    }),
                    Err(e) => out.push(PSig::Odd(format!("bad PropertiesChanged body: {e}"))),
                }
            }
            Some(Some(Err(e))) => out.push(PSig::Odd(format!("stream error {e:?}"))),
            Some(None) => {
                out.push(PSig::Odd("stream ended".into()));
                break;
            }
            None => break,
        }
    }
    (stream, out)
}

/// The whole property state: `GetAll` over the wire and the instance's fields read on the server
/// through `ObjectServer::interface` (the only way to see a write-only property). `Get` of every
/// single property after a history `h` is the verdict of the enumerated histories `h; Get p`.
#[derive(Clone, Debug, PartialEq, Eq, Hash)]
struct Snapshot {
    all: PRes,
    fields: Vec<PV>,
}

async fn peek<B: Bank>(s: Connection) -> Vec<PV> {
    let mut fields = vec![];
    match s.object_server().interface::<_, B>(PATH).await {
        Ok(r) => {
            let g = r.get().await;
            for j in 0..MODES.len() {
                fields.push(g.peek(j));
            }
        }
        Err(e) => fields.push(PV::Other(format!("{e:?}"))),
    }
    fields
}

async fn snapshot<B: Bank>(c: Connection, s: Connection, k: usize) -> Snapshot {
    let all = get_all(&c, k).await;
    let fields = peek::<B>(s).await;
    Snapshot { all, fields }
}

enum Exec {
    DeadPrefix(usize, String),
    Last {
        /// the property values observed (fields) right before the last operation
        model: Vec<PV>,
        /// `Err((kind, text))` = the call panicked the server / never returned
        res: Result<PRes, (String, String)>,
        sigs: Vec<PSig>,
        snap: Option<Snapshot>,
    },
}

fn failed<T>(r: &Ran<T>) -> Option<(String, String)> {
    match r {
        Ran::Done(_) => None,
        Ran::Hung => Some(("hang".into(), "nothing is enabled and the call has not returned".into())),
        Ran::Panic { msg, loc } => Some(("panic".into(), format!("{msg} at {loc}"))),
    }
}

fn model_apply(model: &mut [PV], op: &POp) {
    if let POp::Set(j, v) = op {
        model[*j] = v.clone();
    }
}

fn initial(k: usize) -> Vec<PV> {
    (0..MODES.len()).map(|j| init(ty_of(k, j), j)).collect()
}

fn run_history<B: Bank>(k: usize, h: &[POp], trace: bool) -> Exec {
    let mut sys = match Sys::new() {
        Ok(s) => s,
        Err(e) => vcommon::machinery_failure(&format!("cannot build the p2p pair: {e}")),
    };
    let (c, s) = (sys.client.clone(), sys.server.clone());
    let stream = match sys.run("setup", async move {
        let os = s.object_server();
        let ok = os.at(PATH, B0::fresh()).await? & os.at(PATH, B1::fresh()).await? & os.at(PATH, B2::fresh()).await? & os.at(PATH, B3::fresh()).await?;
        if !ok {
            return Err(zbus::Error::Failure("bank registration refused".into()));
        }
        let rule = zbus::MatchRule::builder()
            .msg_type(zbus::message::Type::Signal)
            .interface(PROPS)
            .unwrap()
            .build();
        MessageStream::for_match_rule(rule, &c, Some(256)).await
    }) {
        Ran::Done(Ok(s)) => s,
        Ran::Done(Err(e)) => vcommon::machinery_failure(&format!("cannot set up the bank: {e:?}")),
        r => vcommon::machinery_failure(&format!("cannot set up the bank: {:?}", failed(&r))),
    };
    let mut stream = Some(stream);
    let n = h.len();
    if n == 0 {
        let (c, s) = (sys.client.clone(), sys.server.clone());
        let snap = match sys.run("snapshot", snapshot::<B>(c, s, k)) {
            Ran::Done(x) => Some(x),
            _ => None,
        };
        let _ = vcommon::catch(move || drop((stream, sys)));
        return Exec::Last { model: initial(k), res: Ok(PRes::SetOk), sigs: vec![], snap };
    }
    let mut model = vec![];
    for (step, op) in h.iter().enumerate() {
        let last = step + 1 == n;
        if last {
            let s = sys.server.clone();
            model = match sys.run("peek", peek::<B>(s)) {
                Ran::Done(m) => m,
                r => {
                    let _ = vcommon::catch(move || drop((stream, sys)));
                    return Exec::DeadPrefix(step, format!("{:?}", failed(&r)));
                }
            };
        }
        let c = sys.client.clone();
        let r = sys.run("op", do_op(c, k, op.clone()));
        let res = match r {
            Ran::Done(v) => Ok(v),
            r => Err(failed(&r).unwrap()),
        };
        if res.is_err() {
            let out = if last {
                Exec::Last { model, res, sigs: vec![], snap: None }
            } else {
                Exec::DeadPrefix(step, format!("{:?}", res.err().unwrap()))
            };
            let _ = vcommon::catch(move || drop((stream, sys)));
            return out;
        }
        let st = stream.take().unwrap();
        let sigs = match sys.run("drain", drain(st)) {
            Ran::Done((s2, sigs)) => {
                stream = Some(s2);
                sigs
            }
            _ => vcommon::machinery_failure("the signal collector failed"),
        };
        if trace {
            println!("step {}: {} -> {}", step + 1, op.show(), res.as_ref().map(|r| r.show()).unwrap_or_default());
            for s in &sigs {
                println!("    signal: {}", s.show());
            }
        }
        if last {
            let (c, s) = (sys.client.clone(), sys.server.clone());
            let snap = match sys.run("snapshot", snapshot::<B>(c, s, k)) {
                Ran::Done(x) => Some(x),
                _ => None,
            };
            let _ = vcommon::catch(move || drop((stream, sys)));
            return Exec::Last { model, res, sigs, snap };
        }
    }
    unreachable!()
}

fn run_history_k(k: usize, h: &[POp], trace: bool) -> Exec {
    match k {
        0 => run_history::<B0>(k, h, trace),
        1 => run_history::<B1>(k, h, trace),
        2 => run_history::<B2>(k, h, trace),
        _ => run_history::<B3>(k, h, trace),
    }
}

// ---------------------------------------------------------------------------------------------
// Oracle
// ---------------------------------------------------------------------------------------------

fn readable_map(model: &[PV]) -> BTreeMap<String, PV> {
    (0..MODES.len().min(model.len())).filter(|j| readable(*j)).map(|j| (MODES[j].2.to_string(), model[j].clone())).collect()
}

/// Verdict on the last call of a history: its answer against the values observed right before it,
/// the signals that followed, and the values observed right after it.
fn check(k: usize, h: &[POp], model: &[PV], res: &Result<PRes, (String, String)>, sigs: &[PSig], snap: Option<&Snapshot>) -> (Vec<Violation>, String) {
    let mut out = vec![];
    let replay = json!({"interface": k, "history": h.iter().map(|o| o.to_json()).collect::<Vec<_>>()});
    let hs = show_history(k, h);
    let op = h.last();
    let kind = op.map(|o| o.kind()).unwrap_or("init");
    let j = op.and_then(|o| o.prop());
    let base = |v: Violation| {
        let v = v.feat("op", kind).feat("setter_style", SETTER_STYLE[k]);
        match j {
            Some(j) => v.feat("type", ty_of(k, j).sig()).feat("access", access_str(j)).feat("emits", MODES[j].1),
            None => v,
        }
    };
    let clause_of_op = match op {
        Some(POp::Get(_)) | None => "get-returns-current",
        Some(POp::GetAll) => "getall-exactly-readable",
        Some(POp::Set(..)) => "set-updates-writable",
        Some(_) => "set-rejects-invalid",
    };
    let invalid = match op {
        Some(POp::SetWrong(_, w)) => *w,
        Some(POp::SetUnknown) => "unknown-property",
        Some(POp::SetRo(_)) => "read-only-property",
        Some(POp::SetRefused(_)) => "value-refused-by-setter",
        _ => "",
    };
    let must_reject = !invalid.is_empty();
    if model.len() != MODES.len() {
        out.push(base(Violation::new("get-returns-current", format!("[{hs}] the interface instance cannot be read on the server: {model:?}"), replay.clone())).feat("effect", "instance-missing"));
        return (out, format!("{kind} -> no instance"));
    }
    let res = match res {
        Err((what, text)) => {
            out.push(
                base(Violation::new(clause_of_op, format!("[{hs}] the last call ended in a {what} on the server side instead of a reply: {text}"), replay.clone()))
                    .feat("effect", what)
                    .feat("invalid", invalid),
            );
            return (out, format!("{kind} -> {what}"));
        }
        Ok(r) => r,
    };
    let mut class = format!("{kind} -> {}", res.class());
    if let PRes::Odd(e) = res {
        out.push(base(Violation::new(clause_of_op, format!("[{hs}] the last call failed locally: {e}"), replay.clone())).feat("effect", "odd"));
    }
    // expected values after the call
    let mut post = model.to_vec();
    let mut valid_set_ok = false;
    let mut accepted_invalid = false;
    match op {
        Some(POp::Get(j)) if readable(*j) => {
            if *res != PRes::Value(model[*j].clone()) {
                out.push(base(Violation::new("get-returns-current", format!("[{hs}] Get returned {} but the current value is {}", res.show(), model[*j].show()), replay.clone())).feat("effect", "wrong-answer"));
            }
        }
        Some(POp::Get(_)) => class = format!("get write-only -> {}", res.class()),
        Some(POp::GetAll) => {
            let want = readable_map(model);
            if *res != PRes::All(want.clone()) {
                out.push(base(Violation::new("getall-exactly-readable", format!("[{hs}] GetAll returned {} but the readable properties are {}", res.show(), PRes::All(want).show()), replay.clone())).feat("effect", "wrong-answer"));
            }
        }
        Some(o @ POp::Set(..)) => {
            model_apply(&mut post, o);
            if *res == PRes::SetOk {
                valid_set_ok = true;
            } else {
                out.push(base(Violation::new("set-updates-writable", format!("[{hs}] a well-typed Set of a writable property was answered with {}", res.show()), replay.clone())).feat("effect", "rejected"));
            }
        }
        Some(POp::SetWrong(..)) | Some(POp::SetUnknown) | Some(POp::SetRo(_)) | Some(POp::SetRefused(_)) => {
            accepted_invalid = !matches!(res, PRes::Err(_));
        }
        None => {}
    }

    // the values right after the call
    let after = snap.map(|s| &s.fields).filter(|f| f.len() == MODES.len());
    let changed: Vec<String> = match after {
        Some(f) => (0..MODES.len()).filter(|jj| f[*jj] != post[*jj]).map(|jj| format!("{} is {} (expected {})", MODES[jj].2, f[jj].show(), post[jj].show())).collect(),
        None => vec!["the instance could not be read back".into()],
    };
    if accepted_invalid {
        out.push(
            base(Violation::new(
                "set-rejects-invalid",
                format!(
                    "[{hs}] a Set that must be rejected ({invalid}) was answered with {}{}",
                    res.show(),
                    if changed.is_empty() { String::new() } else { format!(" and changed the state: {}", changed.join("; ")) }
                ),
                replay.clone(),
            ))
            .feat("effect", "accepted")
            .feat("invalid", invalid)
            .feat("state_changed", !changed.is_empty()),
        );
    } else if !changed.is_empty() {
        let (clause, effect) = match op {
            Some(POp::Set(..)) => ("set-updates-writable", "state-differs-after-set"),
            _ if must_reject => ("set-rejects-invalid", "rejected-but-state-changed"),
            _ => ("get-returns-current", "read-changed-state"),
        };
        out.push(base(Violation::new(clause, format!("[{hs}] after the last call: {}", changed.join("; ")), replay.clone())).feat("effect", effect).feat("invalid", invalid));
    }
    if let (Some(snap), Some(f)) = (snap, after) {
        let want = readable_map(f);
        if snap.all != PRes::All(want.clone()) {
            out.push(base(Violation::new("getall-exactly-readable", format!("[{hs}] after the last call GetAll returns {} but the readable properties now are {}", snap.all.show(), PRes::All(want).show()), replay.clone())).feat("effect", "readback-differs"));
        }
    }

    // signals of the last step
    if valid_set_ok {
        let j = j.unwrap();
        let name = MODES[j].2.to_string();
        let want: Vec<PSig> = match (MODES[j].0, MODES[j].1) {
            (Access::Rw, "true") => vec![PSig::Changed { path: PATH.into(), iface: iface(k), changed: [(name, post[j].clone())].into(), invalidated: vec![] }],
            (Access::Rw, "invalidates") => vec![PSig::Changed { path: PATH.into(), iface: iface(k), changed: BTreeMap::new(), invalidated: vec![name] }],
            _ => vec![],
        };
        if sigs != want.as_slice() {
            let effect = if sigs.is_empty() {
                "no-signal"
            } else if want.is_empty() {
                "unexpected-signal"
            } else if sigs.len() > 1 && sigs.iter().all(|s| *s == want[0]) {
                "duplicate-signal"
            } else {
                "wrong-signal"
            };
            out.push(
                base(Violation::new(
                    "signal-as-annotated",
                    format!("[{hs}] after the successful Set the client received {:?}, the annotation calls for {:?}", sigs.iter().map(|s| s.show()).collect::<Vec<_>>(), want.iter().map(|s| s.show()).collect::<Vec<_>>()),
                    replay.clone(),
                ))
                .feat("effect", effect),
            );
        }
        class += &format!(" signals={}", sigs.len());
    } else if !sigs.is_empty() {
        class += &format!(" (signals without a successful well-typed Set: {})", sigs.len());
        // A Set that was answered with an error has been rejected: nothing changed, so a
        // PropertiesChanged "carrying the new value" has nothing to carry. (Signals after Get /
        // GetAll, or after an invalid Set that was wrongly accepted, are not judged here.)
        if matches!(res, PRes::Err(_)) && matches!(op, Some(POp::SetWrong(..)) | Some(POp::SetUnknown) | Some(POp::SetRo(_)) | Some(POp::SetRefused(_))) {
            out.push(
                base(Violation::new(
                    "signal-as-annotated",
                    format!("[{hs}] the Set was answered with {} (rejected, nothing changed) but the client received {:?}", res.show(), sigs.iter().map(|s| s.show()).collect::<Vec<_>>()),
                    replay.clone(),
                ))
                .feat("effect", "signal-after-rejected-set")
                .feat("invalid", invalid),
            );
        }
    }
    (out, class)
}

// ---------------------------------------------------------------------------------------------
// Driver
// ---------------------------------------------------------------------------------------------

pub fn main(args: &Args) -> i32 {
    if let Some(p) = &args.replay {
        return replay(p);
    }
    if args.extra.iter().any(|a| a == "--bench") {
        return bench();
    }
    let report = Report::new("C28", args.tier, args.seed, "model_checking");
    // (longest history, well-typed values per writable property, shortest history of this phase)
    // thorough: everything up to 3 operations with both values, then all 4-operation histories
    // with one value (the shorter ones over that alphabet are a subset of the first phase).
    let phases: Vec<(usize, usize, usize)> = args.tier.pick(vec![(3, 2, 0)], vec![(3, 2, 0), (4, 1, 4)]);
    let depth = phases.iter().map(|p| p.0).max().unwrap();
    let states: Mutex<HashSet<u64>> = Mutex::new(HashSet::new());
    let sink = crate::osrv::VioSink::default();
    let (transitions, histories, dead) = (AtomicU64::new(0), AtomicU64::new(0), AtomicU64::new(0));
    let mut bank = vec![];
    for (k, &(max_len, n_values, min_len)) in (0..4).flat_map(|k| phases.iter().map(move |p| (k, p))) {
        let alpha = alphabet(k, n_values);
        let first = if min_len == 0 { 0 } else { enumerate::count_strings(alpha.len(), min_len - 1) };
        let total = enumerate::count_strings(alpha.len(), max_len) - first;
        crate::osrv::par_items(total, 64, &report, &states, |n, acc| {
            let mut idx = vec![];
            enumerate::nth_string(alpha.len(), first + n, &mut idx);
            let h: Vec<POp> = idx.iter().map(|a| alpha[*a].clone()).collect();
            match run_history_k(k, &h, false) {
                Exec::DeadPrefix(_, _) => {
                    dead.fetch_add(1, Relaxed);
                    acc.outcome("extends a history whose last call already panicked the server (pruned)");
                }
                Exec::Last { model, res, sigs, snap } => {
                    acc.evals += 1;
                    histories.fetch_add(1, Relaxed);
                    transitions.fetch_add(h.len() as u64, Relaxed);
                    let (vs, class) = check(k, &h, &model, &res, &sigs, snap.as_ref());
                    acc.outcome(&class);
                    if let Some(s) = &snap {
                        acc.states.push(hash64(&(k, s)));
                    }
                    acc.nontrivial.push(hash64(&(k, &model, h.last(), res.as_ref().ok(), &sigs)));
                    if hash64(&(k, n)) % (total as u64 / 3).max(1) == 0 {
                        report.sample(json!({
                            "history": show_history(k, &h),
                            "last_answer": res.as_ref().map(|r| r.show()).unwrap_or_else(|e| format!("{}: {}", e.0, e.1)),
                            "signals_of_last_step": sigs.iter().map(|s| s.show()).collect::<Vec<_>>(),
                            "violations": vs.len(),
                        }));
                    }
                    for v in vs {
                        sink.push(&report, v);
                    }
                }
            }
        });
        bank.push(json!({
            "interface": iface(k),
            "setter_style": SETTER_STYLE[k],
            "alphabet_size": alpha.len(),
            "history_lengths": format!("{min_len}..={max_len}"),
            "values_per_writable_property": n_values,
            "histories": total,
            "properties": (0..MODES.len()).map(|j| json!({"name": MODES[j].2, "type": ty_of(k, j).sig(), "access": access_str(j), "emits_changed_signal": MODES[j].1})).collect::<Vec<_>>(),
        }));
    }
    report.set("violating_transitions", json!(sink.total()));
    report.set("violating_transitions_by_identity", sink.summary());
    report.set("bank", json!(bank));
    report.set("history_depth", json!(depth));
    report.set("states", json!(states.lock().unwrap().len()));
    report.set("states_meaning", json!("distinct (interface, GetAll answer, field values) read-backs"));
    report.set("transitions", json!(transitions.load(Relaxed)));
    report.set("traces_validated_against_impl", json!(histories.load(Relaxed)));
    report.set("histories_pruned_after_panic", json!(dead.load(Relaxed)));
    report.assume("each transition is one Properties call from the client followed by running every task of both connections until nothing is enabled (default schedule)");
    report.assume("the reference model is a map property -> value; it is applied to the values observed (instance fields read on the server) right before the last call of each history; every prefix is itself an enumerated history, so by induction this is the history-implied value, and one defective transition does not cascade");
    report.assume("signals that follow anything other than a successful Set are counted as an outcome class, not judged (the statement is silent)");
    report.finish(
        "for each bank interface every history over its alphabet up to the depth bound is executed on a fresh real connection pair; verdict on the last call, its signals and a full read-back; non-trivial = distinct (interface, model state, operation, answer, signals) tuples",
        true,
    )
}

fn replay(path: &str) -> i32 {
    let v = vcommon::load_replay(path);
    let r = if v["replay"].is_object() { &v["replay"] } else { &v };
    let k = r["interface"].as_u64().unwrap_or(0) as usize;
    let h: Vec<POp> = r["history"]
        .as_array()
        .unwrap_or_else(|| vcommon::machinery_failure("replay file has no history"))
        .iter()
        .map(|o| POp::from_json(o, k).unwrap_or_else(|| vcommon::machinery_failure("bad operation in replay file")))
        .collect();
    println!("history: {}", show_history(k, &h));
    match run_history_k(k, &h, true) {
        Exec::DeadPrefix(s, why) => {
            println!("step {} failed: {why}", s + 1);
            1
        }
        Exec::Last { model, res, sigs, snap } => {
            if let Err((what, text)) = &res {
                println!("last call: {what}: {text}");
            }
            if let Some(s) = &snap {
                println!("values before the last call: {}", model.iter().enumerate().map(|(j, v)| format!("{}={}", MODES[j].2, v.show())).collect::<Vec<_>>().join(" "));
                println!("values after the last call : {}", s.fields.iter().enumerate().map(|(j, v)| format!("{}={}", MODES[j].2, v.show())).collect::<Vec<_>>().join(" "));
                println!("GetAll after the last call : {}", s.all.show());
            }
            let (vs, _) = check(k, &h, &model, &res, &sigs, snap.as_ref());
            for v in &vs {
                println!("VIOLATION clause={} features={:?}\n    {}", v.clause, v.features, v.detail);
            }
            println!("replay: {} violation(s) on the last transition", vs.len());
            (!vs.is_empty()) as i32
        }
    }
}

/// Per-history cost breakdown (development aid): `zb C28 --bench`.
fn bench() -> i32 {
    let n = 2000;
    let t = std::time::Instant::now();
    for _ in 0..n {
        let sys = Sys::new().unwrap();
        drop(sys);
    }
    println!("Sys::new + drop: {:.1} us", t.elapsed().as_secs_f64() * 1e6 / n as f64);
    let t = std::time::Instant::now();
    for _ in 0..n {
        let _ = run_history_k(0, &[], false);
    }
    println!("empty history (setup + snapshot): {:.1} us", t.elapsed().as_secs_f64() * 1e6 / n as f64);
    let h = vec![POp::Set(4, PV::U(11)), POp::Get(4), POp::GetAll];
    let t = std::time::Instant::now();
    for _ in 0..n {
        let _ = run_history_k(0, &h, false);
    }
    println!("3-op history: {:.1} us", t.elapsed().as_secs_f64() * 1e6 / n as f64);
    0
}
