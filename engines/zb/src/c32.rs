//! C32 — a proxy's signal stream yields signals only from the name's current owner.
//!
//! Space: initial owner of the well-known name x.y.Z ∈ {:1.5, nobody} × ALL event sequences of a
//! given length over 8 events × ALL placements (p ≤ q) of the owner lookup in the sequence. No
//! state merging (the stream's tracked owner and the queued messages are not observable).
//! Every history runs on a real zbus bus connection facing the consistent fake bus; the proxy is
//! `proxy::Builder` (cache disabled) for destination x.y.Z, path /p, interface x.y.I and the
//! stream is `receive_signal("Sig")`.
//!
//! Events:
//!   own→:1.5 | own→:1.6 | own→nobody   the bus changes the owner and the DRIVER emits the genuine
//!                                      NameOwnerChanged (nothing if the owner does not change)
//!   forged→:1.9 | forged→nobody        peer :1.9 sends a NameOwnerChanged look-alike (same path,
//!                                      interface, member, arg0) as a unicast to us; the bus stamps
//!                                      :1.9 as its sender
//!   sig(:1.5) | sig(:1.6) | sig(:1.9)  x.y.I.Sig from that peer, carrying the event index; sent as
//!                                      a broadcast when the bus would route it to us (one of our
//!                                      registered rules matches, `sender='x.y.Z'` resolved to the
//!                                      current owner), else as a unicast to us (a peer may always
//!                                      address a signal to us directly)
//! Placement: `receive_signal` is started with the bus holding back its answer to GetNameOwner;
//! events[..p] happen while the lookup is in flight (the world runs to quiescence after each);
//! then the bus answers the lookup FROM ITS CURRENT STATE (so the answer is consistent with the
//! signals it sent before) and events[p..q] are written to the socket right behind the reply,
//! before the connection gets to run; events[q..] happen after `receive_signal` has returned.
//!
//! Oracle (statement only). Reference owner = the fake bus's name table at the moment an event
//! is put on the wire (= lookup result + the driver's genuine changes, in wire order).
//!   * a `Sig` written after `receive_signal` returned is yielded ⇔ its sender is the owner then;
//!   * a `Sig` written earlier (the stream did not exist yet) must not be yielded if its sender
//!     was not the owner then; whether it is yielded otherwise is not judged;
//!   * nothing else is ever yielded.
//! A violation that disappears when the forged events are left out is attributed to them (clause
//! forged-claims-never-change-yield).

use futures_lite::StreamExt;
use serde_json::{json, Value};
use vcommon::{catch, hash64, Args, Report, Violation};
use zbus::{
    proxy::{CacheProperties, SignalStream},
    Proxy,
};

use crate::{
    fakebus::{self, Bus, Sig, SigBody, US},
    world::World,
};

const DEST: &str = "x.y.Z";
const P5: &str = ":1.5";
const P6: &str = ":1.6";
const P9: &str = ":1.9";
const N_EV: usize = 8;

#[derive(Clone, Copy, PartialEq, Eq, Debug, Hash)]
enum Ev {
    Own(Option<&'static str>),
    Forged(Option<&'static str>),
    Sig(&'static str),
}

fn ev(code: usize) -> Ev {
    match code {
        0 => Ev::Own(Some(P5)),
        1 => Ev::Own(Some(P6)),
        2 => Ev::Own(None),
        3 => Ev::Forged(Some(P9)),
        4 => Ev::Forged(None),
        5 => Ev::Sig(P5),
        6 => Ev::Sig(P6),
        _ => Ev::Sig(P9),
    }
}

fn label(e: &Ev) -> String {
    match e {
        Ev::Own(Some(o)) => format!("own→{o}"),
        Ev::Own(None) => "own→nobody".into(),
        Ev::Forged(Some(o)) => format!("forged→{o}"),
        Ev::Forged(None) => "forged→nobody".into(),
        Ev::Sig(s) => format!("sig({s})"),
    }
}

#[derive(Clone, Debug, PartialEq, Eq, Hash)]
struct Hist {
    init: Option<&'static str>,
    events: Vec<usize>,
    /// events[..p] while the lookup is in flight, events[p..q] right behind the lookup reply.
    p: usize,
    q: usize,
}

impl Hist {
    fn describe(&self) -> String {
        let mut parts = vec![format!("initial owner {}", self.init.unwrap_or("nobody")), "start receive_signal".to_string()];
        for (i, c) in self.events.iter().enumerate() {
            if i == self.p {
                parts.push("bus answers GetNameOwner".into());
            }
            if i == self.q {
                parts.push("connection runs; receive_signal returns".into());
            }
            parts.push(format!("#{i} {}", label(&ev(*c))));
        }
        if self.p == self.events.len() {
            parts.push("bus answers GetNameOwner".into());
        }
        if self.q == self.events.len() {
            parts.push("connection runs; receive_signal returns".into());
        }
        parts.join("; ")
    }
    fn to_json(&self) -> Value {
        json!({"init": self.init, "events": self.events, "p": self.p, "q": self.q, "text": self.describe()})
    }
}

#[derive(Clone, Debug)]
struct SigRecord {
    idx: usize,
    sender: &'static str,
    /// 1 = lookup in flight, 2 = behind the lookup reply, 3 = after receive_signal returned
    phase: u8,
    sender_was_owner: bool,
    owner_then: Option<String>,
    /// how the reference owner at that moment had been established
    established_by: &'static str,
    broadcast: bool,
}

#[derive(Clone, Debug)]
struct StepViolation {
    /// event index the violation is about
    at: usize,
    clause: &'static str,
    detail: String,
    feats: Vec<(&'static str, String)>,
}

#[derive(Default)]
struct HistResult {
    log: Vec<String>,
    states: Vec<u64>,
    violations: Vec<StepViolation>,
    transitions: u64,
    machinery: Option<String>,
    outcomes: Vec<String>,
    nontrivial: bool,
}

type Drained = (SignalStream<'static>, Vec<zbus::Message>, bool);

async fn drain(mut s: SignalStream<'static>) -> Drained {
    let mut out = vec![];
    let mut ended = false;
    loop {
        match futures_lite::future::poll_once(s.next()).await {
            Some(Some(m)) => out.push(m),
            Some(None) => {
                ended = true;
                break;
            }
            None => break,
        }
    }
    (s, out, ended)
}

fn run_history(h: &Hist, no_forged: bool) -> HistResult {
    let mut out = HistResult::default();
    let mut w = World::new();
    let mut bus = Bus::new();
    bus.set_owner(DEST, h.init);
    let conn = match fakebus::connect(&mut w, &mut bus) {
        Ok(c) => c,
        Err(e) => {
            out.machinery = Some(e);
            return out;
        }
    };
    let c2 = conn.clone();
    let proxy = match fakebus::run(&mut w, &mut bus, "build-proxy", async move {
        zbus::proxy::Builder::<Proxy<'static>>::new(&c2)
            .destination(DEST)?
            .path("/p")?
            .interface("x.y.I")?
            .cache_properties(CacheProperties::No)
            .build()
            .await
    }) {
        Some(Ok(p)) => p,
        other => {
            out.machinery = Some(format!("proxy build: {:?}", other.map(|r| r.map(|_| ()))));
            return out;
        }
    };

    // ---- start receive_signal with the lookup answer held back ----
    bus.hold = vec!["GetNameOwner".into()];
    let p2 = proxy.clone();
    let pending = match catch(|| {
        fakebus::start(&mut w, &mut bus, "receive_signal", async move { p2.receive_signal("Sig").await })
    }) {
        Ok(h) => h,
        Err(p) => {
            out.machinery = Some(format!("panic while starting receive_signal: {p}"));
            return out;
        }
    };
    if pending.is_done() || bus.n_held() != 1 {
        out.machinery = Some(format!(
            "receive_signal did not stop at exactly one GetNameOwner call (done={}, held={})",
            pending.is_done(),
            bus.n_held()
        ));
        return out;
    }
    out.log.push(format!("initial owner {}; receive_signal started, lookup in flight", h.init.unwrap_or("nobody")));

    let mut sigs: Vec<SigRecord> = vec![];
    let mut established_by: &'static str = "lookup-reply";
    let mut owners_so_far: Vec<String> = h.init.iter().map(|s| s.to_string()).collect();

    let apply = |bus: &mut Bus,
                     out: &mut HistResult,
                     sigs: &mut Vec<SigRecord>,
                     established_by: &mut &'static str,
                     owners_so_far: &mut Vec<String>,
                     idx: usize,
                     planned_phase: u8,
                     stream_exists: bool| {
        // `receive_signal` may return before the lookup is answered (a NameOwnerChanged that
        // arrives first settles the owner); from then on the stream exists and signals are judged.
        let phase = if stream_exists { 3 } else { planned_phase };
        let e = ev(h.events[idx]);
        out.transitions += 1;
        match e {
            Ev::Own(new) => {
                let changed = bus.set_owner(DEST, new);
                if changed {
                    *established_by = match (phase, new.is_some()) {
                        (1, true) => "change-before-lookup-reply:some",
                        (1, false) => "change-before-lookup-reply:none",
                        (2, true) => "change-right-behind-lookup-reply:some",
                        (2, false) => "change-right-behind-lookup-reply:none",
                        (_, true) => "change-after-stream-created:some",
                        (_, false) => "change-after-stream-created:none",
                    };
                    if let Some(n) = new {
                        owners_so_far.push(n.to_string());
                    }
                    out.nontrivial = true;
                }
                out.log.push(format!("#{idx} {}{}", label(&e), if changed { " (driver emits NameOwnerChanged)" } else { " (no change)" }));
            }
            Ev::Forged(new) => {
                if !no_forged {
                    let old = bus.names.owner(DEST).unwrap_or("").to_string();
                    bus.forge_driver_signal(P9, "NameOwnerChanged", &[DEST, &old, new.unwrap_or("")]);
                }
                out.log.push(format!("#{idx} {}{}", label(&e), if no_forged { " (left out)" } else { "" }));
            }
            Ev::Sig(sender) => {
                let mut sig = Sig {
                    sender: sender.into(),
                    path: "/p".into(),
                    interface: "x.y.I".into(),
                    member: "Sig".into(),
                    destination: None,
                    body: SigBody::U32(idx as u32),
                };
                let broadcast = bus.would_deliver(&sig);
                if !broadcast {
                    sig.destination = Some(US.into());
                }
                bus.send_signal(&sig);
                let owner_then = bus.names.owner(DEST).map(|s| s.to_string());
                sigs.push(SigRecord {
                    idx,
                    sender,
                    phase,
                    sender_was_owner: owner_then.as_deref() == Some(sender),
                    owner_then: owner_then.clone(),
                    established_by: *established_by,
                    broadcast,
                });
                out.log.push(format!(
                    "#{idx} {} {} (owner then: {})",
                    label(&e),
                    if broadcast { "broadcast" } else { "unicast to us" },
                    owner_then.as_deref().unwrap_or("nobody")
                ));
            }
        }
    };

    // ---- phase 1: lookup in flight ----
    for idx in 0..h.p {
        apply(&mut bus, &mut out, &mut sigs, &mut established_by, &mut owners_so_far, idx, 1, pending.is_done());
        if let Err(p) = catch(|| fakebus::pump(&mut w, &mut bus)) {
            out.log.push(format!("panic: {p} at {}", vcommon::last_panic_location()));
        }
    }
    // ---- the bus answers the lookup from its current state; phase 2 right behind the reply ----
    let returned_early = pending.is_done();
    if returned_early {
        out.log.push("receive_signal returned before the lookup was answered".into());
        out.outcomes.push("receive_signal-returned-before-lookup-reply".into());
    }
    bus.release_held();
    bus.hold.clear();
    let answer = bus
        .calls
        .iter()
        .rev()
        .find(|c| c.member == "GetNameOwner" && c.answer != "held")
        .map(|c| c.answer.clone())
        .unwrap_or_default();
    out.log.push(format!("bus answers GetNameOwner: {answer}"));
    for idx in h.p..h.q {
        apply(&mut bus, &mut out, &mut sigs, &mut established_by, &mut owners_so_far, idx, 2, returned_early);
    }
    let mut panicked: Option<String> = None;
    if let Err(p) = catch(|| fakebus::pump(&mut w, &mut bus)) {
        panicked = Some(format!("{p} at {}", vcommon::last_panic_location()));
    }
    let mut stream = match pending.take() {
        Some(Ok(s)) => Some(s),
        Some(Err(e)) => {
            out.machinery = Some(format!("receive_signal failed: {e} ({})", h.describe()));
            return out;
        }
        None => {
            out.machinery = Some(format!(
                "receive_signal did not return although the lookup was answered and the world is quiescent{} ({})",
                panicked.map(|p| format!("; panic: {p}")).unwrap_or_default(),
                h.describe()
            ));
            return out;
        }
    };
    out.log.push("receive_signal returned".into());

    let mut yielded: Vec<(Option<u32>, String, String)> = vec![]; // (idx, sender, member)
    let mut ended = false;
    let do_drain = |w: &mut World, bus: &mut Bus, out: &mut HistResult, stream: &mut Option<SignalStream<'static>>, yielded: &mut Vec<(Option<u32>, String, String)>, ended: &mut bool| {
        let Some(s) = stream.take() else { return };
        match catch(|| fakebus::run(w, bus, "drain", drain(s))) {
            Ok(Some((s, msgs, e))) => {
                *stream = Some(s);
                *ended |= e;
                for m in msgs {
                    let hdr = m.header();
                    let idx = m.body().deserialize::<u32>().ok();
                    let sender = hdr.sender().map(|s| s.to_string()).unwrap_or_default();
                    let member = hdr.member().map(|s| s.to_string()).unwrap_or_default();
                    out.log.push(format!("  yielded {member} from {sender} #{idx:?}"));
                    yielded.push((idx, sender, member));
                }
            }
            Ok(None) => out.machinery = Some("drain did not complete".into()),
            Err(p) => out.machinery = Some(format!("panic while polling the stream: {p} at {}", vcommon::last_panic_location())),
        }
    };
    do_drain(&mut w, &mut bus, &mut out, &mut stream, &mut yielded, &mut ended);
    out.states.push(hash64(&(bus.names.owner(DEST), 2u8, &yielded)));

    // ---- phase 3 ----
    for idx in h.q..h.events.len() {
        apply(&mut bus, &mut out, &mut sigs, &mut established_by, &mut owners_so_far, idx, 3, true);
        if let Err(p) = catch(|| fakebus::pump(&mut w, &mut bus)) {
            out.machinery = Some(format!("panic in a zbus task: {p} at {}", vcommon::last_panic_location()));
        }
        do_drain(&mut w, &mut bus, &mut out, &mut stream, &mut yielded, &mut ended);
        out.states.push(hash64(&(bus.names.owner(DEST), 3u8, &yielded, h.events[idx])));
    }
    if ended {
        out.log.push("stream ended".into());
    }

    // ---- oracle ----
    let role = |sender: &str, owner_then: &Option<String>, owners: &[String]| -> &'static str {
        if owner_then.as_deref() == Some(sender) {
            "current-owner"
        } else if owners.iter().any(|o| o == sender) {
            "former-or-future-owner"
        } else {
            "never-owner"
        }
    };
    for (idx, sender, member) in &yielded {
        let rec = idx.and_then(|i| sigs.iter().find(|s| s.idx == i as usize));
        match rec {
            Some(r) if member == "Sig" && *sender == r.sender => {
                if !r.sender_was_owner {
                    out.violations.push(StepViolation {
                        at: r.idx,
                        clause: "yields-exactly-current-owner-signals",
                        detail: format!(
                            "signal #{} from {} was yielded although the owner of {DEST} at that point was {} ({})",
                            r.idx,
                            r.sender,
                            r.owner_then.as_deref().unwrap_or("nobody"),
                            r.established_by
                        ),
                        feats: vec![
                            ("kind", "spurious".into()),
                            ("sender_role", role(r.sender, &r.owner_then, &owners_so_far).into()),
                            ("owner_established_by", r.established_by.into()),
                            ("signal_phase", r.phase.to_string()),
                        ],
                    });
                }
            }
            _ => out.violations.push(StepViolation {
                at: idx.map(|i| i as usize).unwrap_or(usize::MAX),
                clause: "yields-exactly-current-owner-signals",
                detail: format!("the stream yielded a message that is not one of the matching signals: {member} from {sender} #{idx:?}"),
                feats: vec![("kind", "foreign-message".into()), ("member", member.clone())],
            }),
        }
    }
    for r in &sigs {
        let was_yielded = yielded.iter().any(|(i, _, _)| *i == Some(r.idx as u32));
        out.outcomes.push(format!(
            "sig:{}:{}:{}",
            if r.sender_was_owner { "from-owner" } else { "from-other" },
            if r.phase == 3 { "stream-exists" } else { "before-receive_signal-returned" },
            if was_yielded { "yielded" } else { "not-yielded" }
        ));
        if r.phase == 3 && r.sender_was_owner && !was_yielded {
            out.violations.push(StepViolation {
                at: r.idx,
                clause: "yields-exactly-current-owner-signals",
                detail: format!(
                    "signal #{} from {} was not yielded although {} owned {DEST} at that point ({})",
                    r.idx, r.sender, r.sender, r.established_by
                ),
                feats: vec![
                    ("kind", "missing".into()),
                    ("sender_role", "current-owner".into()),
                    ("owner_established_by", r.established_by.into()),
                    ("signal_phase", r.phase.to_string()),
                ],
            });
        }
    }
    out.violations.sort_by_key(|v| v.at);
    if sigs.iter().any(|s| s.phase == 3) {
        out.nontrivial = true;
    }
    if !bus.errors.is_empty() {
        out.machinery = Some(format!("fake bus: {:?}", bus.errors));
    }
    if w.hit_horizon {
        out.machinery = Some("pump did not reach quiescence".into());
    }
    drop(stream);
    drop(proxy);
    drop(conn);
    out
}

fn placements(n: usize) -> Vec<(usize, usize)> {
    let mut v = vec![];
    for p in 0..=n {
        for q in p..=n {
            v.push((p, q));
        }
    }
    v
}

fn nth(idx: usize, depth: usize) -> Hist {
    let pl = placements(depth);
    let seqs = N_EV.pow(depth as u32);
    let mut i = idx;
    let mut s = i % seqs;
    i /= seqs;
    let (p, q) = pl[i % pl.len()];
    i /= pl.len();
    let init = if i == 0 { Some(P5) } else { None };
    let mut events = vec![0; depth];
    for k in (0..depth).rev() {
        events[k] = s % N_EV;
        s /= N_EV;
    }
    Hist { init, events, p, q }
}

fn to_violation(h: &Hist, sv: &StepViolation, log: &[String], attributed: bool) -> Violation {
    let clause = if attributed { "forged-claims-never-change-yield" } else { sv.clause };
    let mut v = Violation::new(
        clause,
        format!(
            "[{}] {}{}",
            h.describe(),
            sv.detail,
            if attributed {
                " — the same history without the forged NameOwnerChanged look-alikes satisfies the oracle, so an ownership claim not sent by the bus driver changed what the stream yields"
            } else {
                ""
            }
        ),
        json!({"history": h.to_json(), "log": log}),
    );
    for (k, val) in &sv.feats {
        v = v.feat(k, val);
    }
    v.feat("attributed_to", if attributed { "forged-signal" } else { "history" })
}

pub fn main(args: &Args) -> i32 {
    if let Some(p) = &args.replay {
        return replay(p);
    }
    let report = Report::new("C32", args.tier, args.seed, "model_checking");
    let depths: Vec<usize> = args.tier.pick(vec![3, 4], vec![5]);
    let totals = fakebus::TreeTotals::default();
    let mut spaces_json = vec![];
    for depth in &depths {
        let depth = *depth;
        let n = 2 * placements(depth).len() * N_EV.pow(depth as u32);
        let t0 = std::time::Instant::now();
        fakebus::par_histories(&report, &totals, n, 128, |idx, acc| {
            let h = nth(idx, depth);
            let res = run_history(&h, false);
            if let Some(m) = &res.machinery {
                vcommon::machinery_failure(&format!("C32: {m} in [{}]", h.describe()));
            }
            acc.evals += 1;
            acc.transitions += res.transitions;
            for o in &res.outcomes {
                acc.outcome(o);
            }
            let lh = hash64(&res.log);
            acc.logs.insert(lh);
            if res.nontrivial {
                acc.nontrivial.push(lh);
            }
            acc.states.extend(res.states.iter().cloned());
            if idx % (n / 5).max(1) == 7 {
                report.sample(json!({"history": h.to_json(), "log": res.log}));
            }
            if let Some(sv) = res.violations.first() {
                let has_forged = h.events.iter().any(|c| matches!(ev(*c), Ev::Forged(_)));
                let attributed = has_forged && {
                    let clean = run_history(&h, true);
                    clean.machinery.is_none() && !clean.violations.iter().any(|x| x.at <= sv.at)
                };
                report.violation(to_violation(&h, sv, &res.log, attributed));
            }
        });
        spaces_json.push(json!({"events": depth, "alphabet": N_EV, "initial_owners": 2, "lookup_placements": placements(depth).len(), "histories": n, "wall_s": (t0.elapsed().as_secs_f64()*1000.0).round()/1000.0}));
    }
    if args.tier == vcommon::Tier::Thorough {
        match fakebus::audit_against_daemon(2) {
            Ok(a) => report.set("fake_bus_audit", a),
            Err(fakebus::AuditError::Unavailable(e)) => {
                report.note(format!("fake-bus audit against dbus-daemon skipped: {e}"))
            }
            Err(fakebus::AuditError::Disagreement(e)) => {
                vcommon::machinery_failure(&format!("C32: fake bus disagrees with dbus-daemon: {e}"))
            }
        }
    }
    fakebus::finish_tree(
        &report,
        &totals,
        "distinct (reference owner, phase, messages yielded so far) observations reached; informational, no merging is done",
    );
    report.set("spaces", json!(spaces_json));
    report.assume("the fake bus routes signals like a message bus: broadcasts only to matching registered rules (well-known sender resolved to the current owner), unicasts always; audited against dbus-daemon in the thorough tier");
    report.assume("the bus answers GetNameOwner from its state at that moment, so the answer is consistent with the NameOwnerChanged signals it emitted before (an inconsistent bus is out of scope)");
    report.assume("each step is run to quiescence on the default schedule; the batch written right behind the lookup reply is the only place where several messages are read before the caller runs");
    report.finish(
        "every (initial owner, event sequence of the stated length, lookup placement p≤q); non-trivial = the owner genuinely changes or a signal arrives while the stream exists",
        true,
    )
}

fn replay(path: &str) -> i32 {
    let art = vcommon::load_replay(path);
    let hj = &art["replay"]["history"];
    let h = Hist {
        init: match hj["init"].as_str() {
            Some(":1.5") => Some(P5),
            Some(":1.6") => Some(P6),
            _ => None,
        },
        events: hj["events"]
            .as_array()
            .map(|a| a.iter().map(|x| x.as_u64().unwrap_or(0) as usize).collect())
            .unwrap_or_default(),
        p: hj["p"].as_u64().unwrap_or(0) as usize,
        q: hj["q"].as_u64().unwrap_or(0) as usize,
    };
    println!("C32 replay: {}", h.describe());
    let res = run_history(&h, false);
    println!("observations:");
    for l in &res.log {
        println!("  {l}");
    }
    if let Some(m) = &res.machinery {
        println!("machinery problem: {m}");
        return 2;
    }
    if res.violations.is_empty() {
        println!("no clause violated");
        return 0;
    }
    for v in &res.violations {
        println!("violated (event #{}): {} — {}", v.at, v.clause, v.detail);
    }
    let clean = run_history(&h, true);
    println!("same history without forged signals: {} violation(s)", clean.violations.len());
    1
}
