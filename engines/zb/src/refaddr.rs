//! Reference model of D-Bus server addresses (specification section "Server Addresses").
//!
//! `address-list := entry (';' entry)*`, `entry := transport ':' [ key '=' value (',' key '=' value)* ]`.
//! Values are percent-coded: the bytes `[-0-9A-Za-z_/.\*]` ("optionally escaped") may appear as
//! themselves, every other byte must be written `%xx` (two hex digits, either case); `%xx` may be
//! used for any byte. Decoded values are byte strings (not necessarily UTF-8).

use crate::refmatch::ffi;

#[derive(Clone, Debug, PartialEq, Eq)]
pub struct Entry {
    pub transport: String,
    pub kv: Vec<(String, Vec<u8>)>,
}

impl Entry {
    pub fn get(&self, key: &str) -> Option<&[u8]> {
        self.kv.iter().find(|(k, _)| k == key).map(|(_, v)| v.as_slice())
    }
}

pub fn optionally_escaped(b: u8) -> bool {
    b.is_ascii_alphanumeric() || matches!(b, b'-' | b'_' | b'/' | b'.' | b'\\' | b'*')
}

fn hex(b: u8) -> Option<u8> {
    match b {
        b'0'..=b'9' => Some(b - b'0'),
        b'a'..=b'f' => Some(b - b'a' + 10),
        b'A'..=b'F' => Some(b - b'A' + 10),
        _ => None,
    }
}

pub fn unescape(v: &str) -> Result<Vec<u8>, String> {
    let b = v.as_bytes();
    let mut out = Vec::with_capacity(b.len());
    let mut i = 0;
    while i < b.len() {
        let c = b[i];
        if c == b'%' {
            // two hex digits must follow (a truncated escape is an error)
            let (Some(h), Some(l)) = (b.get(i + 1).copied().and_then(hex), b.get(i + 2).copied().and_then(hex)) else {
                return Err("bad %-escape".into());
            };
            out.push(h << 4 | l);
            i += 3;
        } else if optionally_escaped(c) {
            out.push(c);
            i += 1;
        } else {
            return Err(format!("byte 0x{c:02x} must be escaped"));
        }
    }
    Ok(out)
}

pub fn escape(bytes: &[u8]) -> String {
    let mut s = String::new();
    for b in bytes {
        if optionally_escaped(*b) {
            s.push(*b as char);
        } else {
            s.push_str(&format!("%{b:02x}"));
        }
    }
    s
}

pub fn parse_entry(s: &str) -> Result<Entry, String> {
    let (transport, rest) = s.split_once(':').ok_or("address does not contain a colon")?;
    if transport.is_empty() {
        return Err("empty transport".into());
    }
    let mut kv: Vec<(String, Vec<u8>)> = vec![];
    if !rest.is_empty() {
        let pairs: Vec<&str> = rest.split(',').collect();
        for (i, pair) in pairs.iter().enumerate() {
            if pair.is_empty() && i + 1 == pairs.len() {
                // libdbus tolerates one trailing comma
                break;
            }
            let (k, v) = pair.split_once('=').ok_or("'=' not found in a key=value pair")?;
            if k.is_empty() {
                return Err("empty key".into());
            }
            if kv.iter().any(|(k2, _)| k2 == k) {
                return Err(format!("key {k} given twice"));
            }
            if v.is_empty() {
                // libdbus: "'=' character not found or has no value following it"
                return Err(format!("key {k} has no value"));
            }
            kv.push((k.to_string(), unescape(v)?));
        }
    }
    Ok(Entry {
        transport: transport.to_string(),
        kv,
    })
}

pub fn parse_list(s: &str) -> Result<Vec<Entry>, String> {
    if s.is_empty() {
        return Err("empty address".into());
    }
    s.split(';').map(parse_entry).collect()
}

pub fn print_entry(e: &Entry) -> String {
    let kv: Vec<String> = e.kv.iter().map(|(k, v)| format!("{k}={}", escape(v))).collect();
    format!("{}:{}", e.transport, kv.join(","))
}

/// What libdbus (`dbus_parse_address`) makes of a single-entry address: Err, or the values of the
/// requested keys (None = key absent). Values are C strings, so a decoded NUL truncates.
pub fn libdbus_parse(lib: &ffi::Lib, s: &str, keys: &[&str]) -> Result<(String, Vec<Option<Vec<u8>>>), String> {
    unsafe {
        let mut e = ffi::DBusError::new();
        (lib.dbus_error_init)(&mut e);
        let c = ffi::cs(s);
        let mut entries: *mut *mut std::ffi::c_void = std::ptr::null_mut();
        let mut n: std::ffi::c_int = 0;
        if (lib.dbus_parse_address)(c.as_ptr(), &mut entries, &mut n, &mut e) == 0 {
            let m = ffi::from_c(e.message).unwrap_or_default();
            (lib.dbus_error_free)(&mut e);
            return Err(m);
        }
        if n != 1 {
            (lib.dbus_address_entries_free)(entries);
            return Err(format!("{n} entries"));
        }
        let entry = *entries;
        let method = ffi::from_c((lib.dbus_address_entry_get_method)(entry)).unwrap_or_default();
        let mut vals = vec![];
        for k in keys {
            let ck = ffi::cs(k);
            let p = (lib.dbus_address_entry_get_value)(entry, ck.as_ptr());
            vals.push(if p.is_null() {
                None
            } else {
                Some(std::ffi::CStr::from_ptr(p).to_bytes().to_vec())
            });
        }
        (lib.dbus_address_entries_free)(entries);
        Ok((method, vals))
    }
}

#[cfg(test)]
mod tests {
    use super::*;
    #[test]
    fn coding() {
        assert_eq!(unescape("a%20b%2C%ff").unwrap(), b"a b,\xff");
        assert!(unescape("a b").is_err());
        assert!(unescape("%2").is_err());
        assert!(unescape("%").is_err());
        assert!(unescape("%zz").is_err());
        assert_eq!(escape(b"a b,\xff/\\*"), "a%20b%2c%ff/\\*");
        let e = parse_entry("unix:path=/tmp/x%20y,guid=00").unwrap();
        assert_eq!(e.get("path").unwrap(), b"/tmp/x y");
        assert!(parse_entry("unix").is_err());
        assert!(parse_entry("unix:path=").is_err());
        assert_eq!(parse_entry("autolaunch:").unwrap().kv.len(), 0);
    }
}
