//! refmsg — reference D-Bus MESSAGE layout, written from the D-Bus specification's "Message
//! Protocol" and "Marshaling (Wire Format)" sections, independent of zvariant/zbus.
//!
//! * `Ty` / `RV`: the harness's own type and value trees (copied from the zv crate; the zb crate
//!   cannot depend on zv), `Enc` reference marshaller, `Dec` strict reference unmarshaller.
//! * `MsgSpec::encode`: fixed 16-byte part (endianness byte, type, flags, protocol version, body
//!   length, serial, length of the `a(yv)` header-field array), the fields, zero padding to 8,
//!   body.
//! * `parse_header`: strict parse of the same.
//! * conversions between `RV` and `zvariant::Value` through public constructors only (used to hand
//!   bodies to zbus and to read them back; never used by the reference encoder/decoder).

use std::os::fd::{AsFd, AsRawFd, OwnedFd};

use zbus::zvariant::{self, Array, Dict, ObjectPath, Signature, Structure, StructureBuilder, Value};

// ---------------------------------------------------------------------------------------------
// types and values
// ---------------------------------------------------------------------------------------------

#[derive(Clone, Debug, PartialEq, Eq, Hash, PartialOrd, Ord)]
pub enum Ty {
    Y,
    B,
    N,
    Q,
    I,
    U,
    X,
    T,
    D,
    S,
    O,
    G,
    V,
    H,
    Array(Box<Ty>),
    Dict(Box<Ty>, Box<Ty>),
    Struct(Vec<Ty>),
}

impl Ty {
    pub fn sig(&self) -> String {
        let mut s = String::new();
        self.write_sig(&mut s);
        s
    }
    pub fn write_sig(&self, s: &mut String) {
        match self {
            Ty::Y => s.push('y'),
            Ty::B => s.push('b'),
            Ty::N => s.push('n'),
            Ty::Q => s.push('q'),
            Ty::I => s.push('i'),
            Ty::U => s.push('u'),
            Ty::X => s.push('x'),
            Ty::T => s.push('t'),
            Ty::D => s.push('d'),
            Ty::S => s.push('s'),
            Ty::O => s.push('o'),
            Ty::G => s.push('g'),
            Ty::V => s.push('v'),
            Ty::H => s.push('h'),
            Ty::Array(e) => {
                s.push('a');
                e.write_sig(s)
            }
            Ty::Dict(k, v) => {
                s.push_str("a{");
                k.write_sig(s);
                v.write_sig(s);
                s.push('}')
            }
            Ty::Struct(fs) => {
                s.push('(');
                for f in fs {
                    f.write_sig(s);
                }
                s.push(')')
            }
        }
    }
    /// D-Bus alignment.
    pub fn align(&self) -> usize {
        match self {
            Ty::Y | Ty::G | Ty::V => 1,
            Ty::N | Ty::Q => 2,
            Ty::B | Ty::I | Ty::U | Ty::S | Ty::O | Ty::H | Ty::Array(_) | Ty::Dict(..) => 4,
            Ty::X | Ty::T | Ty::D | Ty::Struct(_) => 8,
        }
    }
}

fn parse_one(b: &[u8], i: &mut usize) -> Option<Ty> {
    let c = *b.get(*i)?;
    *i += 1;
    Some(match c {
        b'y' => Ty::Y,
        b'b' => Ty::B,
        b'n' => Ty::N,
        b'q' => Ty::Q,
        b'i' => Ty::I,
        b'u' => Ty::U,
        b'x' => Ty::X,
        b't' => Ty::T,
        b'd' => Ty::D,
        b's' => Ty::S,
        b'o' => Ty::O,
        b'g' => Ty::G,
        b'v' => Ty::V,
        b'h' => Ty::H,
        b'a' => {
            if b.get(*i) == Some(&b'{') {
                *i += 1;
                let k = parse_one(b, i)?;
                if matches!(k, Ty::V | Ty::Array(_) | Ty::Dict(..) | Ty::Struct(_)) {
                    return None;
                }
                let v = parse_one(b, i)?;
                if b.get(*i) != Some(&b'}') {
                    return None;
                }
                *i += 1;
                Ty::Dict(Box::new(k), Box::new(v))
            } else {
                Ty::Array(Box::new(parse_one(b, i)?))
            }
        }
        b'(' => {
            let mut fs = vec![];
            while b.get(*i) != Some(&b')') {
                fs.push(parse_one(b, i)?);
            }
            *i += 1;
            if fs.is_empty() {
                return None;
            }
            Ty::Struct(fs)
        }
        _ => return None,
    })
}

/// Parse a signature of exactly one complete type.
pub fn parse_ty(s: &str) -> Option<Ty> {
    let mut i = 0;
    let t = parse_one(s.as_bytes(), &mut i)?;
    (i == s.len()).then_some(t)
}

/// Parse a signature string: zero or more complete types.
pub fn parse_sig(s: &str) -> Option<Vec<Ty>> {
    if s.len() > 255 {
        return None;
    }
    let mut i = 0;
    let mut out = vec![];
    while i < s.len() {
        out.push(parse_one(s.as_bytes(), &mut i)?);
    }
    Some(out)
}

#[derive(Clone, Debug, PartialEq)]
pub enum RV {
    Y(u8),
    B(bool),
    N(i16),
    Q(u16),
    I(i32),
    U(u32),
    X(i64),
    T(u64),
    /// f64 as bits (bitwise comparison)
    D(u64),
    S(String),
    O(String),
    G(String),
    V(Box<(Ty, RV)>),
    /// index into the case's fd table
    H(u32),
    Array(Ty, Vec<RV>),
    Dict(Ty, Ty, Vec<(RV, RV)>),
    Struct(Vec<RV>),
}

pub fn s(x: &str) -> RV {
    RV::S(x.to_string())
}
pub fn o(x: &str) -> RV {
    RV::O(x.to_string())
}
pub fn g(x: &str) -> RV {
    RV::G(x.to_string())
}
pub fn var(x: RV) -> RV {
    RV::V(Box::new((x.ty(), x)))
}

impl RV {
    pub fn ty(&self) -> Ty {
        match self {
            RV::Y(_) => Ty::Y,
            RV::B(_) => Ty::B,
            RV::N(_) => Ty::N,
            RV::Q(_) => Ty::Q,
            RV::I(_) => Ty::I,
            RV::U(_) => Ty::U,
            RV::X(_) => Ty::X,
            RV::T(_) => Ty::T,
            RV::D(_) => Ty::D,
            RV::S(_) => Ty::S,
            RV::O(_) => Ty::O,
            RV::G(_) => Ty::G,
            RV::V(_) => Ty::V,
            RV::H(_) => Ty::H,
            RV::Array(e, _) => Ty::Array(Box::new(e.clone())),
            RV::Dict(k, v, _) => Ty::Dict(Box::new(k.clone()), Box::new(v.clone())),
            RV::Struct(fs) => Ty::Struct(fs.iter().map(|f| f.ty()).collect()),
        }
    }
    pub fn show(&self) -> String {
        match self {
            RV::Y(v) => format!("{v}y"),
            RV::B(v) => format!("{v}"),
            RV::N(v) => format!("{v}n"),
            RV::Q(v) => format!("{v}q"),
            RV::I(v) => format!("{v}i"),
            RV::U(v) => format!("{v}u"),
            RV::X(v) => format!("{v}x"),
            RV::T(v) => format!("{v}t"),
            RV::D(v) => format!("{:?}d", f64::from_bits(*v)),
            RV::S(v) => format!("{v:?}"),
            RV::O(v) => format!("o{v:?}"),
            RV::G(v) => format!("g{v:?}"),
            RV::V(b) => format!("<{}:{}>", b.0.sig(), b.1.show()),
            RV::H(v) => format!("fd#{v}"),
            RV::Array(_, xs) => format!("[{}]", xs.iter().map(|x| x.show()).collect::<Vec<_>>().join(",")),
            RV::Dict(_, _, xs) => format!(
                "{{{}}}",
                xs.iter()
                    .map(|(k, v)| format!("{}:{}", k.show(), v.show()))
                    .collect::<Vec<_>>()
                    .join(",")
            ),
            RV::Struct(xs) => format!("({})", xs.iter().map(|x| x.show()).collect::<Vec<_>>().join(",")),
        }
    }
    /// Number of `h` leaves.
    pub fn count_fds(&self) -> usize {
        match self {
            RV::H(_) => 1,
            RV::V(b) => b.1.count_fds(),
            RV::Array(_, xs) | RV::Struct(xs) => xs.iter().map(|x| x.count_fds()).sum(),
            RV::Dict(_, _, xs) => xs.iter().map(|(k, v)| k.count_fds() + v.count_fds()).sum(),
            _ => 0,
        }
    }
    pub fn max_fd_index(&self) -> Option<u32> {
        match self {
            RV::H(i) => Some(*i),
            RV::V(b) => b.1.max_fd_index(),
            RV::Array(_, xs) | RV::Struct(xs) => xs.iter().filter_map(|x| x.max_fd_index()).max(),
            RV::Dict(_, _, xs) => xs
                .iter()
                .flat_map(|(k, v)| [k.max_fd_index(), v.max_fd_index()])
                .flatten()
                .max(),
            _ => None,
        }
    }
    /// Replace every `h` leaf through `f`.
    pub fn map_fds(&self, f: &dyn Fn(u32) -> u32) -> RV {
        match self {
            RV::H(i) => RV::H(f(*i)),
            RV::V(b) => RV::V(Box::new((b.0.clone(), b.1.map_fds(f)))),
            RV::Array(e, xs) => RV::Array(e.clone(), xs.iter().map(|x| x.map_fds(f)).collect()),
            RV::Struct(xs) => RV::Struct(xs.iter().map(|x| x.map_fds(f)).collect()),
            RV::Dict(k, v, xs) => RV::Dict(
                k.clone(),
                v.clone(),
                xs.iter().map(|(a, b)| (a.map_fds(f), b.map_fds(f))).collect(),
            ),
            other => other.clone(),
        }
    }
}

/// Compare two values with dict entries as multisets and floats bitwise.
pub fn rv_eq(a: &RV, b: &RV) -> bool {
    match (a, b) {
        (RV::Dict(k1, v1, x1), RV::Dict(k2, v2, x2)) => {
            if k1 != k2 || v1 != v2 || x1.len() != x2.len() {
                return false;
            }
            let mut used = vec![false; x2.len()];
            'outer: for (ka, va) in x1 {
                for (i, (kb, vb)) in x2.iter().enumerate() {
                    if !used[i] && rv_eq(ka, kb) && rv_eq(va, vb) {
                        used[i] = true;
                        continue 'outer;
                    }
                }
                return false;
            }
            true
        }
        (RV::Array(e1, x1), RV::Array(e2, x2)) => {
            e1 == e2 && x1.len() == x2.len() && x1.iter().zip(x2).all(|(p, q)| rv_eq(p, q))
        }
        (RV::Struct(x1), RV::Struct(x2)) => x1.len() == x2.len() && x1.iter().zip(x2).all(|(p, q)| rv_eq(p, q)),
        (RV::V(p), RV::V(q)) => p.0 == q.0 && rv_eq(&p.1, &q.1),
        _ => a == b,
    }
}

pub fn rvs_eq(a: &[RV], b: &[RV]) -> bool {
    a.len() == b.len() && a.iter().zip(b).all(|(p, q)| rv_eq(p, q))
}

// ---------------------------------------------------------------------------------------------
// reference marshaller
// ---------------------------------------------------------------------------------------------

pub struct Enc {
    pub buf: Vec<u8>,
    /// absolute position of buf[0]
    pub base: usize,
    pub be: bool,
    /// fd table indices in order of appearance; the wire index of an `h` is its position here
    pub fds: Vec<u32>,
}

impl Enc {
    pub fn new(be: bool, base: usize) -> Self {
        Self {
            buf: vec![],
            base,
            be,
            fds: vec![],
        }
    }
    pub fn pad(&mut self, align: usize) {
        while (self.base + self.buf.len()) % align != 0 {
            self.buf.push(0);
        }
    }
    fn u16(&mut self, v: u16) {
        self.pad(2);
        self.buf
            .extend_from_slice(&if self.be { v.to_be_bytes() } else { v.to_le_bytes() });
    }
    pub fn u32(&mut self, v: u32) {
        self.pad(4);
        self.buf
            .extend_from_slice(&if self.be { v.to_be_bytes() } else { v.to_le_bytes() });
    }
    fn u64(&mut self, v: u64) {
        self.pad(8);
        self.buf
            .extend_from_slice(&if self.be { v.to_be_bytes() } else { v.to_le_bytes() });
    }
    pub fn set_u32(&mut self, at: usize, v: u32) {
        let b = if self.be { v.to_be_bytes() } else { v.to_le_bytes() };
        self.buf[at..at + 4].copy_from_slice(&b);
    }
    fn sig(&mut self, s: &str) {
        self.buf.push(s.len() as u8);
        self.buf.extend_from_slice(s.as_bytes());
        self.buf.push(0);
    }
    fn string(&mut self, s: &str) {
        self.u32(s.len() as u32);
        self.buf.extend_from_slice(s.as_bytes());
        self.buf.push(0);
    }
    pub fn value(&mut self, v: &RV) {
        match v {
            RV::Y(x) => self.buf.push(*x),
            RV::B(x) => self.u32(*x as u32),
            RV::N(x) => self.u16(*x as u16),
            RV::Q(x) => self.u16(*x),
            RV::I(x) => self.u32(*x as u32),
            RV::U(x) => self.u32(*x),
            RV::X(x) => self.u64(*x as u64),
            RV::T(x) => self.u64(*x),
            RV::D(x) => self.u64(*x),
            RV::S(s) | RV::O(s) => self.string(s),
            RV::G(s) => self.sig(s),
            RV::V(b) => {
                self.sig(&b.0.sig());
                self.pad(b.0.align());
                self.value(&b.1);
            }
            RV::H(i) => {
                let idx = self.fds.len() as u32;
                self.fds.push(*i);
                self.u32(idx);
            }
            RV::Array(e, xs) => {
                self.u32(0);
                let len_at = self.buf.len() - 4;
                self.pad(e.align());
                let start = self.buf.len();
                for x in xs {
                    self.pad(e.align());
                    self.value(x);
                }
                let len = self.buf.len() - start;
                self.set_u32(len_at, len as u32);
            }
            RV::Dict(_, _, xs) => {
                self.u32(0);
                let len_at = self.buf.len() - 4;
                self.pad(8);
                let start = self.buf.len();
                for (k, v) in xs {
                    self.pad(8);
                    self.value(k);
                    self.value(v);
                }
                let len = self.buf.len() - start;
                self.set_u32(len_at, len as u32);
            }
            RV::Struct(xs) => {
                self.pad(8);
                for x in xs {
                    self.value(x);
                }
            }
        }
    }
}

// ---------------------------------------------------------------------------------------------
// strict reference unmarshaller
// ---------------------------------------------------------------------------------------------

pub struct Dec<'a> {
    pub bytes: &'a [u8],
    pub pos: usize,
    pub base: usize,
    pub be: bool,
    pub n_fds: u32,
    depth: usize,
}

pub fn valid_object_path(s: &str) -> bool {
    if s == "/" {
        return true;
    }
    if !s.starts_with('/') || s.ends_with('/') {
        return false;
    }
    s[1..]
        .split('/')
        .all(|el| !el.is_empty() && el.bytes().all(|b| b.is_ascii_alphanumeric() || b == b'_'))
}

impl<'a> Dec<'a> {
    pub fn new(bytes: &'a [u8], be: bool, base: usize, n_fds: u32) -> Self {
        Self {
            bytes,
            pos: 0,
            base,
            be,
            n_fds,
            depth: 0,
        }
    }
    pub fn pad(&mut self, align: usize) -> Result<(), String> {
        while (self.base + self.pos) % align != 0 {
            match self.bytes.get(self.pos) {
                None => return Err(format!("short: padding at {}", self.base + self.pos)),
                Some(0) => self.pos += 1,
                Some(b) => return Err(format!("non-zero padding byte {b:#x} at {}", self.base + self.pos)),
            }
        }
        Ok(())
    }
    fn take(&mut self, n: usize) -> Result<&'a [u8], String> {
        if self.pos + n > self.bytes.len() {
            return Err(format!("short: need {n} bytes at {}", self.base + self.pos));
        }
        let s = &self.bytes[self.pos..self.pos + n];
        self.pos += n;
        Ok(s)
    }
    fn u16(&mut self) -> Result<u16, String> {
        self.pad(2)?;
        let b: [u8; 2] = self.take(2)?.try_into().unwrap();
        Ok(if self.be { u16::from_be_bytes(b) } else { u16::from_le_bytes(b) })
    }
    pub fn u32(&mut self) -> Result<u32, String> {
        self.pad(4)?;
        let b: [u8; 4] = self.take(4)?.try_into().unwrap();
        Ok(if self.be { u32::from_be_bytes(b) } else { u32::from_le_bytes(b) })
    }
    fn u64(&mut self) -> Result<u64, String> {
        self.pad(8)?;
        let b: [u8; 8] = self.take(8)?.try_into().unwrap();
        Ok(if self.be { u64::from_be_bytes(b) } else { u64::from_le_bytes(b) })
    }
    fn str_body(&mut self, len: usize) -> Result<String, String> {
        let body = self.take(len)?;
        match self.take(1)? {
            [0] => {}
            _ => return Err("string not NUL terminated".into()),
        }
        let s = std::str::from_utf8(body).map_err(|_| "string not UTF-8".to_string())?;
        if s.contains('\0') {
            return Err("interior NUL".into());
        }
        Ok(s.to_string())
    }
    pub fn value(&mut self, ty: &Ty) -> Result<RV, String> {
        self.depth += 1;
        if self.depth > 64 {
            return Err("nesting too deep".into());
        }
        let r = self.value_inner(ty);
        self.depth -= 1;
        r
    }
    fn value_inner(&mut self, ty: &Ty) -> Result<RV, String> {
        Ok(match ty {
            Ty::Y => RV::Y(self.take(1)?[0]),
            Ty::B => match self.u32()? {
                0 => RV::B(false),
                1 => RV::B(true),
                x => return Err(format!("boolean {x}")),
            },
            Ty::N => RV::N(self.u16()? as i16),
            Ty::Q => RV::Q(self.u16()?),
            Ty::I => RV::I(self.u32()? as i32),
            Ty::U => RV::U(self.u32()?),
            Ty::X => RV::X(self.u64()? as i64),
            Ty::T => RV::T(self.u64()?),
            Ty::D => RV::D(self.u64()?),
            Ty::S => {
                let len = self.u32()? as usize;
                RV::S(self.str_body(len)?)
            }
            Ty::O => {
                let len = self.u32()? as usize;
                let s = self.str_body(len)?;
                if !valid_object_path(&s) {
                    return Err(format!("invalid object path {s:?}"));
                }
                RV::O(s)
            }
            Ty::G => {
                let len = self.take(1)?[0] as usize;
                let s = self.str_body(len)?;
                if parse_sig(&s).is_none() {
                    return Err(format!("invalid signature {s:?}"));
                }
                RV::G(s)
            }
            Ty::H => {
                let idx = self.u32()?;
                if idx >= self.n_fds {
                    return Err(format!("fd index {idx} with {} fds", self.n_fds));
                }
                RV::H(idx)
            }
            Ty::V => {
                let len = self.take(1)?[0] as usize;
                let s = self.str_body(len)?;
                let Some(inner) = parse_ty(&s) else {
                    return Err(format!("variant signature {s:?} is not one complete type"));
                };
                self.pad(inner.align())?;
                let v = self.value(&inner)?;
                RV::V(Box::new((inner, v)))
            }
            Ty::Array(e) => {
                let len = self.u32()? as usize;
                if len > (1 << 26) {
                    return Err("array longer than 64 MiB".into());
                }
                self.pad(e.align())?;
                let end = self.pos + len;
                if end > self.bytes.len() {
                    return Err("short: array".into());
                }
                let mut xs = vec![];
                while self.pos < end {
                    self.pad(e.align())?;
                    xs.push(self.value(e)?);
                    if self.pos > end {
                        return Err("array element crosses the array end".into());
                    }
                }
                RV::Array((**e).clone(), xs)
            }
            Ty::Dict(k, v) => {
                let len = self.u32()? as usize;
                if len > (1 << 26) {
                    return Err("array longer than 64 MiB".into());
                }
                self.pad(8)?;
                let end = self.pos + len;
                if end > self.bytes.len() {
                    return Err("short: dict".into());
                }
                let mut xs = vec![];
                while self.pos < end {
                    self.pad(8)?;
                    let kk = self.value(k)?;
                    let vv = self.value(v)?;
                    xs.push((kk, vv));
                    if self.pos > end {
                        return Err("dict entry crosses the array end".into());
                    }
                }
                RV::Dict((**k).clone(), (**v).clone(), xs)
            }
            Ty::Struct(fs) => {
                self.pad(8)?;
                let mut xs = vec![];
                for f in fs {
                    xs.push(self.value(f)?);
                }
                RV::Struct(xs)
            }
        })
    }
}

/// Reference encoding of a message body: the arguments one after the other, starting at an
/// 8-aligned position. Returns the bytes and the fd-table indices in wire order.
pub fn encode_body(args: &[RV], be: bool) -> (Vec<u8>, Vec<u32>) {
    let mut e = Enc::new(be, 0);
    for a in args {
        e.value(a);
    }
    (e.buf, e.fds)
}

/// Strict reference decoding of a whole body against the argument types.
pub fn decode_body(tys: &[Ty], bytes: &[u8], be: bool, n_fds: u32) -> Result<Vec<RV>, String> {
    let mut d = Dec::new(bytes, be, 0, n_fds);
    let mut out = vec![];
    for t in tys {
        d.pad(t.align())?;
        out.push(d.value(t)?);
    }
    if d.pos != bytes.len() {
        return Err(format!("{} trailing body bytes", bytes.len() - d.pos));
    }
    Ok(out)
}

pub fn body_sig(args: &[RV]) -> String {
    args.iter().map(|a| a.ty().sig()).collect()
}

// ---------------------------------------------------------------------------------------------
// message layout
// ---------------------------------------------------------------------------------------------

pub const PATH: u8 = 1;
pub const INTERFACE: u8 = 2;
pub const MEMBER: u8 = 3;
pub const ERROR_NAME: u8 = 4;
pub const REPLY_SERIAL: u8 = 5;
pub const DESTINATION: u8 = 6;
pub const SENDER: u8 = 7;
pub const SIGNATURE: u8 = 8;
pub const UNIX_FDS: u8 = 9;

pub const METHOD_CALL: u8 = 1;
pub const METHOD_RETURN: u8 = 2;
pub const ERROR: u8 = 3;
pub const SIGNAL: u8 = 4;

/// The value type the message format prescribes for a header field code.
pub fn prescribed_type(code: u8) -> Option<Ty> {
    Some(match code {
        PATH => Ty::O,
        INTERFACE | MEMBER | ERROR_NAME | DESTINATION | SENDER => Ty::S,
        REPLY_SERIAL | UNIX_FDS => Ty::U,
        SIGNATURE => Ty::G,
        _ => return None,
    })
}

pub fn field_name(code: u8) -> &'static str {
    match code {
        PATH => "PATH",
        INTERFACE => "INTERFACE",
        MEMBER => "MEMBER",
        ERROR_NAME => "ERROR_NAME",
        REPLY_SERIAL => "REPLY_SERIAL",
        DESTINATION => "DESTINATION",
        SENDER => "SENDER",
        SIGNATURE => "SIGNATURE",
        UNIX_FDS => "UNIX_FDS",
        _ => "UNKNOWN",
    }
}

/// Reference encoding of the header (fixed part, field array in the given order, zero padding to
/// an 8-byte boundary). `fields` are (code, value-inside-the-variant).
pub fn encode_header(
    be: bool,
    mtype: u8,
    flags: u8,
    version: u8,
    body_len: u32,
    serial: u32,
    fields: &[(u8, RV)],
) -> Vec<u8> {
    let mut e = Enc::new(be, 0);
    e.buf.push(if be { b'B' } else { b'l' });
    e.buf.push(mtype);
    e.buf.push(flags);
    e.buf.push(version);
    e.u32(body_len);
    e.u32(serial);
    e.u32(0); // array length, patched below
    let start = e.buf.len(); // 16: already 8-aligned, as the element type (struct) requires
    for (code, v) in fields {
        e.pad(8);
        e.buf.push(*code);
        e.value(&var(v.clone()));
    }
    let len = e.buf.len() - start;
    e.set_u32(12, len as u32);
    e.pad(8);
    e.buf
}

/// A whole message described logically.
#[derive(Clone, Debug)]
pub struct MsgSpec {
    pub be: bool,
    pub mtype: u8,
    pub flags: u8,
    pub version: u8,
    pub serial: u32,
    /// (code, value inside the variant), in wire order. SIGNATURE / UNIX_FDS are NOT added
    /// automatically unless `auto_body_fields`.
    pub fields: Vec<(u8, RV)>,
    pub body: Vec<RV>,
    /// Append SIGNATURE (when the body is not empty) and UNIX_FDS (when it carries fds).
    pub auto_body_fields: bool,
}

impl MsgSpec {
    pub fn new(mtype: u8, serial: u32) -> Self {
        Self {
            be: false,
            mtype,
            flags: 0,
            version: 1,
            serial,
            fields: vec![],
            body: vec![],
            auto_body_fields: true,
        }
    }
    pub fn field(mut self, code: u8, v: RV) -> Self {
        self.fields.push((code, v));
        self
    }
    pub fn all_fields(&self) -> Vec<(u8, RV)> {
        let mut f = self.fields.clone();
        if self.auto_body_fields {
            if !self.body.is_empty() {
                f.push((SIGNATURE, RV::G(body_sig(&self.body))));
            }
            let n: usize = self.body.iter().map(|a| a.count_fds()).sum();
            if n > 0 {
                f.push((UNIX_FDS, RV::U(n as u32)));
            }
        }
        f
    }
    /// Whole message bytes and the fd-table indices in wire order.
    pub fn encode(&self) -> (Vec<u8>, Vec<u32>) {
        let (body, fds) = encode_body(&self.body, self.be);
        let mut out = encode_header(
            self.be,
            self.mtype,
            self.flags,
            self.version,
            body.len() as u32,
            self.serial,
            &self.all_fields(),
        );
        out.extend_from_slice(&body);
        (out, fds)
    }
}

#[derive(Clone, Debug)]
pub struct ParsedHeader {
    pub be: bool,
    pub mtype: u8,
    pub flags: u8,
    pub version: u8,
    pub body_len: u32,
    pub serial: u32,
    pub fields_len: u32,
    /// (code, value inside the variant) in wire order
    pub fields: Vec<(u8, RV)>,
    /// 16 + fields_len rounded up to 8
    pub body_offset: usize,
}

/// Strict parse of the header part of `bytes`: fixed part, the field array as a valid `a(yv)`
/// (each element 8-aligned with zero padding, a one-complete-type variant signature, a valid
/// value, the elements filling the declared array length exactly), zero padding up to the body.
/// Does not interpret field codes and does not look at the body.
pub fn parse_header(bytes: &[u8]) -> Result<ParsedHeader, String> {
    if bytes.len() < 16 {
        return Err(format!("only {} bytes", bytes.len()));
    }
    let be = match bytes[0] {
        b'l' => false,
        b'B' => true,
        x => return Err(format!("endianness byte {x:#x}")),
    };
    let mut d = Dec::new(bytes, be, 0, 0);
    d.pos = 4;
    let body_len = d.u32()?;
    let serial = d.u32()?;
    let fields_len = d.u32()?;
    let end = 16usize
        .checked_add(fields_len as usize)
        .ok_or_else(|| "overflow".to_string())?;
    if fields_len > (1 << 26) {
        return Err("field array longer than 64 MiB".into());
    }
    if end > bytes.len() {
        return Err(format!("field array of {fields_len} bytes does not fit into {} bytes", bytes.len()));
    }
    let mut fields = vec![];
    {
        let mut fd = Dec::new(&bytes[..end], be, 0, 0);
        fd.pos = 16;
        while fd.pos < end {
            fd.pad(8)?;
            if fd.pos >= end {
                return Err("field array ends in element padding".into());
            }
            let code = fd.take(1)?[0];
            let v = fd.value(&Ty::V)?;
            let RV::V(b) = v else { unreachable!() };
            fields.push((code, b.1));
        }
        if fd.pos != end {
            return Err("field array element crosses the declared length".into());
        }
    }
    d.pos = end;
    d.pad(8)?;
    Ok(ParsedHeader {
        be,
        mtype: bytes[1],
        flags: bytes[2],
        version: bytes[3],
        body_len,
        serial,
        fields_len,
        fields,
        body_offset: d.pos,
    })
}

// ---------------------------------------------------------------------------------------------
// RV <-> zvariant::Value (public constructors only)
// ---------------------------------------------------------------------------------------------

pub fn zsig(ty: &Ty) -> Signature {
    Signature::try_from(ty.sig().as_str()).expect("harness type has a valid signature")
}

pub fn to_value<'a>(rv: &RV, fds: &'a [OwnedFd]) -> Result<Value<'a>, String> {
    Ok(match rv {
        RV::Y(v) => Value::U8(*v),
        RV::B(v) => Value::Bool(*v),
        RV::N(v) => Value::I16(*v),
        RV::Q(v) => Value::U16(*v),
        RV::I(v) => Value::I32(*v),
        RV::U(v) => Value::U32(*v),
        RV::X(v) => Value::I64(*v),
        RV::T(v) => Value::U64(*v),
        RV::D(v) => Value::F64(f64::from_bits(*v)),
        RV::S(v) => Value::Str(v.clone().into()),
        RV::O(v) => Value::ObjectPath(ObjectPath::try_from(v.clone()).map_err(|e| e.to_string())?),
        RV::G(v) => Value::Signature(Signature::try_from(v.as_str()).map_err(|e| e.to_string())?),
        RV::V(b) => Value::Value(Box::new(to_value(&b.1, fds)?)),
        RV::H(i) => Value::Fd(zvariant::Fd::from(
            fds.get(*i as usize).ok_or("fd index outside the case's table")?.as_fd(),
        )),
        RV::Array(e, xs) => {
            let mut a = Array::new(&zsig(e));
            for x in xs {
                a.append(to_value(x, fds)?).map_err(|e| e.to_string())?;
            }
            Value::Array(a)
        }
        RV::Dict(k, v, xs) => {
            let mut d = Dict::new(&zsig(k), &zsig(v));
            for (kk, vv) in xs {
                d.append(to_value(kk, fds)?, to_value(vv, fds)?)
                    .map_err(|e| e.to_string())?;
            }
            Value::Dict(d)
        }
        RV::Struct(xs) => {
            let mut b = StructureBuilder::new();
            for x in xs {
                b.push_value(to_value(x, fds)?);
            }
            Value::Structure(b.build().map_err(|e| e.to_string())?)
        }
    })
}

/// The body arguments as one `Structure` (what `Builder::build` takes for a dynamic body).
pub fn body_structure<'a>(args: &[RV], fds: &'a [OwnedFd]) -> Result<Structure<'a>, String> {
    let mut b = StructureBuilder::new();
    for x in args {
        b.push_value(to_value(x, fds)?);
    }
    b.build().map_err(|e| e.to_string())
}

/// Read a `zvariant::Value` back into the harness tree. `fd_index` maps a raw fd to a table index.
pub fn from_value(v: &Value<'_>, fd_index: &dyn Fn(i32) -> u32) -> Result<RV, String> {
    Ok(match v {
        Value::U8(x) => RV::Y(*x),
        Value::Bool(x) => RV::B(*x),
        Value::I16(x) => RV::N(*x),
        Value::U16(x) => RV::Q(*x),
        Value::I32(x) => RV::I(*x),
        Value::U32(x) => RV::U(*x),
        Value::I64(x) => RV::X(*x),
        Value::U64(x) => RV::T(*x),
        Value::F64(x) => RV::D(x.to_bits()),
        Value::Str(s) => RV::S(s.as_str().to_string()),
        Value::ObjectPath(p) => RV::O(p.as_str().to_string()),
        Value::Signature(s) => RV::G(s.to_string_no_parens()),
        Value::Value(inner) => {
            let r = from_value(inner, fd_index)?;
            RV::V(Box::new((r.ty(), r)))
        }
        Value::Fd(fd) => RV::H(fd_index(fd.as_raw_fd())),
        Value::Array(a) => {
            let e = parse_ty(&a.element_signature().to_string())
                .ok_or_else(|| format!("array element signature {}", a.element_signature()))?;
            let xs = a
                .inner()
                .iter()
                .map(|x| from_value(x, fd_index))
                .collect::<Result<Vec<_>, _>>()?;
            RV::Array(e, xs)
        }
        Value::Dict(d) => {
            let full = d.signature().to_string();
            let t = parse_ty(&full).ok_or_else(|| format!("dict signature {full}"))?;
            let Ty::Dict(k, vt) = t else {
                return Err(format!("dict signature {full}"));
            };
            let xs = d
                .iter()
                .map(|(kk, vv)| Ok((from_value(kk, fd_index)?, from_value(vv, fd_index)?)))
                .collect::<Result<Vec<_>, String>>()?;
            RV::Dict(*k, *vt, xs)
        }
        Value::Structure(s) => RV::Struct(
            s.fields()
                .iter()
                .map(|x| from_value(x, fd_index))
                .collect::<Result<Vec<_>, _>>()?,
        ),
        #[allow(unreachable_patterns)]
        other => return Err(format!("value kind not representable in D-Bus: {other:?}")),
    })
}

/// inode identity of an fd (device and inode).
pub fn inode_of(fd: &impl AsRawFd) -> u64 {
    crate::world::inode_of(fd)
}

// ---------------------------------------------------------------------------------------------
// audit of this reference model against libdbus (dlopen; never decides a property)
// ---------------------------------------------------------------------------------------------

/// `dbus_message_demarshal` and the header getters of the installed libdbus, loaded at run time.
/// Used only to audit the reference model: a disagreement is a machinery failure, not a finding.
pub struct LibDbus {
    demarshal: unsafe extern "C" fn(*const libc::c_char, libc::c_int, *mut [u64; 8]) -> *mut libc::c_void,
    bytes_needed: unsafe extern "C" fn(*const libc::c_char, libc::c_int) -> libc::c_int,
    unref: unsafe extern "C" fn(*mut libc::c_void),
    error_init: unsafe extern "C" fn(*mut [u64; 8]),
    error_free: unsafe extern "C" fn(*mut [u64; 8]),
    get_type: unsafe extern "C" fn(*mut libc::c_void) -> libc::c_int,
    get_serial: unsafe extern "C" fn(*mut libc::c_void) -> u32,
    get_reply_serial: unsafe extern "C" fn(*mut libc::c_void) -> u32,
    get_no_reply: unsafe extern "C" fn(*mut libc::c_void) -> u32,
    get_auto_start: unsafe extern "C" fn(*mut libc::c_void) -> u32,
    get_interactive: unsafe extern "C" fn(*mut libc::c_void) -> u32,
    get_str: [unsafe extern "C" fn(*mut libc::c_void) -> *const libc::c_char; 7],
}

/// What libdbus reads from a message it accepted.
#[derive(Debug, Clone, PartialEq)]
pub struct DbusReading {
    pub mtype: i32,
    pub serial: u32,
    pub reply_serial: u32,
    pub no_reply: bool,
    pub no_auto_start: bool,
    pub interactive: bool,
    /// path, interface, member, error_name, destination, sender, signature
    pub strs: Vec<Option<String>>,
    pub bytes_needed: i32,
}

impl LibDbus {
    pub fn load() -> Option<Self> {
        unsafe {
            let mut h = std::ptr::null_mut();
            for name in ["libdbus-1.so.3\0", "libdbus-1.so\0"] {
                h = libc::dlopen(name.as_ptr() as *const _, libc::RTLD_NOW);
                if !h.is_null() {
                    break;
                }
            }
            if h.is_null() {
                return None;
            }
            macro_rules! sym {
                ($n:expr) => {{
                    let p = libc::dlsym(h, concat!($n, "\0").as_ptr() as *const _);
                    if p.is_null() {
                        return None;
                    }
                    std::mem::transmute(p)
                }};
            }
            Some(Self {
                demarshal: sym!("dbus_message_demarshal"),
                bytes_needed: sym!("dbus_message_demarshal_bytes_needed"),
                unref: sym!("dbus_message_unref"),
                error_init: sym!("dbus_error_init"),
                error_free: sym!("dbus_error_free"),
                get_type: sym!("dbus_message_get_type"),
                get_serial: sym!("dbus_message_get_serial"),
                get_reply_serial: sym!("dbus_message_get_reply_serial"),
                get_no_reply: sym!("dbus_message_get_no_reply"),
                get_auto_start: sym!("dbus_message_get_auto_start"),
                get_interactive: sym!("dbus_message_get_allow_interactive_authorization"),
                get_str: [
                    sym!("dbus_message_get_path"),
                    sym!("dbus_message_get_interface"),
                    sym!("dbus_message_get_member"),
                    sym!("dbus_message_get_error_name"),
                    sym!("dbus_message_get_destination"),
                    sym!("dbus_message_get_sender"),
                    sym!("dbus_message_get_signature"),
                ],
            })
        }
    }

    /// Demarshal `bytes` (a whole message without fds) with libdbus.
    pub fn read(&self, bytes: &[u8]) -> Result<DbusReading, String> {
        unsafe {
            let mut err = [0u64; 8];
            (self.error_init)(&mut err);
            let needed = (self.bytes_needed)(bytes.as_ptr() as *const _, bytes.len() as libc::c_int);
            let m = (self.demarshal)(bytes.as_ptr() as *const _, bytes.len() as libc::c_int, &mut err);
            if m.is_null() {
                let msg = err[1] as *const libc::c_char;
                let text = if msg.is_null() {
                    "demarshal failed".to_string()
                } else {
                    std::ffi::CStr::from_ptr(msg).to_string_lossy().into_owned()
                };
                (self.error_free)(&mut err);
                return Err(text);
            }
            let strs = self
                .get_str
                .iter()
                .map(|f| {
                    let p = f(m);
                    if p.is_null() {
                        None
                    } else {
                        Some(std::ffi::CStr::from_ptr(p).to_string_lossy().into_owned())
                    }
                })
                .collect();
            let r = DbusReading {
                mtype: (self.get_type)(m),
                serial: (self.get_serial)(m),
                reply_serial: (self.get_reply_serial)(m),
                no_reply: (self.get_no_reply)(m) != 0,
                no_auto_start: (self.get_auto_start)(m) == 0,
                interactive: (self.get_interactive)(m) != 0,
                strs,
                bytes_needed: needed,
            };
            (self.unref)(m);
            Ok(r)
        }
    }
}

/// Audit one reference-built message: libdbus must accept it and read the same header.
/// `Ok(false)` = not auditable (carries fds). `Err` = the reference model and libdbus disagree.
pub fn audit_with_libdbus(lib: &LibDbus, spec: &MsgSpec) -> Result<bool, String> {
    if spec.body.iter().any(|a| a.count_fds() > 0) {
        return Ok(false); // libdbus refuses UNIX_FDS without the fds on a socket
    }
    let (bytes, _) = spec.encode();
    let r = lib
        .read(&bytes)
        .map_err(|e| format!("libdbus rejects the reference encoding {}: {e}", vcommon::hex(&bytes)))?;
    let get = |code: u8| {
        spec.all_fields().iter().rev().find(|(c, _)| *c == code).map(|(_, v)| match v {
            RV::S(x) | RV::O(x) | RV::G(x) => x.clone(),
            other => other.show(),
        })
    };
    let want = DbusReading {
        mtype: spec.mtype as i32,
        serial: spec.serial,
        reply_serial: spec
            .all_fields()
            .iter()
            .find(|(c, _)| *c == REPLY_SERIAL)
            .and_then(|(_, v)| if let RV::U(x) = v { Some(*x) } else { None })
            .unwrap_or(0),
        no_reply: spec.flags & 1 != 0,
        no_auto_start: spec.flags & 2 != 0,
        interactive: spec.flags & 4 != 0,
        strs: vec![
            get(PATH),
            get(INTERFACE),
            get(MEMBER),
            get(ERROR_NAME),
            get(DESTINATION),
            get(SENDER),
            Some(get(SIGNATURE).unwrap_or_default()),
        ],
        bytes_needed: bytes.len() as i32,
    };
    if r != want {
        return Err(format!(
            "libdbus reads {r:?} from the reference encoding of a message that logically is {want:?} ({})",
            vcommon::hex(&bytes)
        ));
    }
    Ok(true)
}

#[cfg(test)]
mod tests {
    use super::*;
    #[test]
    fn header_roundtrip() {
        let m = MsgSpec::new(METHOD_CALL, 7)
            .field(PATH, o("/a"))
            .field(MEMBER, s("Ping"));
        let (b, _) = m.encode();
        let p = parse_header(&b).unwrap();
        assert_eq!(p.fields.len(), 2);
        assert_eq!(p.body_offset, b.len());
    }
}
