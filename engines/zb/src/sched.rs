//! Glue between scenarios, the explorer and the report.

use std::sync::Mutex;

use serde_json::json;
use vcommon::{Report, Violation};

use crate::explore::{confirm_deterministic, explore, trim, ExecResult, ExploreCfg, ExploreStats};

pub struct SchedPlan {
    /// Deviation bounds to run, in order (None = unbounded DFS). Each is run from scratch; the
    /// highest one that completed within the budget is what the evidence reports.
    pub bounds: Vec<Option<usize>>,
    pub max_execs: u64,
    pub time_budget_s: f64,
}

#[derive(Default)]
pub struct Totals {
    pub execs: u64,
    pub transitions: u64,
    pub states: u64,
    pub distinct_logs: u64,
    pub scenarios: Vec<serde_json::Value>,
}

/// Explore one named scenario and fold the result into the report.
/// `params` is stored in the replay artefact so that `--replay` can rebuild the scenario.
pub fn run_scenario<F>(
    report: &Report,
    totals: &Mutex<Totals>,
    name: &str,
    params: serde_json::Value,
    plan: &SchedPlan,
    f: F,
) where
    F: Fn() -> ExecResult + Sync,
{
    let mut completed: Option<ExploreStats> = None;
    let mut last: Option<ExploreStats> = None;
    let t0 = std::time::Instant::now();
    let sample_taken = std::sync::atomic::AtomicBool::new(false);
    for b in &plan.bounds {
        let remaining = plan.time_budget_s - t0.elapsed().as_secs_f64();
        if remaining <= 0.0 && completed.is_some() {
            break;
        }
        let cfg = ExploreCfg {
            bound: *b,
            max_execs: plan.max_execs,
            time_budget_s: remaining.max(1.0),
            threads: vcommon::n_workers(),
        };
        let seen: Mutex<std::collections::BTreeSet<(String, std::collections::BTreeMap<String, String>)>> =
            Mutex::new(Default::default());
        let stats = explore(&cfg, &f, |trace, res| {
            report.eval(1);
            if res.capped {
                report.outcome("horizon-hit");
            }
            if !sample_taken.swap(true, std::sync::atomic::Ordering::Relaxed) && report.n_samples() < 10 {
                report.sample(json!({"scenario": name, "params": params, "choices": trim(&trace.choices), "log": res.log}));
            }
            for v in &res.violations {
                let ident = (v.clause.clone(), v.features.clone());
                let first = seen.lock().unwrap().insert(ident);
                let mut v = v.clone();
                if first {
                    // Confirm on this thread that the schedule is reproducible before believing it.
                    let again = confirm_deterministic(&trace.choices, &f);
                    if !again.violations.iter().any(|w| w.clause == v.clause) {
                        vcommon::machinery_failure(&format!(
                            "harness nondeterminism: violation of clause {} did not reproduce on replay",
                            v.clause
                        ));
                    }
                }
                v.replay = json!({
                    "scenario": name,
                    "params": params,
                    "choices": trim(&trace.choices),
                    "log": res.log,
                    "case": v.replay,
                });
                v.detail = format!("[{name} choices={:?}] {}", trim(&trace.choices), v.detail);
                report.violation(v);
            }
        });
        if stats.capped_execs > 0 {
            report.cap(format!(
                "{name}: {} executions hit the step horizon (bound {:?})",
                stats.capped_execs, b
            ));
        }
        let complete = stats.complete;
        last = Some(stats.clone());
        if complete {
            completed = Some(stats);
        } else {
            break;
        }
    }
    let mut t = totals.lock().unwrap();
    let shown = completed.clone().or(last.clone()).unwrap_or_default();
    t.execs += shown.execs;
    t.transitions += shown.transitions;
    t.states += shown.states;
    t.distinct_logs += shown.distinct_logs;
    let bound_str = |s: &ExploreStats| match s.bound {
        Some(b) => json!(b),
        None => json!("unbounded"),
    };
    t.scenarios.push(json!({
        "scenario": name,
        "params": params,
        "deviation_bound_completed": completed.as_ref().map(bound_str),
        "deviation_bound_attempted": last.as_ref().map(bound_str),
        "executions": shown.execs,
        "distinct_observation_logs": shown.distinct_logs,
        "max_choice_points": shown.max_points,
        "violating_executions": shown.violating_execs,
        "wall_s": (shown.wall_s * 1000.0).round() / 1000.0,
    }));
    if completed.is_none() {
        report.cap(format!("{name}: no deviation bound completed within the budget"));
    }
}

pub fn finish_model_checking(report: &Report, totals: &Mutex<Totals>, rule: &str) -> i32 {
    let t = totals.lock().unwrap();
    report.set("states", json!(t.states.max(1)));
    report.set("transitions", json!(t.transitions.max(1)));
    report.set("traces_validated_against_impl", json!(t.execs));
    report.set("distinct_observation_logs", json!(t.distinct_logs));
    report.set("scenarios", json!(t.scenarios));
    report.set(
        "states_meaning",
        json!("distinct observation-log prefixes reached; every trace is an execution of the real implementation"),
    );
    // For model-checking evidence `distinct_nontrivial` = distinct observation logs.
    report.set("distinct_nontrivial", json!(t.distinct_logs));
    report.finish(rule, true)
}

pub fn v(clause: &str, detail: impl Into<String>) -> Violation {
    Violation::new(clause, detail, serde_json::Value::Null)
}

/// `--replay <path>`: re-run ONE recorded schedule of a scenario (no exploration) and print what
/// happens. `resolve` rebuilds the scenario closure from its recorded name and parameters.
pub fn replay(
    path: &str,
    resolve: impl Fn(&str, &serde_json::Value) -> Option<Box<dyn Fn() -> ExecResult>>,
) -> i32 {
    let j = vcommon::load_replay(path);
    let r = &j["replay"];
    let name = r["scenario"].as_str().unwrap_or("");
    let choices: Vec<usize> = r["choices"]
        .as_array()
        .map(|a| a.iter().map(|x| x.as_u64().unwrap_or(0) as usize).collect())
        .unwrap_or_default();
    let Some(f) = resolve(name, &r["params"]) else {
        vcommon::machinery_failure(&format!("replay: unknown scenario {name:?}"));
    };
    println!("replaying scenario {name} params {} with choices {choices:?}", r["params"]);
    let res = confirm_deterministic(&choices, &f);
    for l in &res.log {
        println!("  log: {l}");
    }
    if res.violations.is_empty() {
        println!("no violation in this execution");
    }
    for v in &res.violations {
        println!("violation: clause={} {}", v.clause, v.detail);
    }
    0
}
