//! Shared machinery of the object-server history checks (C24, C25, C28): a real p2p connection
//! pair inside one `World`, "one API call + quiescence" transitions, wire-level probes and the
//! boring reference model of the registry.

use std::collections::{BTreeMap, BTreeSet};
use std::future::Future;

use serde_json::{json, Value as J};
use zbus::{object_server::Interface, Connection};

use crate::world::{Link, World};

/// The path universe. Two universes exist (selected process-wide with `select_paths`, never while
/// histories are running): 0 = {/, /a, /a/b, /c} (root, parent/child, unrelated sibling) and
/// 1 = {/, /a, /a/b/d, /a/bc} (an object with a grandchild below a never-registered
/// intermediate node /a/b, three levels, and a sibling whose name has that node's name as a
/// string prefix). Index 0 is the root in both.
pub(crate) const PATH_SETS: [[&str; 4]; 2] = [["/", "/a", "/a/b", "/c"], ["/", "/a", "/a/b/d", "/a/bc"]];
static PATH_SET: std::sync::atomic::AtomicUsize = std::sync::atomic::AtomicUsize::new(0);
pub(crate) fn select_paths(set: usize) {
    assert!(set < PATH_SETS.len());
    PATH_SET.store(set, std::sync::atomic::Ordering::SeqCst);
}
pub(crate) fn selected_paths() -> usize {
    PATH_SET.load(std::sync::atomic::Ordering::SeqCst)
}
pub(crate) struct PathSet;
pub(crate) const PATHS: PathSet = PathSet;
impl PathSet {
    pub fn len(&self) -> usize {
        4
    }
    pub fn iter(&self) -> std::slice::Iter<'static, &'static str> {
        PATH_SETS[selected_paths()].iter()
    }
}
impl std::ops::Index<usize> for PathSet {
    type Output = &'static str;
    fn index(&self, i: usize) -> &&'static str {
        &PATH_SETS[selected_paths()][i]
    }
}
pub(crate) const IFACES: [&str; 2] = ["x.v.I1", "x.v.I2"];
pub(crate) const OM: &str = "org.freedesktop.DBus.ObjectManager";
pub(crate) const STD: [&str; 3] = [
    "org.freedesktop.DBus.Peer",
    "org.freedesktop.DBus.Introspectable",
    "org.freedesktop.DBus.Properties",
];

// ---------------------------------------------------------------------------------------------
// Interfaces of the universe: one method, one property, an instance tag.
// ---------------------------------------------------------------------------------------------

pub(crate) struct I1 {
    pub val: u32,
}
#[zbus::interface(name = "x.v.I1")]
impl I1 {
    fn ping1(&self) -> u32 {
        self.val
    }
    #[zbus(property)]
    fn val(&self) -> u32 {
        self.val
    }
}

pub(crate) struct I2 {
    pub val: u32,
}
#[zbus::interface(name = "x.v.I2")]
impl I2 {
    fn ping2(&self) -> u32 {
        self.val
    }
    #[zbus(property)]
    fn val(&self) -> u32 {
        self.val
    }
}

pub(crate) const PING: [&str; 2] = ["Ping1", "Ping2"];

// ---------------------------------------------------------------------------------------------
// System under test
// ---------------------------------------------------------------------------------------------

/// Field order matters: the connections are dropped before the world.
pub(crate) struct Sys {
    pub client: Connection,
    pub server: Connection,
    pub link: Link,
    pub w: World,
}

pub(crate) enum Ran<T> {
    Done(T),
    /// Nothing is enabled any more and the call has not returned.
    Hung,
    Panic { msg: String, loc: String },
}

impl Sys {
    pub fn new() -> Result<Sys, String> {
        vcommon::catch(|| {
            let mut w = World::new();
            let (client, server, link) = w.p2p_pair();
            // Start the object server's dispatch task now so that it is subscribed before any
            // call arrives (the on-demand start is C30's subject, not ours).
            let _ = server.object_server();
            w.settle();
            Sys {
                client,
                server,
                link,
                w,
            }
        })
    }

    /// One transition: run `fut` as a root task, and everything else, until nothing is enabled.
    pub fn run<T: Send + 'static>(
        &mut self,
        name: &str,
        fut: impl Future<Output = T> + Send + 'static,
    ) -> Ran<T> {
        let w = &mut self.w;
        match vcommon::catch(move || w.complete(name, fut)) {
            Ok(Some(v)) => Ran::Done(v),
            Ok(None) => Ran::Hung,
            Err(msg) => Ran::Panic {
                msg,
                loc: vcommon::last_panic_location(),
            },
        }
    }
}

// ---------------------------------------------------------------------------------------------
// Wire calls
// ---------------------------------------------------------------------------------------------

pub(crate) enum Reply {
    Ok(zbus::Message),
    /// D-Bus error reply: (error name, text)
    Err(String, String),
    /// Local failure
    Other(String),
}

pub(crate) async fn call<B>(c: &Connection, path: &str, iface: &str, member: &str, body: &B) -> Reply
where
    B: serde::ser::Serialize + zbus::zvariant::DynamicType,
{
    match c.call_method(None::<()>, path, Some(iface), member, body).await {
        Ok(m) => Reply::Ok(m),
        Err(zbus::Error::MethodError(name, desc, _)) => {
            Reply::Err(name.to_string(), desc.unwrap_or_default())
        }
        Err(e) => Reply::Other(format!("{e:?}")),
    }
}

pub(crate) fn short_err(name: &str) -> &str {
    name.strip_prefix("org.freedesktop.DBus.Error.").unwrap_or(name)
}

// ---------------------------------------------------------------------------------------------
// Operations
// ---------------------------------------------------------------------------------------------

#[derive(Clone, Copy, Debug, PartialEq, Eq, Hash, PartialOrd, Ord)]
pub(crate) enum Op {
    At { p: usize, i: usize, val: u32 },
    Remove { p: usize, i: usize },
    /// Full probe of the universe as a transition (must not change anything).
    Lookup,
    AtOm { p: usize },
    RemoveOm { p: usize },
}

impl Op {
    pub fn kind(&self) -> &'static str {
        match self {
            Op::At { .. } => "at",
            Op::Remove { .. } => "remove",
            Op::Lookup => "lookup",
            Op::AtOm { .. } => "at-manager",
            Op::RemoveOm { .. } => "remove-manager",
        }
    }
    pub fn path(&self) -> Option<usize> {
        match self {
            Op::At { p, .. } | Op::Remove { p, .. } | Op::AtOm { p } | Op::RemoveOm { p } => Some(*p),
            Op::Lookup => None,
        }
    }
    pub fn to_json(&self) -> J {
        match self {
            Op::At { p, i, val } => json!({"op":"at","path":PATHS[*p],"iface":IFACES[*i],"val":val}),
            Op::Remove { p, i } => json!({"op":"remove","path":PATHS[*p],"iface":IFACES[*i]}),
            Op::Lookup => json!({"op":"lookup"}),
            Op::AtOm { p } => json!({"op":"at","path":PATHS[*p],"iface":OM}),
            Op::RemoveOm { p } => json!({"op":"remove","path":PATHS[*p],"iface":OM}),
        }
    }
    pub fn from_json(v: &J) -> Option<Op> {
        let p = || PATHS.iter().position(|x| Some(*x) == v["path"].as_str());
        let iface = v["iface"].as_str();
        match v["op"].as_str()? {
            "lookup" => Some(Op::Lookup),
            "at" if iface == Some(OM) => Some(Op::AtOm { p: p()? }),
            "remove" if iface == Some(OM) => Some(Op::RemoveOm { p: p()? }),
            "at" => Some(Op::At {
                p: p()?,
                i: IFACES.iter().position(|x| Some(*x) == iface)?,
                val: v["val"].as_u64().unwrap_or(1) as u32,
            }),
            "remove" => Some(Op::Remove {
                p: p()?,
                i: IFACES.iter().position(|x| Some(*x) == iface)?,
            }),
            _ => None,
        }
    }
    pub fn show(&self) -> String {
        match self {
            Op::At { p, i, val } => format!("at {} I{} #{}", PATHS[*p], i + 1, val),
            Op::Remove { p, i } => format!("remove {} I{}", PATHS[*p], i + 1),
            Op::Lookup => "lookup".into(),
            Op::AtOm { p } => format!("at {} ObjectManager", PATHS[*p]),
            Op::RemoveOm { p } => format!("remove {} ObjectManager", PATHS[*p]),
        }
    }
}

pub(crate) fn show_history(h: &[Op]) -> String {
    h.iter().map(|o| o.show()).collect::<Vec<_>>().join("; ")
}

pub(crate) fn history_json(h: &[Op]) -> J {
    J::Array(h.iter().map(|o| o.to_json()).collect())
}

pub(crate) fn history_from_json(v: &J) -> Option<Vec<Op>> {
    v.as_array()?.iter().map(Op::from_json).collect()
}

/// What an at/remove returned.
#[derive(Clone, Debug, PartialEq, Eq, Hash)]
pub(crate) enum OpRet {
    Bool(bool),
    NotFound,
    OtherErr(String),
    /// `Lookup` has no return value of its own.
    Unit,
}

impl OpRet {
    pub fn show(&self) -> String {
        match self {
            OpRet::Bool(b) => format!("Ok({b})"),
            OpRet::NotFound => "Err(InterfaceNotFound)".into(),
            OpRet::OtherErr(e) => format!("Err({e})"),
            OpRet::Unit => "()".into(),
        }
    }
}

fn ret(r: zbus::Result<bool>) -> OpRet {
    match r {
        Ok(b) => OpRet::Bool(b),
        Err(zbus::Error::InterfaceNotFound) => OpRet::NotFound,
        Err(e) => OpRet::OtherErr(format!("{e:?}")),
    }
}

/// Execute one registry operation on the server connection (`Lookup` is handled by the caller).
pub(crate) async fn do_op(server: Connection, op: Op) -> OpRet {
    let os = server.object_server();
    match op {
        Op::At { p, i: 0, val } => ret(os.at(PATHS[p], I1 { val }).await),
        Op::At { p, val, .. } => ret(os.at(PATHS[p], I2 { val }).await),
        Op::Remove { p, i: 0 } => ret(os.remove::<I1, _>(PATHS[p]).await),
        Op::Remove { p, .. } => ret(os.remove::<I2, _>(PATHS[p]).await),
        Op::AtOm { p } => ret(os.at(PATHS[p], zbus::fdo::ObjectManager).await),
        Op::RemoveOm { p } => ret(os.remove::<zbus::fdo::ObjectManager, _>(PATHS[p]).await),
        Op::Lookup => OpRet::Unit,
    }
}

// ---------------------------------------------------------------------------------------------
// Probe
// ---------------------------------------------------------------------------------------------

#[derive(Clone, Debug, PartialEq, Eq, Hash, PartialOrd, Ord)]
pub(crate) enum View {
    /// The pair answered, with this instance tag.
    Val(u32),
    /// Cleanly absent (InterfaceNotFound / UnknownObject / UnknownInterface).
    Absent(String),
    /// Anything else.
    Odd(String),
}

impl View {
    pub fn present(&self) -> bool {
        matches!(self, View::Val(_))
    }
    fn show(&self) -> String {
        match self {
            View::Val(v) => format!("#{v}"),
            View::Absent(e) => format!("absent({e})"),
            View::Odd(e) => format!("ODD({e})"),
        }
    }
}

#[derive(Clone, Debug, PartialEq, Eq, Hash, Default, PartialOrd, Ord)]
pub(crate) struct IntroNode {
    /// Interfaces other than Peer/Introspectable/Properties.
    pub ifaces: BTreeSet<String>,
    pub children: BTreeMap<String, IntroNode>,
}

impl IntroNode {
    fn from_xml(n: &zbus_xml::Node<'_>) -> IntroNode {
        let mut out = IntroNode::default();
        for i in n.interfaces() {
            let name = i.name().to_string();
            if !STD.contains(&name.as_str()) {
                out.ifaces.insert(name);
            }
        }
        for c in n.nodes() {
            out.children
                .insert(c.name().unwrap_or("").to_string(), IntroNode::from_xml(c));
        }
        out
    }
    /// All (path, interface) pairs in this tree, `base` being the path of `self`.
    pub fn pairs(&self, base: &str, out: &mut BTreeSet<(String, String)>) {
        for i in &self.ifaces {
            out.insert((base.to_string(), i.clone()));
        }
        for (name, c) in &self.children {
            let p = if base == "/" {
                format!("/{name}")
            } else {
                format!("{base}/{name}")
            };
            c.pairs(&p, out);
        }
    }
    /// All node paths in this tree.
    pub fn nodes(&self, base: &str, out: &mut BTreeSet<String>) {
        out.insert(base.to_string());
        for (name, c) in &self.children {
            let p = if base == "/" {
                format!("/{name}")
            } else {
                format!("{base}/{name}")
            };
            c.nodes(&p, out);
        }
    }
    fn show(&self) -> String {
        let kids: Vec<String> = self
            .children
            .iter()
            .map(|(k, v)| format!("{k}:{}", v.show()))
            .collect();
        format!(
            "{{ifaces=[{}] children=[{}]}}",
            self.ifaces.iter().cloned().collect::<Vec<_>>().join(","),
            kids.join(",")
        )
    }
}

#[derive(Clone, Debug, PartialEq, Eq, Hash, PartialOrd, Ord)]
pub(crate) enum Intro {
    Node(IntroNode),
    /// UnknownObject
    NoNode(String),
    Odd(String),
}

/// Everything the property lets one see of the registry.
#[derive(Clone, Debug, PartialEq, Eq, Hash, Default)]
pub(crate) struct Obs {
    /// `ObjectServer::interface::<I>(p)`, then the instance tag read through the reference.
    pub lookup: BTreeMap<(usize, usize), View>,
    /// Method call over the wire from the client.
    pub call: BTreeMap<(usize, usize), View>,
    /// `Properties.Get(iface, "Val")` over the wire.
    pub prop: BTreeMap<(usize, usize), View>,
    /// `Introspect` of every universe path over the wire (own interfaces + the nested subtree).
    pub intro: BTreeMap<usize, Intro>,
}

fn err_view(name: &str, text: &str) -> View {
    match short_err(name) {
        s @ ("UnknownObject" | "UnknownInterface") => View::Absent(s.to_string()),
        s => View::Odd(format!("{s}: {text}")),
    }
}

pub(crate) async fn probe(client: Connection, server: Connection) -> Obs {
    let mut o = Obs::default();
    let os = server.object_server();
    for p in 0..PATHS.len() {
        for i in 0..IFACES.len() {
            let v = if i == 0 {
                match os.interface::<_, I1>(PATHS[p]).await {
                    Ok(r) => View::Val(r.get().await.val),
                    Err(zbus::Error::InterfaceNotFound) => View::Absent("InterfaceNotFound".into()),
                    Err(e) => View::Odd(format!("{e:?}")),
                }
            } else {
                match os.interface::<_, I2>(PATHS[p]).await {
                    Ok(r) => View::Val(r.get().await.val),
                    Err(zbus::Error::InterfaceNotFound) => View::Absent("InterfaceNotFound".into()),
                    Err(e) => View::Odd(format!("{e:?}")),
                }
            };
            o.lookup.insert((p, i), v);
            let v = match call(&client, PATHS[p], IFACES[i], PING[i], &()).await {
                Reply::Ok(m) => match m.body().deserialize::<u32>() {
                    Ok(v) => View::Val(v),
                    Err(e) => View::Odd(format!("bad reply body: {e}")),
                },
                Reply::Err(n, t) => err_view(&n, &t),
                Reply::Other(e) => View::Odd(e),
            };
            o.call.insert((p, i), v);
            let v = match call(
                &client,
                PATHS[p],
                "org.freedesktop.DBus.Properties",
                "Get",
                &(IFACES[i], "Val"),
            )
            .await
            {
                Reply::Ok(m) => match m.body().deserialize::<zbus::zvariant::Value<'_>>() {
                    Ok(zbus::zvariant::Value::U32(v)) => View::Val(v),
                    Ok(v) => View::Odd(format!("unexpected value {v:?}")),
                    Err(e) => View::Odd(format!("bad reply body: {e}")),
                },
                Reply::Err(n, t) => err_view(&n, &t),
                Reply::Other(e) => View::Odd(e),
            };
            o.prop.insert((p, i), v);
        }
        let v = match call(
            &client,
            PATHS[p],
            "org.freedesktop.DBus.Introspectable",
            "Introspect",
            &(),
        )
        .await
        {
            Reply::Ok(m) => match m.body().deserialize::<String>() {
                Ok(xml) => match zbus_xml::Node::try_from(xml.as_str()) {
                    Ok(n) => Intro::Node(IntroNode::from_xml(&n)),
                    Err(e) => Intro::Odd(format!("unparsable introspection XML: {e}")),
                },
                Err(e) => Intro::Odd(format!("bad reply body: {e}")),
            },
            Reply::Err(n, t) => match short_err(&n) {
                "UnknownObject" => Intro::NoNode("UnknownObject".into()),
                s => Intro::Odd(format!("{s}: {t}")),
            },
            Reply::Other(e) => Intro::Odd(e),
        };
        o.intro.insert(p, v);
    }
    o
}

pub(crate) type Pair = (usize, usize);

impl Obs {
    pub fn set_of(m: &BTreeMap<Pair, View>) -> BTreeMap<Pair, u32> {
        m.iter()
            .filter_map(|(k, v)| match v {
                View::Val(x) => Some((*k, *x)),
                _ => None,
            })
            .collect()
    }
    /// Pairs listed by the direct `Introspect` of their own path.
    pub fn intro_direct(&self) -> BTreeSet<(String, String)> {
        let mut out = BTreeSet::new();
        for (p, v) in &self.intro {
            if let Intro::Node(n) = v {
                for i in &n.ifaces {
                    out.insert((PATHS[*p].to_string(), i.clone()));
                }
            }
        }
        out
    }
    /// Pairs found by walking the nested document returned for "/".
    pub fn intro_walk(&self) -> BTreeSet<(String, String)> {
        let mut out = BTreeSet::new();
        if let Some(Intro::Node(n)) = self.intro.get(&0) {
            n.pairs("/", &mut out);
        }
        out
    }
    pub fn odd(&self) -> Vec<String> {
        let mut out = vec![];
        for (name, m) in [("lookup", &self.lookup), ("call", &self.call), ("prop", &self.prop)] {
            for ((p, i), v) in m {
                if let View::Odd(e) = v {
                    out.push(format!("{name} {} {}: {e}", PATHS[*p], IFACES[*i]));
                }
            }
        }
        for (p, v) in &self.intro {
            if let Intro::Odd(e) = v {
                out.push(format!("introspect {}: {e}", PATHS[*p]));
            }
        }
        out
    }
    /// Canonical form without instance tags (for counting structural states).
    pub fn structural(&self) -> impl std::hash::Hash {
        let strip = |m: &BTreeMap<Pair, View>| -> Vec<(Pair, bool)> {
            m.iter().map(|(k, v)| (*k, v.present())).collect()
        };
        (
            strip(&self.lookup),
            strip(&self.call),
            strip(&self.prop),
            self.intro.clone(),
        )
    }
    pub fn show(&self) -> String {
        let mut s = String::new();
        for p in 0..PATHS.len() {
            for i in 0..IFACES.len() {
                s += &format!(
                    "  {:5} I{}: lookup={} call={} prop={}\n",
                    PATHS[p],
                    i + 1,
                    self.lookup.get(&(p, i)).map(|v| v.show()).unwrap_or_default(),
                    self.call.get(&(p, i)).map(|v| v.show()).unwrap_or_default(),
                    self.prop.get(&(p, i)).map(|v| v.show()).unwrap_or_default(),
                );
            }
            s += &format!(
                "  {:5} introspect: {}\n",
                PATHS[p],
                match self.intro.get(&p) {
                    Some(Intro::Node(n)) => n.show(),
                    Some(Intro::NoNode(e)) => format!("no node ({e})"),
                    Some(Intro::Odd(e)) => format!("ODD({e})"),
                    None => String::new(),
                }
            );
        }
        s
    }
}

// ---------------------------------------------------------------------------------------------
// Path relations
// ---------------------------------------------------------------------------------------------

/// `a` is strictly below `b`.
pub(crate) fn is_below(a: &str, b: &str) -> bool {
    if a == b {
        return false;
    }
    if b == "/" {
        return true;
    }
    a.starts_with(b) && a.as_bytes().get(b.len()) == Some(&b'/')
}

/// Relation of the pair at path `q` to an operation on path `p`.
pub(crate) fn relation(q: &str, p: &str) -> &'static str {
    if q == p {
        "same-node"
    } else if is_below(q, p) {
        "descendant"
    } else if is_below(p, q) {
        "ancestor"
    } else {
        "unrelated"
    }
}

pub(crate) fn iface_name_of<I: Interface>() -> String {
    I::name().to_string()
}

// ---------------------------------------------------------------------------------------------
// Parallel driver with per-chunk accumulation (one lock round per chunk instead of per history)
// ---------------------------------------------------------------------------------------------

#[derive(Default)]
pub(crate) struct Acc {
    pub outcomes: BTreeMap<String, u64>,
    pub nontrivial: Vec<u64>,
    pub states: Vec<u64>,
    pub evals: u64,
}

impl Acc {
    pub fn outcome(&mut self, class: &str) {
        match self.outcomes.get_mut(class) {
            Some(n) => *n += 1,
            None => {
                self.outcomes.insert(class.to_string(), 1);
            }
        }
    }
}

/// Run `f(i, acc)` for every `i in 0..total` on all cores; the accumulators are folded into the
/// report (and `states`) once per chunk.
pub(crate) fn par_items(
    total: usize,
    chunk: usize,
    report: &vcommon::Report,
    states: &std::sync::Mutex<std::collections::HashSet<u64>>,
    f: impl Fn(usize, &mut Acc) + Sync,
) {
    let n_chunks = total.div_ceil(chunk);
    vcommon::par_for(n_chunks, 1, |c| {
        let mut acc = Acc::default();
        for i in c * chunk..((c + 1) * chunk).min(total) {
            f(i, &mut acc);
        }
        report.eval(acc.evals);
        for (k, n) in &acc.outcomes {
            report.outcome_n(k, *n);
        }
        report.nontrivial_many(acc.nontrivial.iter().cloned());
        states.lock().unwrap().extend(acc.states.iter().cloned());
    });
}

/// The cheap part of `probe`: only the server-side lookups.
pub(crate) async fn probe_lookup(server: Connection) -> Obs {
    let mut o = Obs::default();
    let os = server.object_server();
    for p in 0..PATHS.len() {
        let v = match os.interface::<_, I1>(PATHS[p]).await {
            Ok(r) => View::Val(r.get().await.val),
            Err(zbus::Error::InterfaceNotFound) => View::Absent("InterfaceNotFound".into()),
            Err(e) => View::Odd(format!("{e:?}")),
        };
        o.lookup.insert((p, 0), v);
        let v = match os.interface::<_, I2>(PATHS[p]).await {
            Ok(r) => View::Val(r.get().await.val),
            Err(zbus::Error::InterfaceNotFound) => View::Absent("InterfaceNotFound".into()),
            Err(e) => View::Odd(format!("{e:?}")),
        };
        o.lookup.insert((p, 1), v);
    }
    o
}

/// Forwards at most three cases per (clause, features) identity to the report (its own bookkeeping
/// is linear in the number of kept cases) and counts all of them.
#[derive(Default)]
pub(crate) struct VioSink {
    seen: std::sync::Mutex<BTreeMap<(String, BTreeMap<String, String>), u64>>,
}

impl VioSink {
    pub fn push(&self, report: &vcommon::Report, v: vcommon::Violation) {
        let ident = (v.clause.clone(), v.features.clone());
        let n = {
            let mut s = self.seen.lock().unwrap();
            let e = s.entry(ident).or_insert(0);
            *e += 1;
            *e
        };
        if n <= 3 {
            report.violation(v);
        }
    }
    pub fn total(&self) -> u64 {
        self.seen.lock().unwrap().values().sum()
    }
    pub fn identities(&self) -> usize {
        self.seen.lock().unwrap().len()
    }
    /// identity -> number of violating transitions, for the evidence file
    pub fn summary(&self) -> J {
        J::Array(
            self.seen
                .lock()
                .unwrap()
                .iter()
                .map(|((c, f), n)| json!({"clause": c, "features": f, "transitions": n}))
                .collect(),
        )
    }
}
