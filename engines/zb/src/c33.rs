//! C33 — generated proxies and interfaces agree on the wire.
//!
//! Space (programs x inputs): every method of the generated bank (hand-written `#[proxy]` traits
//! for six interfaces, proxies derived by `#[interface(proxy(..))]` for two) x every argument
//! tuple of the leaf domains; every property x every value of its domain x {read, server-side
//! change, write through the proxy} x property caching {off, lazily}; every signal x every
//! argument tuple x emission route {associated fn + SignalEmitter, InterfaceRef + *Signals trait}.
//! All of it twice: the async proxies inside the single-threaded World on the default schedule
//! (run to quiescence; a call that does not complete there is a deadlock/lost wake-up, no clock
//! involved), and the blocking proxies on a free-running p2p pair over a real socketpair with
//! real threads — inputs enumerated exhaustively, **schedule not controlled** (stated in the
//! evidence). A blocking operation that does not finish within the watchdog is re-run in a fresh
//! pair; it is reported as a hang only if it times out three times, otherwise the run is a
//! machinery failure (exit 2).

use std::{
    os::unix::net::UnixStream,
    sync::{mpsc, Arc, Mutex},
    time::Duration,
};

use futures_lite::StreamExt;
use serde_json::{json, Value as J};
use vcommon::{catch, hash64, par_for, Args, Report, Violation};

use crate::{bank::*, c26::BankWorld, world::GUID};

const WATCHDOG: Duration = Duration::from_secs(60);

/// One unit of work = one proxy object and everything enumerated on it.
#[derive(Clone, Debug)]
enum Job {
    Method { id: u16, path: &'static str },
    Props { iface: usize, path: &'static str, cache: bool },
    Signals { iface: usize, path: &'static str, route: u8 },
}

impl Job {
    fn to_json(&self) -> J {
        match self {
            Job::Method { id, path } => json!({"job": "method", "id": id, "path": path}),
            Job::Props { iface, path, cache } => json!({"job": "props", "iface": iface, "path": path, "cache": cache}),
            Job::Signals { iface, path, route } => json!({"job": "signals", "iface": iface, "path": path, "route": route}),
        }
    }
    fn from_json(j: &J) -> Option<Job> {
        let path = ALL_PATHS.iter().find(|p| Some(**p) == j["path"].as_str())?;
        Some(match j["job"].as_str()? {
            "method" => Job::Method { id: j["id"].as_u64()? as u16, path },
            "props" => Job::Props { iface: j["iface"].as_u64()? as usize, path, cache: j["cache"].as_bool()? },
            "signals" => Job::Signals { iface: j["iface"].as_u64()? as usize, path, route: j["route"].as_u64()? as u8 },
            _ => return None,
        })
    }
}

fn jobs() -> Vec<Job> {
    let mut out = vec![];
    for m in METHODS {
        for path in IFACES[m.iface].paths {
            out.push(Job::Method { id: m.id, path });
        }
    }
    for d in IFACES {
        for path in d.paths {
            for cache in [false, true] {
                out.push(Job::Props { iface: d.idx, path, cache });
            }
            for route in [0, 1] {
                out.push(Job::Signals { iface: d.idx, path, route });
            }
        }
    }
    out
}

fn tuples(ins: &[&str]) -> Vec<Vec<Val>> {
    let doms: Vec<Vec<Val>> = ins.iter().map(|s| domain(s)).collect();
    let dims: Vec<usize> = doms.iter().map(|d| d.len()).collect();
    let mut out = vec![];
    vcommon::enumerate::product(&dims, |ix| {
        out.push(ix.iter().enumerate().map(|(i, k)| doms[i][*k].clone()).collect());
    });
    out
}

fn pick_sample(job: &Job, steps: usize) -> bool {
    match job {
        Job::Method { id, .. } => id % 40 == 0 && steps == 1,
        Job::Props { iface, cache, .. } => *iface == 3 && *cache && steps == 3,
        Job::Signals { iface, route, path } => *iface == 5 && *route == 1 && *path == "/bank" && steps == 2,
    }
}

/// A finding of one evaluated step: (clause, text, step description, kind feature).
struct Bad {
    clause: &'static str,
    text: String,
    step: J,
    kind: &'static str,
}

/// Evaluation sink shared by both drivers.
struct Sink<'a> {
    report: &'a Report,
    mode: &'static str,
    job: Job,
    bad: Vec<Bad>,
    steps: usize,
}

impl Sink<'_> {
    fn step(&mut self, kind: &'static str, canon: &J, outcome: &str) {
        self.steps += 1;
        // a fixed, small selection of samples (independent of thread timing)
        if pick_sample(&self.job, self.steps) {
            self.report.sample(json!({"mode": self.mode, "job": self.job.to_json(), "step": canon, "outcome": outcome}));
        }
        self.report.eval(1);
        self.report.nontrivial(hash64(&(self.mode, canon.to_string())));
        self.report.outcome(&format!("{}: {kind}: {outcome}", self.mode));
    }
    fn fail(&mut self, clause: &'static str, kind: &'static str, step: J, text: String) {
        self.bad.push(Bad { clause, text, step, kind });
    }
    fn flush(self) -> Vec<(String, String)> {
        let mut out = vec![];
        for b in self.bad {
            out.push((b.clause.to_string(), format!("step {}: {}", b.step, b.text)));
            let what = match &self.job {
                Job::Method { id, .. } => {
                    let m = &METHODS[*id as usize];
                    format!(
                        "{}.{} ({} {:?} async={} mut={} style={} derived_proxy={})",
                        IFACES[m.iface].name, m.member, m.rust, m.fall, m.is_async, m.is_mut, m.style, IFACES[m.iface].derived_proxy
                    )
                }
                Job::Props { iface, cache, .. } => format!("properties of {} (cache={cache})", IFACES[*iface].name),
                Job::Signals { iface, route, .. } => format!("signals of {} (route {route})", IFACES[*iface].name),
            };
            self.report.violation(
                Violation::new(
                    b.clause,
                    format!("[{} proxy] {what}: {}", self.mode, b.text),
                    json!({"mode": self.mode, "job": self.job.to_json(), "step": b.step}),
                )
                .feat("mode", self.mode)
                .feat("kind", b.kind),
            );
        }
        out
    }
}

fn judge_call(sink: &mut Sink, m: &MethodDesc, path: &str, args: &[Val], res: Option<CallResult>, log: Vec<Call>) {
    let step = json!({"call": m.id, "args": vals_to_json(args)});
    let want_log = vec![Call { id: m.id, inst: inst_of_path(path), args: args.to_vec() }];
    let exp = expected(m, args);
    let Some(res) = res else {
        sink.step("method", &step, "did-not-complete");
        sink.fail("call-completes", "method", step, format!("call with {args:?} did not complete (no task enabled); handler log {log:?}"));
        return;
    };
    sink.step(
        "method",
        &step,
        match (&exp, &res) {
            (Expect::Reply(_), Ok(_)) => "result",
            (Expect::Error { .. }, Err(_)) => "handler-error",
            _ => "mismatch",
        },
    );
    if log != want_log {
        sink.fail("args-delivered", "method", step.clone(), format!("proxy sent {args:?}; handler log {log:?}"));
    }
    match (&exp, &res) {
        (Expect::Reply(w), Ok(g)) if w == g => {}
        (Expect::Error { name, msg }, Err((gn, gm))) if gn == name && gm == msg => {}
        _ => sink.fail(
            "result-returned",
            "method",
            step,
            format!("proxy call with {args:?} returned {res:?}; the handler produced {exp:?}"),
        ),
    }
}

// ---------------------------------------------------------------------------------------------
// async proxies inside the World
// ---------------------------------------------------------------------------------------------

fn run_async(report: &Report, job: &Job) -> Vec<(String, String)> {
    let mut sink = Sink { report, mode: "async", job: job.clone(), bad: vec![], steps: 0 };
    let mut b = BankWorld::new();
    let (iface, path, cache) = match job {
        Job::Method { id, path } => (METHODS[*id as usize].iface, *path, false),
        Job::Props { iface, path, cache } => (*iface, *path, *cache),
        Job::Signals { iface, path, .. } => (*iface, *path, false),
    };
    let c = b.client.clone();
    let built = b.w.complete("build-proxy", async move { AnyProxy::build(&c, path, iface, cache).await });
    let proxy = match built {
        Some(Ok(p)) => Arc::new(p),
        other => {
            sink.step("build", &job.to_json(), "failed");
            sink.fail(
                "call-completes",
                "build",
                json!("build"),
                format!("building the proxy: {:?}", other.map(|r| r.err().map(|e| e.to_string()))),
            );
            return sink.flush();
        }
    };
    b.reg.take_log();
    match job {
        Job::Method { id, path } => {
            let m = &METHODS[*id as usize];
            for args in tuples(m.ins) {
                let (p, a) = (proxy.clone(), args.clone());
                let id = *id;
                let res = catch(|| b.w.complete("call", async move { p.call(id, &a).await }));
                let log = b.reg.take_log();
                match res {
                    Ok(r) => judge_call(&mut sink, m, path, &args, r, log),
                    Err(p) => sink.fail("call-completes", "method", json!({"call": id, "args": vals_to_json(&args)}), format!("panic: {p}")),
                }
            }
        }
        Job::Props { iface, path, cache } => {
            let st = b.reg.state(path, *iface).clone();
            for pd in PROPS.iter().filter(|p| p.iface == *iface) {
                let mut ops: Vec<(&'static str, Val)> = vec![("read", st.prop(pd.name))];
                for v in domain(pd.sig) {
                    ops.push(("server-change", v.clone()));
                    if pd.writable {
                        ops.push(("write", v));
                    }
                }
                for (op, v) in ops {
                    let step = json!({"prop": pd.idx, "op": op, "value": v.to_json()});
                    let mut problems: Vec<(&'static str, String)> = vec![];
                    match op {
                        "server-change" => {
                            st.set_prop(pd.name, v.clone());
                            if *cache && pd.emits {
                                let (s, p) = (b.server.clone(), path.to_string());
                                let (i, k) = (*iface, pd.idx);
                                let r = b.w.complete("changed", async move { emit_prop_changed(&s, &p, i, k).await.map_err(|e| e.to_string()) });
                                if r != Some(Ok(())) {
                                    problems.push(("property-read", format!("emitting PropertiesChanged: {r:?}")));
                                }
                            }
                        }
                        "write" => {
                            let (p, vv, k) = (proxy.clone(), v.clone(), pd.idx);
                            let r = b.w.complete("set", async move { p.set(k, &vv).await });
                            let log = b.reg.take_log();
                            let want = vec![Call { id: 10000 + (*iface as u16) * 10 + pd.idx as u16, inst: inst_of_path(path), args: vec![v.clone()] }];
                            if r != Some(Ok(())) || log != want || st.prop(pd.name) != v {
                                problems.push((
                                    "property-write",
                                    format!("set({v:?}) through the proxy gave {r:?}; setter log {log:?}; server now holds {:?}", st.prop(pd.name)),
                                ));
                            }
                        }
                        _ => {}
                    }
                    let (p, k) = (proxy.clone(), pd.idx);
                    let got = b.w.complete("get", async move { p.get(k).await });
                    b.reg.take_log();
                    let held = st.prop(pd.name);
                    if got != Some(Ok(held.clone())) {
                        problems.push((
                            "property-read",
                            format!("after {op} the server holds {held:?} but the proxy reads {got:?}"),
                        ));
                    }
                    sink.step("property", &json!({"iface": iface, "path": path, "cache": cache, "step": step}), if problems.is_empty() { op } else { "mismatch" });
                    for (cl, t) in problems {
                        sink.fail(cl, "property", step.clone(), format!("{} ({}{}): {t}", pd.name, pd.sig, if pd.emits { "" } else { ", emits-changed=false" }));
                    }
                }
            }
        }
        Job::Signals { iface, path, route } => {
            for sd in SIGNALS.iter().filter(|s| s.iface == *iface) {
                let (p, k) = (proxy.clone(), sd.idx);
                let sub = b.w.complete("subscribe", async move { p.subscribe(k).await });
                let stream = match sub {
                    Some(Ok(s)) => Arc::new(Mutex::new(Some(s))),
                    other => {
                        sink.step("signal", &json!({"iface": iface, "sig": sd.idx, "subscribe": true}), "subscribe-failed");
                        sink.fail(
                            "signal-arrives",
                            "signal",
                            json!({"signal": sd.idx, "subscribe": true}),
                            format!("subscribing to {}: {:?}", sd.member, other.map(|r| r.err().map(|e| e.to_string()))),
                        );
                        continue;
                    }
                };
                for args in tuples(sd.ins) {
                    let step = json!({"signal": sd.idx, "args": vals_to_json(&args)});
                    let (s, pth, a) = (b.server.clone(), path.to_string(), args.clone());
                    let (i, k, r) = (*iface, sd.idx, *route);
                    let em = b.w.complete("emit", async move { emit_signal(&s, &pth, i, k, &a, r).await.map_err(|e| e.to_string()) });
                    let slot = stream.clone();
                    let item = b.w.complete("next", async move {
                        let mut s = slot.lock().unwrap().take()?;
                        let it = s.next().await;
                        *slot.lock().unwrap() = Some(s);
                        it
                    });
                    let ok = em == Some(Ok(())) && item == Some(Some(Ok(args.clone())));
                    sink.step("signal", &json!({"iface": iface, "path": path, "route": route, "step": step}), if ok { "arrived" } else { "mismatch" });
                    if !ok {
                        sink.fail(
                            "signal-arrives",
                            "signal",
                            step,
                            format!("{} emitted with {args:?} (emit: {em:?}); the proxy stream yielded {item:?}", sd.member),
                        );
                        if item.is_none() {
                            break; // the stream is stuck inside the unfinished future
                        }
                    }
                }
            }
        }
    }
    if b.w.hit_horizon {
        report.cap("settle guard hit");
    }
    sink.flush()
}

// ---------------------------------------------------------------------------------------------
// blocking proxies on a free-running pair
// ---------------------------------------------------------------------------------------------

struct LivePair {
    client: zbus::blocking::Connection,
    server: zbus::Connection,
    reg: Registered,
}

fn live_pair() -> Result<LivePair, String> {
    let (a, b) = UnixStream::pair().map_err(|e| e.to_string())?;
    let srv = std::thread::spawn(move || {
        zbus::block_on(async move {
            // The interfaces go on the builder: an object server that is created on demand after
            // `build()` can lose a call that arrives before its dispatch task was first polled
            // (that is C30's subject and would show up here as a sporadic hang).
            let builder = zbus::connection::Builder::unix_stream(b)
                .server(GUID)
                .map_err(|e| e.to_string())?
                .p2p();
            let (builder, reg) = serve_layout(builder).map_err(|e| e.to_string())?;
            let conn = builder.build().await.map_err(|e| e.to_string())?;
            Ok::<_, String>((conn, reg))
        })
    });
    let client = zbus::blocking::connection::Builder::unix_stream(a)
        .p2p()
        .build()
        .map_err(|e| format!("client: {e}"))?;
    let (server, reg) = srv.join().map_err(|_| "server thread panicked".to_string())??;
    Ok(LivePair { client, server, reg })
}

/// Messages from the worker thread: evaluated steps are applied on the driver side.
enum Ev {
    Step { kind: &'static str, canon: J, outcome: String },
    Fail { clause: &'static str, kind: &'static str, step: J, text: String },
    /// About to start a potentially blocking operation (for the hang report).
    Begin(J),
    Done,
}

fn blocking_worker(job: Job, tx: mpsc::Sender<Ev>) {
    let send = |e: Ev| {
        let _ = tx.send(e);
    };
    let fail = |clause: &'static str, kind: &'static str, step: J, text: String| {
        let _ = tx.send(Ev::Fail { clause, kind, step, text });
    };
    let pair = match live_pair() {
        Ok(p) => p,
        Err(e) => {
            fail("machinery", "build", json!("pair"), format!("cannot build the live pair: {e}"));
            send(Ev::Done);
            return;
        }
    };
    let (iface, path, cache) = match &job {
        Job::Method { id, path } => (METHODS[*id as usize].iface, *path, false),
        Job::Props { iface, path, cache } => (*iface, *path, *cache),
        Job::Signals { iface, path, .. } => (*iface, *path, false),
    };
    send(Ev::Begin(json!("build-proxy")));
    let proxy = match AnyBlocking::build(&pair.client, path, iface, cache) {
        Ok(p) => p,
        Err(e) => {
            fail("call-completes", "build", json!("build"), format!("building the blocking proxy: {e}"));
            send(Ev::Done);
            return;
        }
    };
    pair.reg.take_log();
    match &job {
        Job::Method { id, path } => {
            let m = &METHODS[*id as usize];
            for args in tuples(m.ins) {
                let step = json!({"call": id, "args": vals_to_json(&args)});
                send(Ev::Begin(step.clone()));
                let res = catch(|| proxy.call(*id, &args));
                let log = pair.reg.take_log();
                let want_log = vec![Call { id: m.id, inst: inst_of_path(path), args: args.clone() }];
                let exp = expected(m, &args);
                match res {
                    Err(p) => fail("call-completes", "method", step, format!("panic: {p}")),
                    Ok(res) => {
                        let oc = match (&exp, &res) {
                            (Expect::Reply(_), Ok(_)) => "result",
                            (Expect::Error { .. }, Err(_)) => "handler-error",
                            _ => "mismatch",
                        };
                        send(Ev::Step { kind: "method", canon: step.clone(), outcome: oc.into() });
                        if log != want_log {
                            fail("args-delivered", "method", step.clone(), format!("proxy sent {args:?}; handler log {log:?}"));
                        }
                        let same = match (&exp, &res) {
                            (Expect::Reply(w), Ok(g)) => w == g,
                            (Expect::Error { name, msg }, Err((gn, gm))) => gn == name && gm == msg,
                            _ => false,
                        };
                        if !same {
                            fail("result-returned", "method", step, format!("proxy call with {args:?} returned {res:?}; the handler produced {exp:?}"));
                        }
                    }
                }
            }
        }
        Job::Props { iface, path, cache } => {
            let st = pair.reg.state(path, *iface).clone();
            for pd in PROPS.iter().filter(|p| p.iface == *iface) {
                let mut ops: Vec<(&'static str, Val)> = vec![("read", st.prop(pd.name))];
                for v in domain(pd.sig) {
                    ops.push(("server-change", v.clone()));
                    if pd.writable {
                        ops.push(("write", v));
                    }
                }
                for (op, v) in ops {
                    let step = json!({"prop": pd.idx, "op": op, "value": v.to_json()});
                    send(Ev::Begin(step.clone()));
                    let mut problems: Vec<(&'static str, String)> = vec![];
                    let mut wait_for_cache = false;
                    match op {
                        "server-change" => {
                            st.set_prop(pd.name, v.clone());
                            if *cache && pd.emits {
                                let r = zbus::block_on(emit_prop_changed(&pair.server, path, *iface, pd.idx)).map_err(|e| e.to_string());
                                if r != Ok(()) {
                                    problems.push(("property-read", format!("emitting PropertiesChanged: {r:?}")));
                                }
                                wait_for_cache = true;
                            }
                        }
                        "write" => {
                            let r = proxy.set(pd.idx, &v);
                            let log = pair.reg.take_log();
                            let want = vec![Call { id: 10000 + (*iface as u16) * 10 + pd.idx as u16, inst: inst_of_path(path), args: vec![v.clone()] }];
                            if r != Ok(()) || log != want || st.prop(pd.name) != v {
                                problems.push((
                                    "property-write",
                                    format!("set({v:?}) through the proxy gave {r:?}; setter log {log:?}; server now holds {:?}", st.prop(pd.name)),
                                ));
                            }
                            wait_for_cache = *cache && pd.emits;
                        }
                        _ => {}
                    }
                    let held = st.prop(pd.name);
                    let mut got = proxy.get(pd.idx);
                    if wait_for_cache {
                        // The change notification travels asynchronously to the caching proxy on a
                        // free-running connection: the property only promises that it is observed,
                        // so poll (bounded by the watchdog of the driver).
                        let t0 = std::time::Instant::now();
                        while got != Ok(held.clone()) && t0.elapsed() < Duration::from_secs(5) {
                            std::thread::sleep(Duration::from_millis(1));
                            got = proxy.get(pd.idx);
                        }
                    }
                    pair.reg.take_log();
                    if got != Ok(held.clone()) {
                        problems.push(("property-read", format!("after {op} the server holds {held:?} but the proxy reads {got:?}")));
                    }
                    send(Ev::Step {
                        kind: "property",
                        canon: json!({"iface": iface, "path": path, "cache": cache, "step": step}),
                        outcome: if problems.is_empty() { op.to_string() } else { "mismatch".into() },
                    });
                    for (cl, t) in problems {
                        fail(cl, "property", step.clone(), format!("{} ({}{}): {t}", pd.name, pd.sig, if pd.emits { "" } else { ", emits-changed=false" }));
                    }
                }
            }
        }
        Job::Signals { iface, path, route } => {
            for sd in SIGNALS.iter().filter(|s| s.iface == *iface) {
                send(Ev::Begin(json!({"signal": sd.idx, "subscribe": true})));
                let mut it = match proxy.subscribe(sd.idx) {
                    Ok(i) => i,
                    Err(e) => {
                        fail("signal-arrives", "signal", json!({"signal": sd.idx, "subscribe": true}), format!("subscribing to {}: {e}", sd.member));
                        continue;
                    }
                };
                for args in tuples(sd.ins) {
                    let step = json!({"signal": sd.idx, "args": vals_to_json(&args)});
                    send(Ev::Begin(step.clone()));
                    let em = zbus::block_on(emit_signal(&pair.server, path, *iface, sd.idx, &args, *route)).map_err(|e| e.to_string());
                    let item = if em.is_ok() { it.next() } else { None };
                    let ok = em == Ok(()) && item == Some(Ok(args.clone()));
                    send(Ev::Step {
                        kind: "signal",
                        canon: json!({"iface": iface, "path": path, "route": route, "step": step}),
                        outcome: if ok { "arrived".into() } else { "mismatch".into() },
                    });
                    if !ok {
                        fail("signal-arrives", "signal", step, format!("{} emitted with {args:?} (emit: {em:?}); the proxy iterator yielded {item:?}", sd.member));
                    }
                }
            }
        }
    }
    drop(proxy);
    send(Ev::Done);
}

/// Run one blocking job under the watchdog. Returns Err(last step begun) on a timeout.
fn run_blocking_once(report: &Report, job: &Job, count: bool) -> Result<Vec<Bad>, J> {
    let (tx, rx) = mpsc::channel();
    let j = job.clone();
    std::thread::Builder::new()
        .name("c33-blocking".into())
        .spawn(move || blocking_worker(j, tx))
        .unwrap_or_else(|e| vcommon::machinery_failure(&format!("C33: cannot spawn a thread: {e}")));
    let mut bad = vec![];
    let mut steps = 0usize;
    let mut last = json!("start");
    loop {
        match rx.recv_timeout(WATCHDOG) {
            Ok(Ev::Done) => return Ok(bad),
            Ok(Ev::Begin(s)) => last = s,
            Ok(Ev::Step { kind, canon, outcome }) => {
                steps += 1;
                if count {
                    if pick_sample(job, steps) {
                        report.sample(json!({"mode": "blocking", "job": job.to_json(), "step": canon, "outcome": outcome}));
                    }
                    report.eval(1);
                    report.nontrivial(hash64(&("blocking", canon.to_string())));
                    report.outcome(&format!("blocking: {kind}: {outcome}"));
                }
            }
            Ok(Ev::Fail { clause, kind, step, text }) => bad.push(Bad { clause, text, step, kind }),
            Err(mpsc::RecvTimeoutError::Timeout) => return Err(last),
            Err(mpsc::RecvTimeoutError::Disconnected) => {
                bad.push(Bad { clause: "call-completes", text: "the worker thread died".into(), step: last.clone(), kind: "thread" });
                return Ok(bad);
            }
        }
    }
}

fn run_blocking(report: &Report, job: &Job) {
    let mut sink = Sink { report, mode: "blocking", job: job.clone(), bad: vec![], steps: 0 };
    match run_blocking_once(report, job, true) {
        Ok(bad) => sink.bad = bad,
        Err(at) => {
            // a timeout: believe it only if it reproduces
            let mut again = 1;
            for _ in 0..2 {
                match run_blocking_once(report, job, false) {
                    Err(_) => again += 1,
                    Ok(_) => {}
                }
            }
            if again == 3 {
                report.outcome("blocking: hang (reproduced 3 times)");
                sink.fail(
                    "call-completes",
                    "hang",
                    at.clone(),
                    format!("operation {at} did not finish within {WATCHDOG:?} in three fresh pairs"),
                );
            } else {
                vcommon::machinery_failure(&format!(
                    "C33: blocking job {} timed out at {at} but did not reproduce ({again}/3)",
                    job.to_json()
                ));
            }
        }
    }
    if sink.bad.iter().any(|b| b.clause == "machinery") {
        vcommon::machinery_failure(&format!("C33: {}", sink.bad[0].text));
    }
    sink.flush();
}

pub fn main(args: &Args) -> i32 {
    if let Some(p) = &args.replay {
        return replay(p);
    }
    let report = Report::new("C33", args.tier, args.seed, "exploration");
    let js = jobs();
    par_for(js.len(), 1, |k| {
        run_async(&report, &js[k]);
    });
    let async_evals = report.evaluations();
    par_for(js.len(), 1, |k| run_blocking(&report, &js[k]));
    report.set("programs", json!(METHODS.len() + PROPS.len() + SIGNALS.len()));
    report.set("proxy_objects", json!(js.len() * 2));
    report.set("evaluations_async", json!(async_evals));
    report.set("evaluations_blocking", json!(report.evaluations() - async_evals));
    report.note("blocking proxies run on real threads over a socketpair: their inputs are enumerated exhaustively, their schedule is NOT controlled (one uncontrolled schedule per case)");
    report.assume("async proxies: default schedule, every task run to quiescence after each operation (no clock); a call that does not complete there is reported as such");
    report.assume("the handler's digest result is a deterministic, order-sensitive function of the decoded arguments, so swapped or altered arguments change the result");
    report.assume("property change notifications reach a caching blocking proxy asynchronously; the blocking driver polls up to 5 s before judging a cached read");
    report.finish(
        "every bank method x full product of the argument leaf domains; every property x domain x {read, server-side change, proxy write} x cache {off, lazily}; every signal x full product x two emission routes; each through the async proxy (World) and the blocking proxy (live pair); non-trivial = distinct (mode, step)",
        true,
    )
}

fn replay(path: &str) -> i32 {
    let art = vcommon::load_replay(path);
    let r = &art["replay"];
    let Some(job) = Job::from_json(&r["job"]) else {
        vcommon::machinery_failure("replay: bad job");
    };
    let rep = Report::new("C33-replay", vcommon::Tier::Quick, 0, "exploration");
    println!("re-running {} job {} (failing step was {})", r["mode"], r["job"], r["step"]);
    let mut sink_bad = vec![];
    if r["mode"] == "blocking" {
        match run_blocking_once(&rep, &job, true) {
            Ok(b) => sink_bad = b,
            Err(at) => {
                println!("timeout at {at}");
                return 1;
            }
        }
    } else {
        for (c, t) in run_async(&rep, &job) {
            println!("violated clause {c} at {t}");
        }
    }
    for b in &sink_bad {
        println!("violated clause {} at step {}: {}", b.clause, b.step, b.text);
    }
    let failed = !sink_bad.is_empty() || rep.has_violations();
    println!("steps evaluated: {}; violations: {}", rep.evaluations(), failed);
    failed as i32
}
