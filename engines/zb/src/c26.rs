//! C26 — method dispatch answers each call exactly once and correctly.
//!
//! Space (programs x inputs): every method of the generated interface bank (`bank.rs`, produced by
//! engines/gen/ifaces.py) x call kinds {correct with every argument tuple of the leaf domains;
//! wrong path (unknown, other registered path, intermediate node, child); wrong interface
//! (unknown, sibling on the same path, a standard interface); wrong member (unknown, Rust
//! spelling, member of another interface); each argument replaced by every other type; missing /
//! extra argument; arguments wrapped into one struct / a struct argument flattened; interface
//! header omitted} x NoReplyExpected {off, on}.
//!
//! Calls are marshalled by the harness' own reference encoder and pushed as raw bytes into the
//! server connection's socket; replies are read off the server's raw output with the reference
//! parser/decoder. zbus is only the subject (server side); the client connection of the pair idles.

use std::collections::{BTreeMap, BTreeSet};

use serde_json::json;
use vcommon::{catch, hash64, par_for, Args, Report, Violation};

use crate::{
    bank::{self, *},
    world::{Link, World},
};

pub const E_UNKNOWN_OBJECT: &str = "org.freedesktop.DBus.Error.UnknownObject";
pub const E_UNKNOWN_INTERFACE: &str = "org.freedesktop.DBus.Error.UnknownInterface";
pub const E_UNKNOWN_METHOD: &str = "org.freedesktop.DBus.Error.UnknownMethod";
pub const E_INVALID_ARGS: &str = "org.freedesktop.DBus.Error.InvalidArgs";
pub const E_FAILED: &str = "org.freedesktop.DBus.Error.Failed";

pub const STANDARD_IFACES: &[&str] = &[
    "org.freedesktop.DBus.Peer",
    "org.freedesktop.DBus.Introspectable",
    "org.freedesktop.DBus.Properties",
];

/// A world with a p2p pair whose server side carries the bank in its standard layout.
pub struct BankWorld {
    pub w: World,
    pub client: zbus::Connection,
    pub server: zbus::Connection,
    pub link: Link,
    pub reg: Registered,
    pub next_serial: u32,
}

impl BankWorld {
    pub fn new_empty() -> Self {
        let mut w = World::new();
        let (client, server, link) = w.p2p_pair();
        Self {
            w,
            client,
            server,
            link,
            reg: Registered {
                log: Log::default(),
                states: BTreeMap::new(),
            },
            next_serial: 100,
        }
    }

    pub fn new() -> Self {
        let mut b = Self::new_empty();
        let s = b.server.clone();
        let reg = b
            .w
            .complete("register", async move { register_layout(&s).await })
            .unwrap_or_else(|| vcommon::machinery_failure("bank registration did not complete"))
            .unwrap_or_else(|e| vcommon::machinery_failure(&format!("bank registration failed: {e}")));
        b.reg = reg;
        b
    }

    pub fn register(&mut self, iface: usize, path: &str) {
        let s = self.server.clone();
        let p = path.to_string();
        let mut reg = std::mem::replace(
            &mut self.reg,
            Registered {
                log: Log::default(),
                states: BTreeMap::new(),
            },
        );
        let out = self.w.complete("register-one", async move {
            let r = register_one(&s, &mut reg, iface, &p).await;
            (reg, r)
        });
        match out {
            Some((reg, Ok(true))) => self.reg = reg,
            Some((_, r)) => vcommon::machinery_failure(&format!("registering I{iface} at {path}: {r:?}")),
            None => vcommon::machinery_failure("registration did not complete"),
        }
    }

    pub fn serial(&mut self) -> u32 {
        self.next_serial += 1;
        self.next_serial
    }

    /// Push raw bytes to the server, run to quiescence, return what the server wrote meanwhile.
    pub fn exchange(&mut self, bytes: &[u8]) -> Vec<u8> {
        let off = self.link.b2a.written_len();
        self.link.a2b.push(bytes, vec![]);
        self.w.settle();
        self.link.b2a.with(|c| c.written[off..].to_vec())
    }

    /// Everything the server wrote since `off`.
    pub fn server_output_since(&self, off: usize) -> Vec<u8> {
        self.link.b2a.with(|c| c.written[off..].to_vec())
    }
}

/// The set of object paths that exist in a tree with these registered paths (all prefixes).
pub fn tree_paths(registered: &[&str]) -> BTreeSet<String> {
    let mut out = BTreeSet::new();
    out.insert("/".to_string());
    for p in registered {
        let mut cur = String::new();
        for part in p.split('/').filter(|x| !x.is_empty()) {
            cur.push('/');
            cur.push_str(part);
            out.insert(cur.clone());
        }
    }
    out
}

/// What the reference model says must happen.
#[derive(Clone, Debug, PartialEq)]
pub enum Model {
    /// Handler runs once with these arguments on this instance; reply per `Expect`.
    Handled { call: Call, expect: Expect },
    /// No handler; one of the standard errors.
    Std(&'static str),
    /// Interface header omitted: the specification leaves the choice to the server. If the
    /// handler runs it must be this one.
    Unspecified { call: Call, expect: Expect },
}

/// Reference dispatch model for the standard layout.
pub fn model(c: &CallSpec) -> Model {
    let layout: Vec<&str> = ALL_PATHS.to_vec();
    let tree = tree_paths(&layout);
    let path = c.path.as_deref().unwrap_or("");
    if !tree.contains(path) {
        return Model::Std(E_UNKNOWN_OBJECT);
    }
    let here: Vec<&IfaceDesc> = IFACES.iter().filter(|d| d.paths.contains(&path)).collect();
    let member = c.member.as_deref().unwrap_or("");
    let declared = |m: &MethodDesc| m.ins.concat();
    let handled = |m: &MethodDesc| {
        let call = Call {
            id: m.id,
            inst: inst_of_path(path),
            args: c.args.clone(),
        };
        (call, expected(m, &c.args))
    };
    match c.iface.as_deref() {
        None => {
            let cands: Vec<&MethodDesc> = METHODS
                .iter()
                .filter(|m| here.iter().any(|d| d.idx == m.iface) && m.member == member)
                .collect();
            match cands.as_slice() {
                [m] if declared(m) == c.sig => {
                    let (call, expect) = handled(m);
                    Model::Unspecified { call, expect }
                }
                _ => Model::Std(E_UNKNOWN_METHOD),
            }
        }
        Some(i) => {
            if STANDARD_IFACES.contains(&i) {
                return Model::Std(E_UNKNOWN_METHOD);
            }
            let Some(d) = here.iter().find(|d| d.name == i) else {
                return Model::Std(E_UNKNOWN_INTERFACE);
            };
            let Some(m) = METHODS.iter().find(|m| m.iface == d.idx && m.member == member) else {
                return Model::Std(E_UNKNOWN_METHOD);
            };
            if declared(m) != c.sig {
                return Model::Std(E_INVALID_ARGS);
            }
            let (call, expect) = handled(m);
            Model::Handled { call, expect }
        }
    }
}

/// What was observed for one call.
#[derive(Clone, Debug)]
pub struct Observed {
    pub log: Vec<Call>,
    /// Messages the server wrote that answer this call's serial.
    pub replies: Vec<WireMsg>,
    pub other_msgs: usize,
    pub parse_error: Option<String>,
    pub panic: Option<String>,
}

pub fn run_call(b: &mut BankWorld, c: &CallSpec) -> Observed {
    b.reg.take_log();
    let bytes = c.to_bytes();
    let out = catch(|| b.exchange(&bytes));
    let log = b.reg.take_log();
    let mut o = Observed {
        log,
        replies: vec![],
        other_msgs: 0,
        parse_error: None,
        panic: None,
    };
    match out {
        Err(p) => o.panic = Some(format!("{p} at {}", vcommon::last_panic_location())),
        Ok(bytes) => match parse_stream(&bytes) {
            Err(e) => o.parse_error = Some(e),
            Ok(msgs) => {
                for m in msgs {
                    if m.reply_serial == Some(c.serial) && (m.mtype == T_RETURN || m.mtype == T_ERROR) {
                        o.replies.push(m);
                    } else {
                        o.other_msgs += 1;
                    }
                }
            }
        },
    }
    o
}

fn short_err(name: &str) -> &str {
    name.rsplit('.').next().unwrap_or(name)
}

/// Class of an observation for outcome statistics and violation features.
pub fn observed_class(o: &Observed) -> String {
    if o.panic.is_some() {
        return "panic".into();
    }
    match o.replies.as_slice() {
        [] => "no-reply".into(),
        [m] if m.mtype == T_RETURN => "return".into(),
        [m] => m.error_name.clone().unwrap_or_else(|| "error-without-name".into()),
        more => format!("{}-replies", more.len()),
    }
}

pub fn model_class(m: &Model) -> String {
    match m {
        Model::Handled { expect: Expect::Reply(_), .. } => "return".into(),
        Model::Handled { expect: Expect::Error { name, .. }, .. } => format!("handler-error:{}", short_err(name)),
        Model::Std(n) => n.to_string(),
        Model::Unspecified { .. } => "unspecified(no-interface)".into(),
    }
}

/// Reply body check: signature is the declared output signature (a struct result may travel as
/// the struct or as its fields — same bytes) and the reference decoder yields the expected values.
fn check_return(m: &WireMsg, want: &[Val], out_sig: &str) -> Result<(), String> {
    let flat = want.iter().map(|v| v.sig()).collect::<String>();
    let ok_sig = m.sig == flat || m.sig == out_sig;
    if !ok_sig {
        return Err(format!("reply signature {:?}, declared {:?}", m.sig, out_sig));
    }
    let got = dec_body(&m.sig, &m.body).map_err(|e| format!("reply body does not decode under {:?}: {e}", m.sig))?;
    let got_flat = match got.as_slice() {
        [Val::St(f)] if m.sig != flat => f.clone(),
        _ => got.clone(),
    };
    if got_flat != want {
        return Err(format!("reply values {got:?}, expected {want:?}"));
    }
    Ok(())
}

fn check_error(m: &WireMsg, name: &str, msg: Option<&str>) -> Result<(), (String, String)> {
    let got = m.error_name.clone().unwrap_or_default();
    if got != name {
        return Err(("error-name".into(), format!("error name {got:?}, expected {name:?}")));
    }
    if let Some(want) = msg {
        match dec_body(&m.sig, &m.body) {
            Ok(v) if v.first() == Some(&Val::S(want.to_string())) => {}
            other => {
                return Err((
                    "handler-error".into(),
                    format!("error body {other:?} (signature {:?}), expected message {want:?}", m.sig),
                ))
            }
        }
    }
    Ok(())
}

/// Evaluate the oracle; returns (clause, text) for every failed clause.
pub fn judge(c: &CallSpec, model: &Model, o: &Observed) -> Vec<(String, String)> {
    let mut bad = vec![];
    if let Some(p) = &o.panic {
        bad.push(("no-panic".to_string(), format!("dispatch panicked: {p}")));
        return bad;
    }
    if let Some(e) = &o.parse_error {
        bad.push(("reply-wellformed".to_string(), format!("server output does not parse: {e}")));
        return bad;
    }
    let no_reply = c.flags & F_NO_REPLY != 0;
    // handler runs exactly when everything matches
    let (want_log, strict_handler): (Vec<Call>, bool) = match model {
        Model::Handled { call, .. } => (vec![call.clone()], true),
        Model::Std(_) => (vec![], true),
        Model::Unspecified { call, .. } => (vec![call.clone()], false),
    };
    let handler_ran = !o.log.is_empty();
    if strict_handler {
        if o.log != want_log {
            bad.push((
                "handler-iff-match".into(),
                format!("handler log {:?}, expected {:?}", o.log, want_log),
            ));
        }
    } else if handler_ran && o.log != want_log {
        bad.push((
            "handler-iff-match".into(),
            format!("handler log {:?}, expected nothing or {:?}", o.log, want_log),
        ));
    }
    // exactly one reply / at most one and none on the success path
    let success = match model {
        Model::Handled { expect: Expect::Reply(_), .. } => true,
        Model::Unspecified { expect: Expect::Reply(_), .. } => handler_ran,
        _ => false,
    };
    let n = o.replies.len();
    if !no_reply && n != 1 {
        bad.push(("reply-count".into(), format!("{n} replies to a call that expects one")));
    }
    if no_reply && (n > 1 || (success && n != 0)) {
        bad.push((
            "reply-count".into(),
            format!("{n} replies to a NoReplyExpected call (success path: {success})"),
        ));
    }
    // A handler that ran although nothing matched explains whatever reply follows; it is reported
    // once, under handler-iff-match.
    if matches!(model, Model::Std(_)) && handler_ran {
        return bad;
    }
    // content of the reply (every reply present is checked)
    for r in &o.replies {
        let want: &Expect;
        let std_err;
        let m_out_sig;
        match model {
            Model::Handled { call, expect } => {
                want = expect;
                m_out_sig = METHODS[call.id as usize].out_sig;
            }
            Model::Unspecified { call, expect } if handler_ran => {
                want = expect;
                m_out_sig = METHODS[call.id as usize].out_sig;
            }
            Model::Unspecified { .. } => {
                // not dispatched: any of the four standard errors is acceptable
                let name = r.error_name.clone().unwrap_or_default();
                let std = [E_UNKNOWN_OBJECT, E_UNKNOWN_INTERFACE, E_UNKNOWN_METHOD, E_INVALID_ARGS];
                if r.mtype != T_ERROR || !std.contains(&name.as_str()) {
                    bad.push((
                        "error-name".into(),
                        format!(
                            "a call without interface header that was not dispatched is answered with {:?}, not one of the standard errors",
                            observed_class(o)
                        ),
                    ));
                }
                continue;
            }
            Model::Std(name) => {
                std_err = Expect::Error { name, msg: String::new() };
                if r.mtype != T_ERROR {
                    bad.push(("reply-kind".into(), format!("method return where {name} is due")));
                } else if let Err((cl, t)) = check_error(r, name, None) {
                    bad.push((cl, t));
                }
                let _ = std_err;
                continue;
            }
        }
        match want {
            Expect::Reply(vals) => {
                if r.mtype != T_RETURN {
                    bad.push((
                        "reply-kind".into(),
                        format!("error {:?} where the handler's result is due", r.error_name),
                    ));
                } else if let Err(t) = check_return(r, vals, m_out_sig) {
                    bad.push(("reply-body".into(), t));
                }
            }
            Expect::Error { name, msg } => {
                if r.mtype != T_ERROR {
                    bad.push(("reply-kind".into(), "method return where the handler's error is due".into()));
                } else if let Err((_, t)) = check_error(r, name, Some(msg)) {
                    bad.push(("handler-error".into(), t));
                }
            }
        }
    }
    bad
}

/// How the sent body signature relates to the declared input signature.
pub fn sig_relation(declared: &str, sent: &str) -> &'static str {
    let strip = |s: &str| -> Option<String> {
        let parts = split_sig(s).ok()?;
        match parts.as_slice() {
            [one] if one.starts_with('(') => Some(one[1..one.len() - 1].to_string()),
            _ => None,
        }
    };
    if declared == sent {
        "equal"
    } else if declared.is_empty() {
        "declared-empty"
    } else if strip(sent).as_deref() == Some(declared) || strip(declared).as_deref() == Some(sent) {
        "outer-struct-only"
    } else {
        "different"
    }
}

/// One enumerated case.
#[derive(Clone, Debug)]
pub struct Case {
    pub method: u16,
    pub kind: &'static str,
    pub call: CallSpec,
}

fn arg_tuples(ins: &[&str], full: bool) -> Vec<Vec<Val>> {
    let doms: Vec<Vec<Val>> = ins.iter().map(|s| domain(s)).collect();
    let dims: Vec<usize> = doms.iter().map(|d| if full { d.len() } else { d.len().min(2) }).collect();
    let mut out = vec![];
    vcommon::enumerate::product(&dims, |ix| {
        out.push(ix.iter().enumerate().map(|(i, k)| doms[i][*k].clone()).collect());
    });
    out
}

fn wrong_values(declared: &str) -> Vec<Val> {
    let all = [
        Val::U(4),
        Val::S("w".into()),
        Val::St(vec![Val::U(4), Val::S("w".into())]),
        Val::As(vec!["w".into()]),
        Val::V(Box::new(Val::U(4))),
        Val::I(4),
        Val::O("/w".into()),
        Val::St(vec![Val::S("w".into()), Val::U(4)]),
        Val::St(vec![Val::U(4)]),
    ];
    all.into_iter().filter(|v| v.sig() != declared).collect()
}

/// All cases of one method (serials are assigned when run).
pub fn cases_of(m: &MethodDesc, thorough: bool) -> Vec<Case> {
    let d = &IFACES[m.iface];
    let mut out = vec![];
    let mut add = |kind: &'static str, call: CallSpec| {
        // the no-reply flag alone and together with the other defined flags (0x2 NoAutoStart,
        // 0x4 AllowInteractiveAuth), which must not change dispatch
        for flags in [0u8, F_NO_REPLY, F_NO_REPLY | 0x2, 0x2 | 0x4, F_NO_REPLY | 0x2 | 0x4] {
            let mut c = call.clone();
            c.flags = flags;
            out.push(Case { method: m.id, kind, call: c });
        }
    };
    let tuples = arg_tuples(m.ins, true);
    let few = arg_tuples(m.ins, false);
    let neg: &Vec<Vec<Val>> = if thorough { &tuples } else { &few };
    // correct calls on every registration of the interface
    for path in d.paths {
        for t in &tuples {
            add("ok", CallSpec::new(0, path, d.name, m.member, t.clone()));
        }
    }
    let path = d.paths[0];
    let base = |args: &Vec<Val>| CallSpec::new(0, path, d.name, m.member, args.clone());
    for t in neg {
        // wrong path
        let mut c = base(t);
        c.path = Some("/nope".into());
        add("path-unknown", c);
        let mut c = base(t);
        c.path = Some(format!("{path}/zz"));
        add("path-unknown-child", c);
        for other in ALL_PATHS.iter().filter(|p| !d.paths.contains(p)) {
            let mut c = base(t);
            c.path = Some(other.to_string());
            add("path-other-registered", c);
        }
        for inter in ["/", "/other", "/other/deep"] {
            let mut c = base(t);
            c.path = Some(inter.into());
            add("path-intermediate-node", c);
        }
        // wrong interface
        let mut c = base(t);
        c.iface = Some("x.bank.Nope".into());
        add("iface-unknown", c);
        for sib in IFACES.iter().filter(|s| s.idx != d.idx && s.paths.contains(&path)) {
            let mut c = base(t);
            c.iface = Some(sib.name.into());
            add("iface-sibling", c);
        }
        let far = IFACES.iter().find(|s| !s.paths.contains(&path)).unwrap();
        let mut c = base(t);
        c.iface = Some(far.name.into());
        add("iface-registered-elsewhere", c);
        let mut c = base(t);
        c.iface = Some("org.freedesktop.DBus.Peer".into());
        add("iface-standard", c);
        // wrong member
        let mut c = base(t);
        c.member = Some("Nope".into());
        add("member-unknown", c);
        let mut c = base(t);
        c.member = Some(m.rust.into());
        add("member-rust-spelling", c);
        let other = METHODS.iter().find(|o| o.iface != m.iface && o.ins == m.ins).unwrap_or(&METHODS[0]);
        if other.iface != m.iface {
            let mut c = base(t);
            c.member = Some(other.member.into());
            add("member-of-other-iface", c);
        }
        // interface header omitted
        let mut c = base(t);
        c.iface = None;
        add("no-interface", c);
        // arguments
        for i in 0..t.len() {
            for w in wrong_values(m.ins[i]) {
                let mut a = t.clone();
                a[i] = w;
                add("arg-wrong-type", base(&a));
            }
        }
        if !t.is_empty() {
            let mut a = t.clone();
            a.pop();
            add("arg-missing-last", base(&a));
            if t.len() == 2 {
                let mut a = t.clone();
                a.remove(0);
                add("arg-missing-first", base(&a));
                add("arg-all-missing", base(&vec![]));
                let mut a = t.clone();
                a.swap(0, 1);
                if a[0].sig() != t[0].sig() {
                    add("arg-swapped", base(&a));
                }
            }
            // all arguments wrapped into one struct
            add("arg-wrapped-in-struct", base(&vec![Val::St(t.clone())]));
            // a struct argument flattened into its fields
            if let Some(pos) = t.iter().position(|v| matches!(v, Val::St(_))) {
                let mut a = vec![];
                for (i, v) in t.iter().enumerate() {
                    match v {
                        Val::St(f) if i == pos => a.extend(f.iter().cloned()),
                        o => a.push(o.clone()),
                    }
                }
                add("arg-struct-flattened", base(&a));
            }
        }
        for extra in [Val::U(9), Val::S("x".into())] {
            let mut a = t.clone();
            a.push(extra);
            add("arg-extra", base(&a));
        }
        // signature header that does not describe the body bytes' types but has the right
        // declared signature is not generated: it would be a malformed message (C12's subject).
    }
    out
}

fn case_json(c: &Case) -> serde_json::Value {
    json!({"method": c.method, "kind": c.kind, "call": c.call.to_json()})
}

pub fn main(args: &Args) -> i32 {
    if let Some(p) = &args.replay {
        return replay(p);
    }
    let report = Report::new("C26", args.tier, args.seed, "exploration");
    let thorough = args.tier == vcommon::Tier::Thorough;
    let kinds: std::sync::Mutex<BTreeMap<&'static str, u64>> = Default::default();
    par_for(METHODS.len(), 1, |mi| {
        let m = &METHODS[mi];
        let cases = cases_of(m, thorough);
        let mut b = BankWorld::new();
        let mut local_kinds: BTreeMap<&'static str, u64> = BTreeMap::new();
        for (n, mut case) in cases.into_iter().enumerate() {
            case.call.serial = b.serial();
            let md = model(&case.call);
            let obs = run_call(&mut b, &case.call);
            report.eval(1);
            *local_kinds.entry(case.kind).or_default() += 1;
            let canon = (case.method, case.kind, case.call.to_bytes()[12..].to_vec(), case.call.flags);
            report.nontrivial(hash64(&canon));
            let oc = observed_class(&obs);
            report.outcome(&format!("{}: expect {} / got {}", case.kind, short_err(&model_class(&md)), short_err(&oc)));
            // a fixed, small selection (independent of thread timing)
            if mi % 26 == 0 && (n == 5 || n == 102) {
                report.sample(json!({
                    "case": case_json(&case),
                    "model": model_class(&md),
                    "handler_log": format!("{:?}", obs.log),
                    "replies": obs.replies.iter().map(|r| json!({
                        "type": r.mtype, "error": r.error_name, "sig": r.sig,
                        "body": dec_body(&r.sig, &r.body).map(|v| vals_to_json(&v)).unwrap_or(json!("undecodable")),
                    })).collect::<Vec<_>>(),
                }));
            }
            if b.w.hit_horizon {
                report.cap("settle guard hit");
            }
            for (clause, text) in judge(&case.call, &md, &obs) {
                let detail = format!(
                    "{} {}.{} at {} sig {:?} flags {} [{}; method {} {:?} async={} mut={} spawn={} out={:?}]: {}",
                    case.kind,
                    case.call.iface.as_deref().unwrap_or("<none>"),
                    case.call.member.as_deref().unwrap_or("<none>"),
                    case.call.path.as_deref().unwrap_or("<none>"),
                    case.call.sig,
                    case.call.flags,
                    model_class(&md),
                    m.rust,
                    m.fall,
                    m.is_async,
                    m.is_mut,
                    IFACES[m.iface].spawn,
                    m.out,
                    text
                );
                report.violation(
                    Violation::new(&clause, detail, case_json(&case))
                        .feat("kind", case.kind)
                        .feat("expected", model_class(&md))
                        .feat("got", &oc)
                        .feat("no_reply_flag", case.call.flags & F_NO_REPLY != 0)
                        .feat("sig_relation", sig_relation(&m.ins.concat(), &case.call.sig)),
                );
            }
        }
        let mut k = kinds.lock().unwrap();
        for (a, n) in local_kinds {
            *k.entry(a).or_default() += n;
        }
    });
    report.set("programs", json!(METHODS.len()));
    report.set("interfaces", json!(IFACES.len()));
    report.set("registered_paths", json!(ALL_PATHS));
    report.set("cases_per_kind", json!(*kinds.lock().unwrap()));
    report.assume("calls are marshalled and replies decoded by the harness' reference codec (bank.rs prelude), not by zbus");
    report.assume("default schedule: every task is run to quiescence after each call (schedules are C29/C30's subject)");
    report.assume("a struct result may travel as one struct or as its fields (identical bytes); both signatures are accepted");
    report.assume("NoReplyExpected: at most one reply, none on the success path (the specification lets a server answer errors)");
    report.assume("a call without INTERFACE header may be dispatched or refused, but a refusal must use a standard error");
    report.finish(
        "every bank method x every call kind x flags {none, NoReplyExpected, NoReplyExpected|NoAutoStart, NoAutoStart|AllowInteractiveAuth, all three}; correct calls with the full product of the leaf domains, negative kinds with the first two values of each argument domain (quick) or the full product (thorough); non-trivial = distinct (method, kind, message bytes after the serial)",
        true,
    )
}

fn replay(path: &str) -> i32 {
    let art = vcommon::load_replay(path);
    let r = &art["replay"];
    let Some(mut call) = CallSpec::from_json(&r["call"]) else {
        vcommon::machinery_failure("replay: bad call spec");
    };
    let mut b = BankWorld::new();
    call.serial = b.serial();
    let md = model(&call);
    let obs = run_call(&mut b, &call);
    println!("call: {}", call.to_json());
    println!("model: {md:?}");
    println!("handler log: {:?}", obs.log);
    for m in &obs.replies {
        println!(
            "reply: type={} error={:?} sig={:?} body={:?}",
            m.mtype,
            m.error_name,
            m.sig,
            dec_body(&m.sig, &m.body)
        );
    }
    println!("other messages: {} panic: {:?} parse error: {:?}", obs.other_msgs, obs.panic, obs.parse_error);
    let bad = judge(&call, &md, &obs);
    for (c, t) in &bad {
        println!("violated clause {c}: {t}");
    }
    if bad.is_empty() {
        println!("no clause violated");
        0
    } else {
        1
    }
}

#[allow(unused)]
fn _uses() {
    let _ = bank::ALL_PATHS;
}
