//! C27 — introspection data is well-formed and matches wire behaviour.
//!
//! Space (programs): registration sets of the generated interface bank — the standard layout,
//! every interface alone on three tree shapes, every ordered pair (parent, child) and every
//! unordered pair on one node (quick); plus triples on one node and three-level chains
//! (thorough) — and for each set every node of the resulting tree is introspected.
//!
//! Oracle per introspected node:
//!  * well-formed: judged by Python's expat (child process, one batch), not by quick-xml;
//!  * read back by `zbus_xml::Node::from_reader`, and both parsers see the same structure;
//!  * the top-level `<node>` lists exactly the registered + standard interfaces and exactly the
//!    immediate child nodes;
//!  * declared members and types == the bank's definitions, and (standard layout) == what the
//!    server accepts and sends on the wire when driven *from the XML*: every declared method is
//!    called with values of the declared `in` types (handler must run) and the reply signature
//!    must be the declared `out` types — skipped for methods returning one struct, as the property
//!    says; every signal is emitted and its wire signature compared; every property is read
//!    (variant content type) and, if writable, written with the declared type.
//!
//! When a document is ill-formed the cause is isolated by re-parsing it with the bank's doc texts
//! containing `--` neutralised; the remaining clauses are then evaluated on that variant so that a
//! doc-comment problem does not hide a type problem.

use std::collections::{BTreeMap, BTreeSet};

use serde_json::{json, Value as J};
use vcommon::{catch, hash64, par_for, Args, Report, Tier, Violation};

use crate::{
    bank::*,
    c26::{run_call, tree_paths, BankWorld, STANDARD_IFACES},
};

type Config = Vec<(String, usize)>;

fn cfg_name(c: &Config) -> String {
    c.iter().map(|(p, i)| format!("I{i}@{p}")).collect::<Vec<_>>().join(" ")
}

fn layout_config() -> Config {
    let mut c = vec![];
    for d in IFACES {
        for p in d.paths {
            c.push((p.to_string(), d.idx));
        }
    }
    c
}

fn configs(tier: Tier) -> Vec<(String, Config)> {
    let n = IFACES.len();
    let mut out = vec![("layout".to_string(), layout_config())];
    for j in 0..n {
        for p in ["/", "/a", "/a/b/c"] {
            out.push(("single".into(), vec![(p.to_string(), j)]));
        }
    }
    for a in 0..n {
        for b in 0..n {
            out.push(("parent-child".into(), vec![("/p".to_string(), a), ("/p/q".to_string(), b)]));
            if a < b {
                out.push(("same-node".into(), vec![("/p".to_string(), a), ("/p".to_string(), b)]));
            }
        }
    }
    if tier == Tier::Thorough {
        for a in 0..n {
            for b in a + 1..n {
                for c in b + 1..n {
                    out.push((
                        "same-node-3".into(),
                        vec![("/p".to_string(), a), ("/p".to_string(), b), ("/p".to_string(), c)],
                    ));
                }
            }
        }
        for a in 0..n {
            for b in 0..n {
                for c in 0..n {
                    out.push((
                        "chain-3".into(),
                        vec![("/p".to_string(), a), ("/p/q".to_string(), b), ("/p/q/r/s".to_string(), c)],
                    ));
                }
            }
        }
        for a in 0..n {
            for b in 0..n {
                out.push(("siblings".into(), vec![("/p/l".to_string(), a), ("/p/r".to_string(), b)]));
            }
        }
    }
    out
}

fn build_world(cfg: &Config) -> BankWorld {
    let mut b = BankWorld::new_empty();
    for (p, i) in cfg {
        b.register(*i, p);
    }
    b
}

/// Introspect `path` with a raw call; Ok(xml) or a description of what came back instead.
fn introspect(b: &mut BankWorld, path: &str) -> Result<String, String> {
    let serial = b.serial();
    let c = CallSpec::new(serial, path, "org.freedesktop.DBus.Introspectable", "Introspect", vec![]);
    let o = run_call(b, &c);
    if let Some(p) = o.panic {
        return Err(format!("panic: {p}"));
    }
    match o.replies.as_slice() {
        [m] if m.mtype == T_RETURN => match dec_body(&m.sig, &m.body) {
            Ok(v) => match v.as_slice() {
                [Val::S(s)] => Ok(s.clone()),
                o => Err(format!("Introspect returned {o:?}")),
            },
            Err(e) => Err(format!("Introspect reply does not decode: {e}")),
        },
        [m] => Err(format!("Introspect answered with error {:?}", m.error_name)),
        o => Err(format!("{} replies to Introspect", o.len())),
    }
}

// ---------------------------------------------------------------------------------------------
// Independent XML parser (python3 / expat), batched
// ---------------------------------------------------------------------------------------------

const PY: &str = r#"
import sys, json, xml.parsers.expat
def parse(text):
    stack = []; roots = []; stray = []; ncomments = [0]
    p = xml.parsers.expat.ParserCreate()
    p.buffer_text = True
    def start(name, attrs):
        el = {"tag": name, "attrs": attrs, "children": []}
        (stack[-1]["children"] if stack else roots).append(el)
        stack.append(el)
    def end(name):
        stack.pop()
    def chars(data):
        if data.strip():
            stray.append(data.strip()[:60])
    def comment(data):
        ncomments[0] += 1
    p.StartElementHandler = start
    p.EndElementHandler = end
    p.CharacterDataHandler = chars
    p.CommentHandler = comment
    try:
        p.Parse(text.encode("utf-8"), True)
    except xml.parsers.expat.ExpatError as e:
        return {"ok": False, "err": str(e)}
    return {"ok": True, "root": roots[0] if roots else None, "stray": stray, "comments": ncomments[0]}
docs = json.load(open(sys.argv[1], encoding="utf-8"))
json.dump([parse(d) for d in docs], sys.stdout)
"#;

/// Parse every document with expat; the batch is split over a few python processes.
fn python_parse(docs: &[String]) -> Vec<J> {
    let n = vcommon::n_workers().clamp(1, 2).min(docs.len().max(1));
    let per = docs.len().div_ceil(n).max(1);
    let chunks: Vec<&[String]> = docs.chunks(per).collect();
    let mut out: Vec<Vec<J>> = vec![];
    std::thread::scope(|s| {
        let hs: Vec<_> = chunks
            .iter()
            .enumerate()
            .map(|(k, c)| s.spawn(move || python_parse_chunk(c, k)))
            .collect();
        for h in hs {
            out.push(h.join().unwrap_or_else(|_| vcommon::machinery_failure("C27: python driver thread panicked")));
        }
    });
    out.into_iter().flatten().collect()
}

fn python_parse_chunk(docs: &[String], k: usize) -> Vec<J> {
    if docs.is_empty() {
        return vec![];
    }
    let dir = vcommon::verif_root().join(".run");
    let _ = std::fs::create_dir_all(&dir);
    let path = dir.join(format!("c27-xml-{}-{k}.json", std::process::id()));
    if std::fs::write(&path, serde_json::to_string(docs).unwrap()).is_err() {
        vcommon::machinery_failure("C27: cannot write the XML batch file");
    }
    // the system interpreter directly: the `python3` found first on PATH may be a slow shim
    let py = if std::path::Path::new("/usr/bin/python3").exists() { "/usr/bin/python3" } else { "python3" };
    let out = std::process::Command::new(py)
        .arg("-I")
        .arg("-S")
        .arg("-c")
        .arg(PY)
        .arg(&path)
        .output()
        .unwrap_or_else(|e| vcommon::machinery_failure(&format!("C27: cannot run python3: {e}")));
    let _ = std::fs::remove_file(&path);
    if !out.status.success() {
        vcommon::machinery_failure(&format!(
            "C27: python3 XML batch failed: {}",
            String::from_utf8_lossy(&out.stderr)
        ));
    }
    let v: J = serde_json::from_slice(&out.stdout)
        .unwrap_or_else(|e| vcommon::machinery_failure(&format!("C27: bad python output: {e}")));
    let v = v.as_array().cloned().unwrap_or_default();
    if v.len() != docs.len() {
        vcommon::machinery_failure("C27: python batch returned a different number of results");
    }
    v
}

// ---------------------------------------------------------------------------------------------
// Structure of an introspection document (from either parser)
// ---------------------------------------------------------------------------------------------

#[derive(Clone, Debug, PartialEq, Eq, PartialOrd, Ord)]
struct XArg {
    ty: String,
    dir: Option<String>,
}
#[derive(Clone, Debug, PartialEq, Eq, PartialOrd, Ord, Default)]
struct XIface {
    name: String,
    methods: BTreeMap<String, Vec<XArg>>,
    signals: BTreeMap<String, Vec<XArg>>,
    /// name -> (type, access)
    props: BTreeMap<String, (String, String)>,
    duplicates: Vec<String>,
}
#[derive(Clone, Debug, PartialEq, Eq, Default)]
struct XNode {
    name: Option<String>,
    ifaces: BTreeMap<String, XIface>,
    children: Vec<XNode>,
    duplicates: Vec<String>,
}

fn attr(el: &J, k: &str) -> Option<String> {
    el["attrs"][k].as_str().map(|s| s.to_string())
}

fn xnode_from_py(el: &J) -> Result<XNode, String> {
    if el["tag"] != "node" {
        return Err(format!("root element is {:?}, not node", el["tag"]));
    }
    let mut n = XNode {
        name: attr(el, "name"),
        ..Default::default()
    };
    for ch in el["children"].as_array().cloned().unwrap_or_default() {
        match ch["tag"].as_str().unwrap_or("") {
            "node" => n.children.push(xnode_from_py(&ch)?),
            "interface" => {
                let mut xi = XIface {
                    name: attr(&ch, "name").ok_or("interface without name")?,
                    ..Default::default()
                };
                for m in ch["children"].as_array().cloned().unwrap_or_default() {
                    let tag = m["tag"].as_str().unwrap_or("").to_string();
                    let name = attr(&m, "name").ok_or(format!("{tag} without name"))?;
                    let args = || -> Result<Vec<XArg>, String> {
                        let mut v = vec![];
                        for a in m["children"].as_array().cloned().unwrap_or_default() {
                            if a["tag"] == "arg" {
                                v.push(XArg {
                                    ty: attr(&a, "type").ok_or("arg without type")?,
                                    dir: attr(&a, "direction"),
                                });
                            }
                        }
                        Ok(v)
                    };
                    let dup = match tag.as_str() {
                        "method" => xi.methods.insert(name.clone(), args()?).is_some(),
                        "signal" => xi.signals.insert(name.clone(), args()?).is_some(),
                        "property" => xi
                            .props
                            .insert(
                                name.clone(),
                                (
                                    attr(&m, "type").ok_or("property without type")?,
                                    attr(&m, "access").ok_or("property without access")?,
                                ),
                            )
                            .is_some(),
                        "annotation" => false,
                        o => return Err(format!("unexpected element <{o}> in interface")),
                    };
                    if dup {
                        xi.duplicates.push(name);
                    }
                }
                let nm = xi.name.clone();
                if n.ifaces.insert(nm.clone(), xi).is_some() {
                    n.duplicates.push(nm);
                }
            }
            o => return Err(format!("unexpected element <{o}> in node")),
        }
    }
    Ok(n)
}

fn xnode_from_zbus(node: &zbus_xml::Node<'_>) -> XNode {
    let mut n = XNode {
        name: node.name().map(|s| s.to_string()),
        ..Default::default()
    };
    let conv_args = |args: &[zbus_xml::Arg]| -> Vec<XArg> {
        args.iter()
            .map(|a| XArg {
                ty: a.ty().to_string(),
                dir: a.direction().map(|d| match d {
                    zbus_xml::ArgDirection::In => "in".to_string(),
                    zbus_xml::ArgDirection::Out => "out".to_string(),
                }),
            })
            .collect()
    };
    for i in node.interfaces() {
        let mut xi = XIface {
            name: i.name().to_string(),
            ..Default::default()
        };
        for m in i.methods() {
            if xi.methods.insert(m.name().to_string(), conv_args(m.args())).is_some() {
                xi.duplicates.push(m.name().to_string());
            }
        }
        for s in i.signals() {
            if xi.signals.insert(s.name().to_string(), conv_args(s.args())).is_some() {
                xi.duplicates.push(s.name().to_string());
            }
        }
        for p in i.properties() {
            let acc = match (p.access().read(), p.access().write()) {
                (true, true) => "readwrite",
                (true, false) => "read",
                _ => "write",
            };
            if xi
                .props
                .insert(p.name().to_string(), (p.ty().to_string(), acc.to_string()))
                .is_some()
            {
                xi.duplicates.push(p.name().to_string());
            }
        }
        let nm = xi.name.clone();
        if n.ifaces.insert(nm.clone(), xi).is_some() {
            n.duplicates.push(nm);
        }
    }
    for c in node.nodes() {
        n.children.push(xnode_from_zbus(c));
    }
    n
}

/// zvariant prints a struct signature with parentheses; normalise nothing else.
fn sorted_children(n: &XNode) -> XNode {
    let mut n = n.clone();
    n.children = n.children.iter().map(sorted_children).collect();
    n.children.sort_by(|a, b| a.name.cmp(&b.name));
    n
}

// ---------------------------------------------------------------------------------------------

struct Doc {
    cfg_idx: usize,
    path: String,
    xml: Result<String, String>,
}

const DASH_DOC: &str = "A dash pair -- inside the text.";
const DASH_DOC_NEUTRAL: &str = "A dash pair - - inside the text.";
const ARROW_DOC: &str = "An arrow --> inside the text.";
const ARROW_DOC_NEUTRAL: &str = "An arrow - -> inside the text.";

fn neutralise(xml: &str) -> String {
    xml.replace(DASH_DOC, DASH_DOC_NEUTRAL).replace(ARROW_DOC, ARROW_DOC_NEUTRAL)
}

fn ifaces_at(cfg: &Config, path: &str) -> BTreeSet<usize> {
    cfg.iter().filter(|(p, _)| p == path).map(|(_, i)| *i).collect()
}

fn children_of(cfg: &Config, path: &str) -> BTreeSet<String> {
    let regs: Vec<&str> = cfg.iter().map(|(p, _)| p.as_str()).collect();
    let prefix = if path == "/" { "/".to_string() } else { format!("{path}/") };
    tree_paths(&regs)
        .into_iter()
        .filter(|p| p != "/" && p.starts_with(&prefix) && !p[prefix.len()..].contains('/') && p.len() > prefix.len())
        .map(|p| p[prefix.len()..].to_string())
        .collect()
}

fn expected_iface(j: usize) -> XIface {
    let mut xi = XIface {
        name: IFACES[j].name.to_string(),
        ..Default::default()
    };
    for m in METHODS.iter().filter(|m| m.iface == j) {
        let mut a: Vec<XArg> = m
            .ins
            .iter()
            .map(|t| XArg {
                ty: t.to_string(),
                dir: Some("in".into()),
            })
            .collect();
        let outs: Vec<String> = match m.out {
            Out::Rec => vec![m.out_sig.to_string()],
            _ => split_sig(m.out_sig).unwrap(),
        };
        a.extend(outs.into_iter().map(|t| XArg {
            ty: t,
            dir: Some("out".into()),
        }));
        xi.methods.insert(m.member.to_string(), a);
    }
    for s in SIGNALS.iter().filter(|s| s.iface == j) {
        xi.signals.insert(
            s.member.to_string(),
            s.ins
                .iter()
                .map(|t| XArg {
                    ty: t.to_string(),
                    dir: None,
                })
                .collect(),
        );
    }
    for p in PROPS.iter().filter(|p| p.iface == j) {
        xi.props.insert(
            p.name.to_string(),
            (
                p.sig.to_string(),
                if p.writable { "readwrite" } else { "read" }.to_string(),
            ),
        );
    }
    xi
}

fn doc_kinds_of(ifaces: &BTreeSet<usize>) -> BTreeSet<u8> {
    let mut k = BTreeSet::new();
    for j in ifaces {
        k.extend(METHODS.iter().filter(|m| m.iface == *j).map(|m| m.doc));
        k.extend(PROPS.iter().filter(|m| m.iface == *j).map(|m| m.doc));
        k.extend(SIGNALS.iter().filter(|m| m.iface == *j).map(|m| m.doc));
    }
    k
}

/// Interfaces whose text appears in the document for `path` (the node and its whole subtree).
fn ifaces_in_subtree(cfg: &Config, path: &str) -> BTreeSet<usize> {
    let prefix = if path == "/" { "/".to_string() } else { format!("{path}/") };
    cfg.iter()
        .filter(|(p, _)| p == path || p.starts_with(&prefix))
        .map(|(_, i)| *i)
        .collect()
}

pub fn main(args: &Args) -> i32 {
    if let Some(p) = &args.replay {
        return replay(p);
    }
    let report = Report::new("C27", args.tier, args.seed, "exploration");
    let cfgs = configs(args.tier);

    // Phase A: introspect every node of every configuration.
    let docs: std::sync::Mutex<Vec<Doc>> = Default::default();
    par_for(cfgs.len(), 1, |ci| {
        let (_, cfg) = &cfgs[ci];
        let mut b = build_world(cfg);
        let regs: Vec<&str> = cfg.iter().map(|(p, _)| p.as_str()).collect();
        let mut local = vec![];
        for path in tree_paths(&regs) {
            let xml = introspect(&mut b, &path);
            local.push(Doc { cfg_idx: ci, path, xml });
        }
        docs.lock().unwrap().extend(local);
    });
    let timing = std::env::var_os("VERIF_TIMING").is_some();
    if timing {
        eprintln!("C27 phase A done at {:.1}s", report.elapsed_s());
    }
    let mut docs = docs.into_inner().unwrap();
    docs.sort_by(|a, b| (a.cfg_idx, &a.path).cmp(&(b.cfg_idx, &b.path)));

    // Phase B: independent parse of every distinct text (original and neutralised).
    let mut texts: BTreeSet<String> = BTreeSet::new();
    for d in &docs {
        if let Ok(x) = &d.xml {
            texts.insert(x.clone());
            texts.insert(neutralise(x));
        }
    }
    let texts: Vec<String> = texts.into_iter().collect();
    let parsed = python_parse(&texts);
    if timing {
        eprintln!("C27 phase B done at {:.1}s", report.elapsed_s());
    }
    let py: BTreeMap<&str, &J> = texts.iter().map(|t| t.as_str()).zip(parsed.iter()).collect();

    // Phase C: static clauses.
    let mut usable_layout_docs: Vec<(String, XNode)> = vec![];
    for d in &docs {
        let (kind, cfg) = &cfgs[d.cfg_idx];
        report.eval(1);
        let registered = ifaces_at(cfg, &d.path);
        let inside = ifaces_in_subtree(cfg, &d.path);
        let kinds = doc_kinds_of(&inside);
        let replay = json!({"config": cfg.iter().map(|(p, i)| json!([p, i])).collect::<Vec<_>>(), "path": d.path});
        let ctx = format!("[{} | {}] introspecting {}", kind, cfg_name(cfg), d.path);
        let base_feats = |v: Violation| {
            v.feat("has_doc_double_dash", kinds.contains(&5))
                .feat("has_doc_arrow", kinds.contains(&6))
        };
        report.nontrivial(hash64(&(cfg, &d.path)));
        let xml = match &d.xml {
            Ok(x) => x,
            Err(e) => {
                report.outcome("introspect-failed");
                report.violation(base_feats(Violation::new(
                    "introspect-answers",
                    format!("{ctx}: {e}"),
                    replay.clone(),
                )));
                continue;
            }
        };
        let orig = py[xml.as_str()];
        let neutral_text = neutralise(xml);
        let neutral = py[neutral_text.as_str()];
        let orig_ok = orig["ok"] == true;
        let mut effective = orig;
        let mut effective_text: &str = xml;
        if !orig_ok {
            let fixed_by_neutral = neutral["ok"] == true;
            report.outcome(if fixed_by_neutral {
                "ill-formed(doc comment with --)"
            } else {
                "ill-formed(other)"
            });
            report.violation(
                base_feats(Violation::new(
                    "well-formed",
                    format!(
                        "{ctx}: expat rejects the document: {}; with the `--` of the doc comments neutralised it is {}",
                        orig["err"],
                        if fixed_by_neutral { "well-formed" } else { "still ill-formed" }
                    ),
                    replay.clone(),
                ))
                .feat("wellformed_when_doc_dashes_neutralised", fixed_by_neutral),
            );
            if !fixed_by_neutral {
                continue;
            }
            effective = neutral;
            effective_text = &neutral_text;
        }
        // stray text (e.g. a comment closed early by `-->`) is not an ill-formedness; it is
        // recorded and shows up below if it changes what the parsers see
        let stray = effective["stray"].as_array().map(|a| a.len()).unwrap_or(0);
        if stray > 0 {
            report.outcome("well-formed-with-stray-text");
        }
        // read back by zbus_xml (on the text that is well-formed)
        let zres = catch(|| zbus_xml::Node::from_reader(effective_text.as_bytes()));
        let pnode = match xnode_from_py(&effective["root"]) {
            Ok(n) => n,
            Err(e) => {
                report.outcome("unexpected-structure");
                report.violation(base_feats(Violation::new(
                    "declared-members",
                    format!("{ctx}: document structure: {e}"),
                    replay.clone(),
                )));
                continue;
            }
        };
        match zres {
            Ok(Ok(z)) => {
                let zn = xnode_from_zbus(&z);
                if sorted_children(&zn) != sorted_children(&pnode) {
                    report.outcome("parsers-disagree");
                    report.violation(
                        base_feats(Violation::new(
                            "read-back-by-zbus-xml",
                            format!("{ctx}: zbus_xml reads a different structure than expat"),
                            replay.clone(),
                        ))
                        .feat("how", "different-structure"),
                    );
                } else if orig_ok {
                    report.outcome(if stray > 0 { "ok-with-stray-text" } else { "well-formed+read-back" });
                }
            }
            other => {
                let e = match other {
                    Ok(Err(e)) => e.to_string(),
                    Err(p) => format!("panic: {p}"),
                    _ => unreachable!(),
                };
                report.outcome("zbus_xml-rejects");
                report.violation(
                    base_feats(Violation::new(
                        "read-back-by-zbus-xml",
                        format!("{ctx}: zbus_xml::Node::from_reader fails on a well-formed document: {e}"),
                        replay.clone(),
                    ))
                    .feat("how", "rejected")
                    .feat("stray_text", stray > 0),
                );
            }
        }
        // exactly the object's interfaces and child nodes
        let want_ifaces: BTreeSet<String> = registered
            .iter()
            .map(|j| IFACES[*j].name.to_string())
            .chain(STANDARD_IFACES.iter().map(|s| s.to_string()))
            .collect();
        let got_ifaces: BTreeSet<String> = pnode.ifaces.keys().cloned().collect();
        if want_ifaces != got_ifaces || !pnode.duplicates.is_empty() {
            report.violation(base_feats(Violation::new(
                "interfaces-exact",
                format!(
                    "{ctx}: lists interfaces {got_ifaces:?} (duplicates {:?}), registered {want_ifaces:?}",
                    pnode.duplicates
                ),
                replay.clone(),
            )));
        }
        let want_children = children_of(cfg, &d.path);
        let got_children: Vec<String> = pnode.children.iter().map(|c| c.name.clone().unwrap_or_default()).collect();
        let got_set: BTreeSet<String> = got_children.iter().cloned().collect();
        if got_set != want_children || got_set.len() != got_children.len() {
            report.violation(base_feats(Violation::new(
                "children-exact",
                format!("{ctx}: lists child nodes {got_children:?}, tree has {want_children:?}"),
                replay.clone(),
            )));
        }
        // declared members and types == bank definitions
        for j in &registered {
            let want = expected_iface(*j);
            let Some(got) = pnode.ifaces.get(IFACES[*j].name) else { continue };
            report.eval((want.methods.len() + want.signals.len() + want.props.len()) as u64);
            let names = |m: &BTreeMap<String, Vec<XArg>>| m.keys().cloned().collect::<BTreeSet<_>>();
            if names(&want.methods) != names(&got.methods)
                || names(&want.signals) != names(&got.signals)
                || want.props.keys().collect::<Vec<_>>() != got.props.keys().collect::<Vec<_>>()
                || !got.duplicates.is_empty()
            {
                report.violation(base_feats(Violation::new(
                    "declared-members",
                    format!(
                        "{ctx}: {} declares methods {:?} signals {:?} properties {:?} duplicates {:?}; defined: {:?} {:?} {:?}",
                        want.name,
                        names(&got.methods),
                        names(&got.signals),
                        got.props.keys().collect::<Vec<_>>(),
                        got.duplicates,
                        names(&want.methods),
                        names(&want.signals),
                        want.props.keys().collect::<Vec<_>>()
                    ),
                    replay.clone(),
                )));
            }
            for (name, wargs) in &want.methods {
                let Some(gargs) = got.methods.get(name) else { continue };
                let md = METHODS.iter().find(|m| m.iface == *j && m.member == name).unwrap();
                let ins = |a: &Vec<XArg>| a.iter().filter(|x| x.dir.as_deref() != Some("out")).cloned().collect::<Vec<_>>();
                let outs = |a: &Vec<XArg>| a.iter().filter(|x| x.dir.as_deref() == Some("out")).cloned().collect::<Vec<_>>();
                if ins(gargs) != ins(wargs) {
                    report.violation(
                        base_feats(Violation::new(
                            "declared-types",
                            format!("{ctx}: {}.{name} declares inputs {:?}, defined {:?}", want.name, ins(gargs), ins(wargs)),
                            replay.clone(),
                        ))
                        .feat("member", "method-in"),
                    );
                }
                if md.out == Out::Rec {
                    report.outcome("out-types: skipped (method returns one struct)");
                } else if outs(gargs) != outs(wargs) {
                    report.violation(
                        base_feats(Violation::new(
                            "declared-types",
                            format!("{ctx}: {}.{name} declares outputs {:?}, defined {:?}", want.name, outs(gargs), outs(wargs)),
                            replay.clone(),
                        ))
                        .feat("member", "method-out"),
                    );
                } else {
                    report.outcome("out-types: compared");
                }
            }
            for (name, wargs) in &want.signals {
                let Some(gargs) = got.signals.get(name) else { continue };
                let tys = |a: &Vec<XArg>| a.iter().map(|x| x.ty.clone()).collect::<Vec<_>>();
                if tys(gargs) != tys(wargs) || gargs.iter().any(|a| a.dir.as_deref() == Some("in")) {
                    report.violation(
                        base_feats(Violation::new(
                            "declared-types",
                            format!("{ctx}: signal {}.{name} declares {:?}, defined {:?}", want.name, gargs, tys(wargs)),
                            replay.clone(),
                        ))
                        .feat("member", "signal"),
                    );
                }
            }
            for (name, w) in &want.props {
                let Some(g) = got.props.get(name) else { continue };
                if g != w {
                    report.violation(
                        base_feats(Violation::new(
                            "declared-types",
                            format!("{ctx}: property {}.{name} declares {:?}, defined {:?}", want.name, g, w),
                            replay.clone(),
                        ))
                        .feat("member", "property"),
                    );
                }
            }
        }
        if d.cfg_idx == 0 && !registered.is_empty() {
            usable_layout_docs.push((d.path.clone(), pnode.clone()));
        }
        if report.n_samples() < 6 && (d.cfg_idx % 29 == 0) {
            report.sample(json!({
                "config": cfg_name(cfg), "path": d.path, "xml_bytes": xml.len(),
                "expat_ok": orig_ok, "comments": effective["comments"], "stray_text": effective["stray"],
                "interfaces": got_ifaces, "children": got_children,
            }));
        }
    }

    if timing {
        eprintln!("C27 phase C done at {:.1}s", report.elapsed_s());
    }
    // Phase D: drive the server from the XML of the standard layout.
    let probes: std::sync::Mutex<u64> = Default::default();
    par_for(usable_layout_docs.len(), 1, |k| {
        let (path, node) = &usable_layout_docs[k];
        let n = wire_probe(&report, path, node);
        *probes.lock().unwrap() += n;
    });

    report.set("programs", json!(cfgs.len()));
    report.set("bank_definitions", json!(METHODS.len() + PROPS.len() + SIGNALS.len()));
    report.set("documents", json!(docs.len()));
    // distinct up to the order of sibling elements (the server writes interfaces and child nodes
    // in HashMap order, which differs from run to run)
    let canon_docs: BTreeSet<Vec<&str>> = texts
        .iter()
        .map(|t| {
            let mut lines: Vec<&str> = t.lines().map(|l| l.trim()).collect();
            lines.sort();
            lines
        })
        .collect();
    report.set("distinct_documents_up_to_sibling_order", json!(canon_docs.len() / 2));
    report.set("wire_probes", json!(*probes.lock().unwrap()));
    report.assume("python3's expat is the judge of well-formedness; quick-xml/zbus_xml is only the subject of the read-back clause");
    report.assume("declared output types are compared only for methods that do not return a single struct (the property's own exemption)");
    report.assume("only the top-level <node> of a document is compared with the registry (zbus also inlines the subtree; nested nodes are compared between the two parsers only)");
    report.finish(
        "registration sets (see module doc) x every node of the tree; per document the static clauses, per declared member one type comparison, and for the standard layout one wire probe per declared method/signal/property; non-trivial = distinct (configuration, path)",
        true,
    )
}

/// Drive methods/signals/properties of the bank interfaces at `path` from the parsed XML.
fn wire_probe(report: &Report, path: &str, node: &XNode) -> u64 {
    let mut b = BankWorld::new();
    let mut n = 0;
    let val_of = |t: &str| -> Option<Val> {
        catch(|| domain(t)).ok().and_then(|d| d.get(1).cloned())
    };
    for (iname, xi) in &node.ifaces {
        let Some(d) = IFACES.iter().find(|d| d.name == iname) else { continue };
        let replay = json!({"config": layout_config().iter().map(|(p, i)| json!([p, i])).collect::<Vec<_>>(), "path": path, "probe": iname});
        for (mname, xargs) in &xi.methods {
            n += 1;
            report.eval(1);
            let ins: Vec<&XArg> = xargs.iter().filter(|a| a.dir.as_deref() != Some("out")).collect();
            let outs: String = xargs.iter().filter(|a| a.dir.as_deref() == Some("out")).map(|a| a.ty.clone()).collect();
            let vals: Option<Vec<Val>> = ins.iter().map(|a| val_of(&a.ty)).collect();
            let Some(vals) = vals else {
                report.violation(
                    Violation::new("wire-agrees", format!("{iname}.{mname} at {path}: declared input types {ins:?} are outside the bank's types"), replay.clone())
                        .feat("member", "method-in"),
                );
                continue;
            };
            let serial = b.serial();
            let c = CallSpec::new(serial, path, iname, mname, vals);
            let o = run_call(&mut b, &c);
            let md = METHODS.iter().find(|m| m.iface == d.idx && m.member == mname);
            if o.log.len() != 1 {
                report.outcome("probe: declared inputs refused");
                report.violation(
                    Violation::new(
                        "wire-agrees",
                        format!("{iname}.{mname} at {path}: a call with the declared input types {:?} ran {} handlers ({:?})", c.sig, o.log.len(), crate::c26::observed_class(&o)),
                        replay.clone(),
                    )
                    .feat("member", "method-in"),
                );
                continue;
            }
            match o.replies.as_slice() {
                [r] if r.mtype == T_RETURN => {
                    if md.map(|m| m.out == Out::Rec).unwrap_or(false) {
                        report.outcome("probe: method accepted, struct return not compared");
                    } else if r.sig != outs {
                        report.outcome("probe: reply signature differs");
                        report.violation(
                            Violation::new(
                                "wire-agrees",
                                format!("{iname}.{mname} at {path}: declares outputs {outs:?}, sends {:?}", r.sig),
                                replay.clone(),
                            )
                            .feat("member", "method-out"),
                        );
                    } else {
                        report.outcome("probe: method types agree");
                    }
                }
                [_] => report.outcome("probe: method accepted, handler returned its error"),
                o => {
                    report.outcome("probe: reply count");
                    report.violation(
                        Violation::new("wire-agrees", format!("{iname}.{mname} at {path}: {} replies", o.len()), replay.clone())
                            .feat("member", "method-out"),
                    );
                }
            }
        }
        for (sname, xargs) in &xi.signals {
            n += 1;
            report.eval(1);
            let Some(sd) = SIGNALS.iter().find(|s| s.iface == d.idx && s.member == sname) else { continue };
            let declared: String = xargs.iter().map(|a| a.ty.clone()).collect();
            let vals: Vec<Val> = sd.ins.iter().map(|t| domain(t)[1].clone()).collect();
            for route in [0u8, 1] {
                let off = b.link.b2a.written_len();
                let (srv, p, v) = (b.server.clone(), path.to_string(), vals.clone());
                let (ii, si) = (d.idx, sd.idx);
                let r = b.w.complete("emit", async move { emit_signal(&srv, &p, ii, si, &v, route).await.map_err(|e| e.to_string()) });
                let out = b.server_output_since(off);
                let sigs: Vec<WireMsg> = parse_stream(&out)
                    .unwrap_or_default()
                    .into_iter()
                    .filter(|m| m.mtype == T_SIGNAL && m.member.as_deref() == Some(sname.as_str()) && m.iface.as_deref() == Some(iname.as_str()))
                    .collect();
                match (r, sigs.as_slice()) {
                    (Some(Ok(())), [m]) if m.sig == declared && m.path.as_deref() == Some(path) => {
                        report.outcome("probe: signal types agree");
                    }
                    (r, s) => {
                        report.outcome("probe: signal differs");
                        report.violation(
                            Violation::new(
                                "wire-agrees",
                                format!(
                                    "signal {iname}.{sname} at {path} (route {route}): declares {declared:?}; emission gave {r:?} and {} signal messages with signatures {:?}",
                                    s.len(),
                                    s.iter().map(|m| m.sig.clone()).collect::<Vec<_>>()
                                ),
                                replay.clone(),
                            )
                            .feat("member", "signal"),
                        );
                    }
                }
            }
        }
        for (pname, (ty, access)) in &xi.props {
            n += 1;
            report.eval(1);
            let serial = b.serial();
            let c = CallSpec::new(
                serial,
                path,
                "org.freedesktop.DBus.Properties",
                "Get",
                vec![Val::S(iname.clone()), Val::S(pname.clone())],
            );
            let o = run_call(&mut b, &c);
            let got = match o.replies.as_slice() {
                [r] if r.mtype == T_RETURN => match dec_body(&r.sig, &r.body) {
                    Ok(v) => match v.as_slice() {
                        [Val::V(inner)] => Ok(inner.sig()),
                        o => Err(format!("Get returned {o:?}")),
                    },
                    Err(e) => Err(e),
                },
                o => Err(format!("{} replies / error {:?}", o.len(), o.first().and_then(|m| m.error_name.clone()))),
            };
            if got.as_deref() != Ok(ty.as_str()) {
                report.outcome("probe: property type differs");
                report.violation(
                    Violation::new(
                        "wire-agrees",
                        format!("property {iname}.{pname} at {path}: declares {ty:?}, Get sends {got:?}"),
                        replay.clone(),
                    )
                    .feat("member", "property"),
                );
                continue;
            }
            if access == "readwrite" || access == "write" {
                let Some(v) = val_of(ty) else { continue };
                let serial = b.serial();
                let c = CallSpec::new(
                    serial,
                    path,
                    "org.freedesktop.DBus.Properties",
                    "Set",
                    vec![Val::S(iname.clone()), Val::S(pname.clone()), Val::V(Box::new(v.clone()))],
                );
                let o = run_call(&mut b, &c);
                let stored = PROPS
                    .iter()
                    .find(|p| p.iface == d.idx && p.name == pname)
                    .map(|p| b.reg.state(path, d.idx).prop(p.name));
                let ok = matches!(o.replies.as_slice(), [r] if r.mtype == T_RETURN) && stored.as_ref() == Some(&v);
                if !ok {
                    report.outcome("probe: property write refused");
                    report.violation(
                        Violation::new(
                            "wire-agrees",
                            format!(
                                "property {iname}.{pname} at {path}: declared {access} of type {ty:?}, but Set with that type gave {:?} and the server holds {stored:?}",
                                crate::c26::observed_class(&o)
                            ),
                            replay.clone(),
                        )
                        .feat("member", "property"),
                    );
                    continue;
                }
            }
            report.outcome("probe: property types agree");
        }
    }
    n
}

fn replay(path: &str) -> i32 {
    let art = vcommon::load_replay(path);
    let r = &art["replay"];
    let cfg: Config = r["config"]
        .as_array()
        .map(|a| {
            a.iter()
                .map(|e| (e[0].as_str().unwrap_or("/").to_string(), e[1].as_u64().unwrap_or(0) as usize))
                .collect()
        })
        .unwrap_or_default();
    let p = r["path"].as_str().unwrap_or("/");
    let mut b = build_world(&cfg);
    println!("configuration: {}", cfg_name(&cfg));
    match introspect(&mut b, p) {
        Err(e) => {
            println!("introspection of {p} failed: {e}");
            1
        }
        Ok(xml) => {
            println!("--- XML of {p} ({} bytes) ---\n{xml}\n--- end ---", xml.len());
            let res = python_parse(&[xml.clone(), neutralise(&xml)]);
            println!("expat: ok={} err={} stray={}", res[0]["ok"], res[0]["err"], res[0]["stray"]);
            println!("expat on the text with `--` docs neutralised: ok={} err={}", res[1]["ok"], res[1]["err"]);
            match catch(|| zbus_xml::Node::from_reader(xml.as_bytes()).map(|n| n.interfaces().len())) {
                Ok(Ok(n)) => println!("zbus_xml: parsed, {n} top-level interfaces"),
                Ok(Err(e)) => println!("zbus_xml: error {e}"),
                Err(p) => println!("zbus_xml: panic {p}"),
            }
            if let Some(iname) = r["probe"].as_str() {
                if res[1]["ok"] == true {
                    if let Ok(node) = xnode_from_py(&res[1]["root"]) {
                        let rep = Report::new("C27-replay", Tier::Quick, 0, "exploration");
                        let mut only = node.clone();
                        only.ifaces.retain(|k, _| k == iname);
                        wire_probe(&rep, p, &only);
                        println!("wire probe of {iname}: violations={}", rep.has_violations());
                        return rep.has_violations() as i32;
                    }
                }
            }
            (res[0]["ok"] != true) as i32
        }
    }
}
