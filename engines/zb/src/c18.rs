//! C18 — concurrent sends never interleave on the wire.
//!
//! Several root tasks send messages on one real connection; the transport's `sendmsg` answers are
//! explorer choices (everything / 1 byte / half / Pending), task polls are scheduling choices.

use std::{os::fd::AsFd, sync::Mutex};

use serde_json::json;
use vcommon::{Args, Report};
use zbus::{connection::Builder, zvariant::Fd, Message};

use crate::{
    explore::ExecResult,
    sched::{finish_model_checking, run_scenario, v, SchedPlan, Totals},
    world::{inode_of, new_fd, split_messages, Link, SockCfg, Step, World, WriteMode, GUID},
};

#[derive(Clone, Copy, Debug)]
struct Params {
    senders: usize,
    per_sender: usize,
    fd_sender: Option<usize>,
    pending_budget: usize,
    /// use emit_signal / call-less API instead of prebuilt messages
    api: bool,
    /// every other message (i + j odd) has no body at all and is a method call with the
    /// no-reply flag instead of a signal: the smallest messages the connection sends
    bodyless_mix: bool,
    /// the writing task yields once after every accepted (also partial) write: other senders get
    /// to run between two `sendmsg` calls of one message
    yield_after_write: bool,
}

fn scenario(p: Params) -> ExecResult {
    let mut w = World::new();
    w.horizon = 400;
    let link = Link::new();
    let sock = link.end_a(SockCfg::default());
    let conn = w
        .complete("build", async move {
            Builder::authenticated_socket(sock, GUID)
                .unwrap()
                .p2p()
                .internal_executor(false)
                .build()
                .await
                .unwrap()
        })
        .expect("build");
    link.a2b.with(|c| {
        c.write_mode = WriteMode::Choice {
            pending_budget: p.pending_budget,
        };
        c.yield_after_write = p.yield_after_write;
    });
    // messages: sender i sends per_sender messages, distinguishable by member name and body size
    let fd = new_fd("c18");
    let fd_ino = inode_of(&fd);
    let mut expected: Vec<Vec<Vec<u8>>> = vec![];
    let mut handles = vec![];
    for i in 0..p.senders {
        let mut msgs = vec![];
        for j in 0..p.per_sender {
            let body = "x".repeat(3 + 5 * i + 11 * j);
            let m = if p.bodyless_mix && (i + j) % 2 == 1 {
                Message::method_call("/p", format!("S{i}x{j}").as_str())
                    .unwrap()
                    .with_flags(zbus::message::Flags::NoReplyExpected)
                    .unwrap()
                    .build(&())
                    .unwrap()
            } else if p.fd_sender == Some(i) && j == 0 {
                Message::signal("/p", "a.b", format!("S{i}x{j}").as_str())
                    .unwrap()
                    .build(&(Fd::from(fd.as_fd()), body))
                    .unwrap()
            } else {
                Message::signal("/p", "a.b", format!("S{i}x{j}").as_str())
                    .unwrap()
                    .build(&(body,))
                    .unwrap()
            };
            msgs.push(m);
        }
        expected.push(msgs.iter().map(|m| m.data().bytes().to_vec()).collect());
        let c = conn.clone();
        let api = p.api;
        handles.push(w.spawn(&format!("sender{i}"), async move {
            for (j, m) in msgs.iter().enumerate() {
                if api {
                    c.emit_signal(None::<&str>, "/p", "a.b", format!("A{i}x{j}").as_str(), &("y".repeat(2 + 3 * i + 7 * j),))
                        .await?;
                } else {
                    c.send(m).await?;
                }
            }
            Ok::<(), zbus::Error>(())
        }));
    }
    loop {
        match w.step(0) {
            Step::Ran(_) => {}
            _ => break,
        }
    }
    let mut res = ExecResult {
        capped: w.hit_horizon,
        steps: w.steps,
        ..Default::default()
    };
    let out = link.a2b.written();
    let (ranges, trailing) = split_messages(&out);
    let sizes = link.a2b.with(|c| c.write_sizes.clone());
    let wfds = link.a2b.with(|c| c.written_fds.clone());
    w.obs(format!("writes={:?}", sizes.len()));
    let all_done = handles.iter().all(|h| h.is_done());
    for (i, h) in handles.iter().enumerate() {
        match h.take() {
            Some(Ok(())) => {}
            Some(Err(e)) => res.violations.push(v("send-succeeds", format!("sender{i} failed: {e}")).feat("kind", "send-error")),
            None => {
                if !w.hit_horizon {
                    res.violations.push(
                        v("send-completes", format!("sender{i} never completed although the transport accepts writes; trace={:?}", w.trace))
                            .feat("kind", "send-hang"),
                    );
                }
            }
        }
    }
    if all_done {
        if trailing != 0 {
            res.violations.push(v("whole-and-unmixed", format!("{trailing} trailing bytes do not form a message")).feat("kind", "trailing"));
        }
        if p.api {
            // messages are built inside the API: identify them by member name
            let mut per_sender: Vec<Vec<usize>> = vec![vec![]; p.senders];
            for r in &ranges {
                match crate::world::parse_message(&out[r.clone()]) {
                    Ok(m) => {
                        let mem = m.header().member().map(|m| m.to_string()).unwrap_or_default();
                        let mut it = mem.trim_start_matches('A').split('x');
                        let i: usize = it.next().and_then(|s| s.parse().ok()).unwrap_or(99);
                        let j: usize = it.next().and_then(|s| s.parse().ok()).unwrap_or(99);
                        let body: Result<(String,), _> = m.body().deserialize();
                        let want = "y".repeat(2 + 3 * i + 7 * j);
                        if i >= p.senders || body.as_ref().map(|b| b.0 != want).unwrap_or(true) {
                            res.violations.push(v("whole-and-unmixed", format!("peer received a message that was never sent: member {mem}")).feat("kind", "garbled"));
                        } else {
                            per_sender[i].push(j);
                        }
                    }
                    Err(e) => res.violations.push(v("whole-and-unmixed", format!("peer cannot parse a framed message: {e}")).feat("kind", "garbled")),
                }
            }
            for (i, js) in per_sender.iter().enumerate() {
                if *js != (0..p.per_sender).collect::<Vec<_>>() {
                    res.violations.push(v("per-sender-order", format!("sender{i}'s messages arrived as {js:?}")).feat("kind", "order"));
                }
            }
        } else {
            let mut next = vec![0usize; p.senders];
            let mut pos_of_fd_msg = None;
            for r in &ranges {
                let bytes = &out[r.clone()];
                let mut matched = false;
                for i in 0..p.senders {
                    if next[i] < expected[i].len() && expected[i][next[i]] == bytes {
                        if p.fd_sender == Some(i) && next[i] == 0 {
                            pos_of_fd_msg = Some(r.start);
                        }
                        next[i] += 1;
                        matched = true;
                        break;
                    }
                }
                if !matched {
                    // either garbled or out of per-sender order
                    let known = expected.iter().flatten().any(|e| e == bytes);
                    res.violations.push(
                        v(
                            if known { "per-sender-order" } else { "whole-and-unmixed" },
                            format!("peer received a {} message at offset {}", if known { "reordered" } else { "garbled" }, r.start),
                        )
                        .feat("kind", if known { "order" } else { "garbled" }),
                    );
                }
            }
            if next.iter().enumerate().any(|(i, n)| *n != expected[i].len()) {
                res.violations.push(v("whole-and-unmixed", format!("not all messages arrived: per-sender counts {next:?}")).feat("kind", "missing"));
            }
            if let Some(i) = p.fd_sender {
                let _ = i;
                match pos_of_fd_msg {
                    Some(start) => {
                        let ok = wfds.len() == 1 && wfds[0] == (start, fd_ino);
                        if !ok {
                            res.violations.push(
                                v("fds-with-first-bytes", format!("the fd message starts at offset {start}, fds were transmitted as {wfds:?} (offset, inode); expected one fd {fd_ino} with the write at {start}"))
                                    .feat("kind", "fd-position"),
                            );
                        }
                    }
                    None => {}
                }
            } else if !wfds.is_empty() {
                res.violations.push(v("fds-with-first-bytes", format!("fds transmitted although no message carries any: {wfds:?}")).feat("kind", "fd-spurious"));
            }
        }
    }
    let order: Vec<String> = ranges
        .iter()
        .map(|r| {
            crate::world::parse_message(&out[r.clone()])
                .ok()
                .and_then(|m| m.header().member().map(|m| m.to_string()))
                .unwrap_or_else(|| "?".into())
        })
        .collect();
    w.obs(format!("wire order={order:?} trailing={trailing} write_sizes={sizes:?}"));
    res.log = std::mem::take(&mut w.log);
    drop(conn);
    res
}

fn params_from(j: &serde_json::Value) -> Params {
    Params {
        senders: j["senders"].as_u64().unwrap_or(2) as usize,
        per_sender: j["per_sender"].as_u64().unwrap_or(1) as usize,
        fd_sender: j["fd_sender"].as_u64().map(|x| x as usize),
        pending_budget: j["pending_budget"].as_u64().unwrap_or(1) as usize,
        api: j["api"].as_bool().unwrap_or(false),
        bodyless_mix: j["bodyless_mix"].as_bool().unwrap_or(false),
        yield_after_write: j["yield_after_write"].as_bool().unwrap_or(false),
    }
}

pub fn main(args: &Args) -> i32 {
    if let Some(p) = &args.replay {
        return crate::sched::replay(p, |_, params| {
            let p = params_from(params);
            Some(Box::new(move || scenario(p)))
        });
    }
    let report = Report::new("C18", args.tier, args.seed, "model_checking");
    let totals = Mutex::new(Totals::default());
    let quick = args.tier == vcommon::Tier::Quick;
    let scenarios: Vec<(&str, Params, Vec<Option<usize>>)> = vec![
        (
            "2x1",
            Params { senders: 2, per_sender: 1, fd_sender: None, pending_budget: 1, api: false, bodyless_mix: false, yield_after_write: false },
            if quick { vec![Some(8)] } else { vec![Some(10), Some(11)] },
        ),
        (
            "2x2",
            Params { senders: 2, per_sender: 2, fd_sender: Some(1), pending_budget: 2, api: false, bodyless_mix: false, yield_after_write: false },
            if quick { vec![Some(6)] } else { vec![Some(8), Some(9)] },
        ),
        (
            "3x1-fd",
            Params { senders: 3, per_sender: 1, fd_sender: Some(0), pending_budget: 2, api: false, bodyless_mix: false, yield_after_write: false },
            if quick { vec![Some(6)] } else { vec![Some(8), Some(9)] },
        ),
        (
            "2x2-bodyless-mix",
            Params { senders: 2, per_sender: 2, fd_sender: Some(0), pending_budget: 2, api: false, bodyless_mix: true, yield_after_write: false },
            if quick { vec![Some(6)] } else { vec![Some(8), Some(9)] },
        ),
        (
            "2x1-yield-after-each-write",
            Params { senders: 2, per_sender: 1, fd_sender: Some(0), pending_budget: 0, api: false, bodyless_mix: false, yield_after_write: true },
            if quick { vec![Some(3)] } else { vec![Some(5), Some(6)] },
        ),
        (
            "2x2-api",
            Params { senders: 2, per_sender: 2, fd_sender: None, pending_budget: 2, api: true, bodyless_mix: false, yield_after_write: false },
            if quick { vec![Some(6)] } else { vec![Some(8)] },
        ),
    ];
    for (name, p, bounds) in scenarios {
        let plan = SchedPlan {
            bounds,
            max_execs: args.tier.pick(3_000_000, 80_000_000),
            time_budget_s: args.tier.pick(120.0, 900.0),
        };
        run_scenario(
            &report,
            &totals,
            name,
            json!({"senders": p.senders, "per_sender": p.per_sender, "fd_sender": p.fd_sender, "pending_budget": p.pending_budget, "api": p.api, "bodyless_mix": p.bodyless_mix, "yield_after_write": p.yield_after_write}),
            &plan,
            move || scenario(p),
        );
    }
    report.assume("sendmsg answer alphabet: everything / 1 byte / half / Pending (bounded number of Pendings per execution); the transport never fails in this check (faults are C38)");
    report.assume("interleaving granularity is one task poll");
    finish_model_checking(
        &report,
        &totals,
        "all orders of sender-task polls × all sendmsg answers (full, 1 byte, half, Pending) up to the completed deviation bound",
    )
}
