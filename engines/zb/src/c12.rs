//! C12 — parsing hostile message bytes never crashes.
//!
//! Space (everything enumerated completely, nothing sampled):
//!   for every message of a reference-built corpus (4 types × minimal/maximal field sets × both
//!   byte orders × bodies; fd-carrying messages with and without the fds attached):
//!     * every single-byte substitution over the byte alphabet
//!       {00,01,02,04,08,'a','/',80,ff} ∪ {type and name characters} at every offset,
//!     * every truncation length 0..len,
//!     * every value of alphabet⁴ in the body-length word and in the fields-length word,
//!     * the endianness byte over all 256 values, under both decoding contexts,
//!     * thorough: every pair of substitutions inside the 16-byte fixed part,
//!   plus every byte string of length ≤ 3 over all 256 byte values.
//!
//! Oracle: `Message::from_bytes` returns Err, or returns Ok(m) and `m.header()` with every field
//! accessor, `m.body()`, `body().signature()`, `body().deserialize::<Structure>()`, `Display` and
//! `Debug` all return. A panic is caught and reported with the operation that panicked; the sweep
//! runs in child processes (this same binary with `--child`), each publishing a cursor through a
//! shared mapping, so a child that dies (abort, stack overflow, OOM kill) identifies its case.

use std::{
    collections::{BTreeMap, HashSet},
    io::Write,
    os::fd::OwnedFd,
    path::{Path, PathBuf},
};

use serde_json::{json, Value as J};
use vcommon::{catch, hash64, hex, machinery_failure, unhex, Args, Report, Tier, Violation};
use zbus::{
    zvariant::{
        serialized::{Context, Data},
        Endian, Structure,
    },
    Message,
};

use crate::refmsg::{self as rm, o, s, var, MsgSpec, Ty, RV};

pub const ALPHA: [u8; 9] = [0x00, 0x01, 0x02, 0x04, 0x08, b'a', b'/', 0x80, 0xff];
/// Substitution alphabet: the byte alphabet plus the characters that mean something inside header
/// fields (type codes, name punctuation, the two endianness flags, field codes 3 and 9).
pub const SUB: [u8; 24] = [
    0x00, 0x01, 0x02, 0x04, 0x08, b'a', b'/', 0x80, 0xff, b's', b'o', b'g', b'u', b'v', b'y', b'(', b'{', b'h',
    b'.', b':', b'B', b'l', 0x03, 0x09,
];

// ---------------------------------------------------------------------------------------------
// corpus
// ---------------------------------------------------------------------------------------------

#[derive(Clone)]
pub struct Base {
    pub name: String,
    pub bytes: Vec<u8>,
    /// number of fds attached to the `Data` handed to `from_bytes`
    pub n_fds: usize,
}

fn corpus_bodies() -> Vec<(&'static str, Vec<RV>)> {
    vec![
        ("unit", vec![]),
        ("string", vec![s("hello")]),
        (
            "dict-sv",
            vec![RV::Dict(Ty::S, Ty::V, vec![(s("k"), var(RV::U(1))), (s("key2"), var(s("v")))])],
        ),
        ("one-fd", vec![RV::H(0)]),
        ("byte-then-u64", vec![RV::Y(1), RV::T(2)]),
        (
            "nested",
            vec![
                RV::Y(9),
                RV::Struct(vec![
                    RV::Array(Ty::Struct(vec![Ty::Y, Ty::V]), vec![RV::Struct(vec![RV::Y(1), var(o("/p"))])]),
                    s("é/€"),
                ]),
            ],
        ),
        ("two-fds", vec![RV::H(0), RV::H(1)]),
        ("error-text", vec![s("kaboom")]),
    ]
}

pub fn spec(mtype: u8, maximal: bool, be: bool, body: &[RV], serial: u32) -> MsgSpec {
    let mut m = MsgSpec::new(mtype, serial);
    m.be = be;
    m.body = body.to_vec();
    match mtype {
        rm::METHOD_CALL => {
            m = m.field(rm::PATH, o("/a/b")).field(rm::MEMBER, s("Ping"));
            if maximal {
                m.flags = 0x4;
                m = m
                    .field(rm::INTERFACE, s("x.y.I"))
                    .field(rm::DESTINATION, s("org.a.B"))
                    .field(rm::SENDER, s(":1.7"));
            }
        }
        rm::SIGNAL => {
            m = m
                .field(rm::PATH, o("/"))
                .field(rm::INTERFACE, s("x.y.I"))
                .field(rm::MEMBER, s("Sig"));
            if maximal {
                m = m.field(rm::DESTINATION, s(":1.5")).field(rm::SENDER, s(":1.7"));
            }
        }
        rm::METHOD_RETURN => {
            m = m.field(rm::REPLY_SERIAL, RV::U(5));
            if maximal {
                m.flags = 0x1;
                m = m.field(rm::DESTINATION, s(":1.5")).field(rm::SENDER, s(":1.7"));
            }
        }
        _ => {
            m = m.field(rm::ERROR_NAME, s("x.y.E")).field(rm::REPLY_SERIAL, RV::U(5));
            if maximal {
                m = m
                    .field(rm::DESTINATION, s(":1.5"))
                    .field(rm::SENDER, s(":1.7"))
                    .field(rm::PATH, o("/e"));
            }
        }
    }
    m
}

pub fn corpus(tier: Tier) -> Vec<Base> {
    let bodies = corpus_bodies();
    let mut out = vec![];
    let mut serial = 0x0102_0304u32;
    for mtype in [rm::METHOD_CALL, rm::METHOD_RETURN, rm::ERROR, rm::SIGNAL] {
        for maximal in [false, true] {
            for be in [false, true] {
                for (bi, (bname, body)) in bodies.iter().enumerate() {
                    // the first four bodies for every header; the rest for little-endian maximal
                    // headers (quick) or everywhere (thorough)
                    let everywhere = bi < 4 || tier == Tier::Thorough;
                    if !everywhere && !(maximal && !be) {
                        continue;
                    }
                    if *bname == "error-text" && mtype != rm::ERROR {
                        continue;
                    }
                    serial += 1;
                    let (bytes, fds) = spec(mtype, maximal, be, body, serial).encode();
                    let name = format!(
                        "{}-{}-{}-{}",
                        match mtype {
                            1 => "call",
                            2 => "return",
                            3 => "error",
                            _ => "signal",
                        },
                        if maximal { "max" } else { "min" },
                        if be { "BE" } else { "LE" },
                        bname
                    );
                    if !fds.is_empty() {
                        out.push(Base { name: format!("{name}+fds"), bytes: bytes.clone(), n_fds: fds.len() });
                    }
                    out.push(Base { name, bytes, n_fds: 0 });
                }
            }
        }
    }
    // Structure-aware stress: a header field with an unknown code is accepted and ignored, so it
    // may carry ANY value; and the body may nest as deep as the codec allows. Values nested right
    // around the container-depth limits (32 structures / arrays, 64 containers in total; the field
    // array, the field struct and the field's variant already count) reach code that plain byte
    // mutations of ordinary messages never do.
    let nest_struct = |d: usize| {
        let mut v = RV::Y(7);
        for _ in 0..d {
            v = RV::Struct(vec![v]);
        }
        v
    };
    let nest_var = |d: usize| {
        let mut v = RV::Y(7);
        for _ in 0..d {
            v = var(v);
        }
        v
    };
    let nest_arr = |d: usize| {
        let mut v = RV::Y(7);
        for _ in 0..d {
            let t = v.ty();
            v = RV::Array(t, vec![v]);
        }
        v
    };
    let struct_depths: Vec<usize> = if tier == Tier::Thorough { (26..=35).collect() } else { (29..=33).collect() };
    let var_depths: Vec<usize> = if tier == Tier::Thorough { (56..=68).collect() } else { (59..=65).collect() };
    for be in [false, true] {
        for (kind, depths, mk) in [
            ("structs", &struct_depths, &nest_struct as &dyn Fn(usize) -> RV),
            ("arrays", &struct_depths, &nest_arr as &dyn Fn(usize) -> RV),
            ("variants", &var_depths, &nest_var as &dyn Fn(usize) -> RV),
        ] {
            for d in depths.iter() {
                serial += 1;
                // in an unknown header field
                let m = spec(rm::SIGNAL, false, be, &[], serial).field(200, mk(*d));
                let (bytes, _) = m.encode();
                out.push(Base { name: format!("signal-unknown-field-{kind}-nested-{d}-{}", if be { "BE" } else { "LE" }), bytes, n_fds: 0 });
                // and as the body
                serial += 1;
                let (bytes, _) = spec(rm::SIGNAL, false, be, &[mk(*d)], serial).encode();
                out.push(Base { name: format!("signal-body-{kind}-nested-{d}-{}", if be { "BE" } else { "LE" }), bytes, n_fds: 0 });
            }
        }
    }
    out
}

// ---------------------------------------------------------------------------------------------
// case space
// ---------------------------------------------------------------------------------------------

const A4: usize = 9 * 9 * 9 * 9;

fn short_count() -> usize {
    vcommon::enumerate::count_strings(256, 3)
}

pub struct Space {
    pub corpus: Vec<Base>,
    pub tier: Tier,
    /// prefix sums: case index of the first case of corpus message i; last = start of short strings
    starts: Vec<usize>,
    pub total: usize,
}

fn pairs16() -> usize {
    // unordered pairs of offsets in the fixed part × alphabet²
    (16 * 15 / 2) * 81
}

impl Space {
    pub fn new(tier: Tier) -> Self {
        let corpus = corpus(tier);
        let mut starts = vec![];
        let mut at = 0usize;
        for b in &corpus {
            starts.push(at);
            at += Self::per_message(b, tier);
        }
        starts.push(at);
        let total = at + short_count();
        Self { corpus, tier, starts, total }
    }
    fn per_message(b: &Base, tier: Tier) -> usize {
        let len = b.bytes.len();
        1 + len * SUB.len() + len + 2 * A4 + 512 + if tier == Tier::Thorough { pairs16() } else { 0 }
    }
    /// Materialize case `idx`: (bytes, big-endian context?, fds to attach, description, base index)
    pub fn case(&self, idx: usize) -> (Vec<u8>, bool, usize, String, Option<usize>) {
        let short_start = *self.starts.last().unwrap();
        if idx >= short_start {
            let mut sym = vec![];
            vcommon::enumerate::nth_string(256, idx - short_start, &mut sym);
            let bytes: Vec<u8> = sym.iter().map(|x| *x as u8).collect();
            let be = bytes.first() == Some(&b'B');
            return (bytes, be, 0, "short-string".into(), None);
        }
        let mi = match self.starts.binary_search(&idx) {
            Ok(i) => i,
            Err(i) => i - 1,
        };
        let b = &self.corpus[mi];
        let mut k = idx - self.starts[mi];
        let len = b.bytes.len();
        let base_be = b.bytes[0] == b'B';
        let mut bytes = b.bytes.clone();
        if k == 0 {
            return (bytes, base_be, b.n_fds, format!("{}: unmodified", b.name), Some(mi));
        }
        k -= 1;
        if k < len * SUB.len() {
            let (off, a) = (k / SUB.len(), SUB[k % SUB.len()]);
            bytes[off] = a;
            let be = bytes[0] == b'B';
            return (bytes, be, b.n_fds, format!("{}: byte {off} := {a:#04x}", b.name), Some(mi));
        }
        k -= len * SUB.len();
        if k < len {
            bytes.truncate(k);
            return (bytes, base_be, b.n_fds, format!("{}: truncated to {k} of {len}", b.name), Some(mi));
        }
        k -= len;
        if k < 2 * A4 {
            let (word, mut v) = (k / A4, k % A4);
            let at = if word == 0 { 4 } else { 12 };
            for j in (0..4).rev() {
                bytes[at + j] = ALPHA[v % 9];
                v /= 9;
            }
            return (
                bytes.clone(),
                base_be,
                b.n_fds,
                format!(
                    "{}: {} word := {}",
                    b.name,
                    if word == 0 { "body-length" } else { "fields-length" },
                    hex(&bytes[at..at + 4])
                ),
                Some(mi),
            );
        }
        k -= 2 * A4;
        if k < 512 {
            bytes[0] = (k % 256) as u8;
            let be = k >= 256;
            return (
                bytes,
                be,
                b.n_fds,
                format!("{}: endianness byte := {:#04x}, {} context", b.name, k % 256, if be { "BE" } else { "LE" }),
                Some(mi),
            );
        }
        k -= 512;
        // pairs in the fixed part
        let (pair, ab) = (k / 81, k % 81);
        let mut p = pair;
        let mut i = 0usize;
        while p >= 15 - i {
            p -= 15 - i;
            i += 1;
        }
        let j = i + 1 + p;
        bytes[i] = ALPHA[ab / 9];
        bytes[j] = ALPHA[ab % 9];
        let be = bytes[0] == b'B';
        (
            bytes,
            be,
            b.n_fds,
            format!("{}: bytes {i},{j} := {:#04x},{:#04x}", b.name, ALPHA[ab / 9], ALPHA[ab % 9]),
            Some(mi),
        )
    }
}

// ---------------------------------------------------------------------------------------------
// evaluation of one byte string
// ---------------------------------------------------------------------------------------------

#[derive(Debug, Clone)]
pub struct Finding {
    pub clause: &'static str,
    pub op: &'static str,
    pub panic: String,
    pub loc: String,
}

fn fds_for(n: usize) -> Vec<OwnedFd> {
    use std::os::fd::AsFd;
    crate::c11::fd_table()
        .iter()
        .cycle()
        .take(n)
        .map(|f| f.as_fd().try_clone_to_owned().expect("dup"))
        .collect()
}

fn err_class(e: &zbus::Error) -> String {
    let d = format!("{e:?}");
    let head: String = d.chars().take_while(|c| c.is_ascii_alphanumeric()).collect();
    if head == "Variant" {
        // one level deeper: the zvariant error kind
        let rest = &d[head.len()..];
        let inner: String = rest
            .trim_start_matches('(')
            .chars()
            .take_while(|c| c.is_ascii_alphanumeric())
            .collect();
        return format!("err/Variant/{inner}");
    }
    format!("err/{head}")
}

/// Run the whole oracle on one byte string.
pub fn eval(bytes: &[u8], ctx_be: bool, n_fds: usize) -> (String, Vec<Finding>) {
    let endian = if ctx_be { Endian::Big } else { Endian::Little };
    let ctxt = Context::new_dbus(endian, 0);
    let data = if n_fds > 0 {
        Data::new_fds(bytes.to_vec(), ctxt, fds_for(n_fds))
    } else {
        Data::new(bytes.to_vec(), ctxt)
    };
    let mut findings = vec![];
    let parsed = catch(|| unsafe { Message::from_bytes(data) });
    let m = match parsed {
        Err(p) => {
            findings.push(Finding {
                clause: "from-bytes-no-panic",
                op: "from_bytes",
                panic: p,
                loc: vcommon::last_panic_location(),
            });
            return ("panic/from_bytes".into(), findings);
        }
        Ok(Err(e)) => return (err_class(&e), findings),
        Ok(Ok(m)) => m,
    };
    let mut run = |op: &'static str, f: &dyn Fn()| -> bool {
        match catch(f) {
            Ok(()) => true,
            Err(p) => {
                findings.push(Finding {
                    clause: "accessors-no-panic",
                    op,
                    panic: p,
                    loc: vcommon::last_panic_location(),
                });
                false
            }
        }
    };
    run("header", &|| {
        let h = m.header();
        let _ = (
            h.message_type(),
            h.path().map(|x| x.as_str().len()),
            h.interface().map(|x| x.as_str().len()),
            h.member().map(|x| x.as_str().len()),
            h.error_name().map(|x| x.as_str().len()),
            h.reply_serial(),
            h.destination().map(|x| x.as_str().len()),
            h.sender().map(|x| x.as_str().len()),
            h.signature().to_string(),
            h.unix_fds(),
        );
        let p = h.primary();
        let _ = (p.endian_sig(), p.msg_type(), p.flags(), p.protocol_version(), p.body_len(), p.serial_num());
        let _ = (m.message_type(), m.primary_header().serial_num(), m.recv_position());
    });
    let body_ok = run("body", &|| {
        let b = m.body();
        let _ = (b.len(), b.is_empty(), b.data().bytes().len());
    });
    let mut deser = "";
    if body_ok {
        run("body.signature", &|| {
            let _ = m.body().signature().to_string();
        });
        let cell = std::cell::Cell::new("");
        run("body.deserialize", &|| {
            let b = m.body();
            let r = b.deserialize::<Structure<'_>>();
            cell.set(if r.is_ok() { "body-ok" } else { "body-err" });
        });
        deser = cell.get();
    }
    run("display", &|| {
        let _ = format!("{m}");
    });
    run("debug", &|| {
        let _ = format!("{m:?}");
    });
    let class = if findings.is_empty() {
        format!("ok/{deser}")
    } else {
        "panic/accessor".to_string()
    };
    (class, findings)
}

/// Declarative features of a failing input (for known-finding identity).
///   op           which operation panicked
///   input_shape  structural relation between the buffer and what its own length words announce
///   panic_site   the function (by source file) the panic came from
///   cause        the root cause this combination is attributed to, or "unexplained"
pub fn explain(bytes: &[u8], f: &Finding) -> BTreeMap<String, String> {
    let mut m = BTreeMap::new();
    m.insert("op".to_string(), f.op.to_string());
    let mut shape = "other";
    if bytes.is_empty() {
        shape = "empty-input";
    } else if bytes.len() < 16 {
        shape = "shorter-than-fixed-part";
    } else if bytes[0] == b'l' || bytes[0] == b'B' {
        let w: [u8; 4] = bytes[12..16].try_into().unwrap();
        let fl = if bytes[0] == b'l' { u32::from_le_bytes(w) } else { u32::from_be_bytes(w) } as usize;
        let hl = 16usize.saturating_add(fl);
        let bo = hl.saturating_add((8 - hl % 8) % 8);
        if bytes.len() < bo {
            // the buffer ends before the 8-aligned body offset that the fields-length word implies
            shape = "ends-before-body-offset";
        }
    }
    m.insert("input_shape".to_string(), shape.to_string());
    // where it panicked, by function rather than by line
    let site = if f.loc.contains("serialized/data.rs") {
        "zvariant-Data-slice"
    } else if f.loc.contains("message/fields.rs") {
        "message-fields"
    } else if f.loc.contains("message/mod.rs") {
        "message-mod"
    } else if f.loc.contains("message/header.rs") {
        "message-header"
    } else {
        "elsewhere"
    };
    m.insert("panic_site".to_string(), site.to_string());
    let cause = match (f.op, shape, site) {
        ("from_bytes", "empty-input", "message-mod") => "first-byte-read-from-empty-buffer",
        (_, "ends-before-body-offset", "zvariant-Data-slice") => "body-offset-beyond-buffer",
        (_, _, "message-fields") if f.panic.starts_with("Invalid field reconstruction") => {
            "header-field-accepted-unvalidated"
        }
        _ => "unexplained",
    };
    m.insert("cause".to_string(), cause.to_string());
    m
}

// ---------------------------------------------------------------------------------------------
// child
// ---------------------------------------------------------------------------------------------

struct Cursor {
    ptr: *mut u64,
}

impl Cursor {
    fn open(path: &Path) -> Self {
        use std::os::fd::AsRawFd;
        let f = std::fs::OpenOptions::new()
            .read(true)
            .write(true)
            .create(true)
            .truncate(true)
            .open(path)
            .unwrap_or_else(|e| machinery_failure(&format!("C12 child: cursor file: {e}")));
        f.set_len(8).unwrap_or_else(|e| machinery_failure(&format!("C12 child: cursor file: {e}")));
        let p = unsafe {
            libc::mmap(
                std::ptr::null_mut(),
                8,
                libc::PROT_READ | libc::PROT_WRITE,
                libc::MAP_SHARED,
                f.as_raw_fd(),
                0,
            )
        };
        if p == libc::MAP_FAILED {
            machinery_failure("C12 child: mmap of the cursor failed");
        }
        let c = Self { ptr: p as *mut u64 };
        c.set(u64::MAX);
        c
    }
    fn set(&self, v: u64) {
        unsafe { std::ptr::write_volatile(self.ptr, v) }
    }
}

const CHUNK: usize = 2048;

fn child_main(args: &Args) -> i32 {
    // --child <shard> <nshards> <dir> [skip,skip,...]
    let pos = args.extra.iter().position(|a| a == "--child").unwrap();
    let k: usize = args.extra[pos + 1].parse().unwrap_or_else(|_| machinery_failure("C12 child: shard"));
    let n: usize = args.extra[pos + 2].parse().unwrap_or_else(|_| machinery_failure("C12 child: nshards"));
    let dir = PathBuf::from(&args.extra[pos + 3]);
    let skip: HashSet<usize> = args
        .extra
        .get(pos + 4)
        .map(|s| s.split(',').filter_map(|x| x.parse().ok()).collect())
        .unwrap_or_default();
    let space = Space::new(args.tier);
    let cursor = Cursor::open(&dir.join(format!("cursor-{k}")));
    let mut evals = 0u64;
    let mut outcomes: BTreeMap<String, u64> = BTreeMap::new();
    let mut hashes: HashSet<u64> = HashSet::new();
    let mut kept: BTreeMap<(String, BTreeMap<String, String>), u64> = BTreeMap::new();
    let mut violations: Vec<J> = vec![];
    let mut violating = 0u64;
    let mut samples: Vec<J> = vec![];
    let n_chunks = space.total.div_ceil(CHUNK);
    let mut chunk = k;
    while chunk < n_chunks {
        let lo = chunk * CHUNK;
        let hi = (lo + CHUNK).min(space.total);
        for idx in lo..hi {
            if skip.contains(&idx) {
                continue;
            }
            let (bytes, be, n_fds, descr, base) = space.case(idx);
            cursor.set(idx as u64);
            let (class, findings) = eval(&bytes, be, n_fds);
            evals += 1;
            *outcomes.entry(class.clone()).or_insert(0) += 1;
            // non-trivial: the endianness check passes, i.e. the parser proper runs
            if matches!(bytes.first(), Some(b'l') | Some(b'B')) && (bytes[0] == b'B') == be {
                hashes.insert(hash64(&(&bytes[..], n_fds)));
            }
            if (idx % 40_009 == 0 || (idx - lo == 7 && chunk % 997 == 0)) && samples.len() < 4 {
                samples.push(json!({"case": idx, "what": descr, "bytes": hex(&bytes), "outcome": class}));
            }
            if !findings.is_empty() {
                violating += 1;
            }
            for f in findings {
                let feats = explain(&bytes, &f);
                let c = kept.entry((f.clause.to_string(), feats.clone())).or_insert(0);
                *c += 1;
                if *c <= 3 {
                    violations.push(json!({
                        "clause": f.clause,
                        "features": feats,
                        "detail": format!("{descr}: {} panicked: {} at {} (input {} bytes: {})", f.op, f.panic, f.loc, bytes.len(), hex(&bytes)),
                        "replay": {"case": idx, "bytes": hex(&bytes), "ctx_be": be, "n_fds": n_fds,
                                   "base": base.map(|b| space.corpus[b].name.clone()), "what": descr},
                    }));
                }
            }
        }
        chunk += n;
    }
    cursor.set(u64::MAX);
    let mut hb = Vec::with_capacity(hashes.len() * 8);
    let mut hs: Vec<u64> = hashes.into_iter().collect();
    hs.sort_unstable();
    for h in hs {
        hb.extend_from_slice(&h.to_le_bytes());
    }
    let res = json!({
        "evals": evals, "outcomes": outcomes, "violations": violations, "violating_cases": violating,
        "identities": kept.iter().map(|((c, f), n)| json!({"clause": c, "features": f, "cases": n})).collect::<Vec<_>>(),
        "samples": samples,
    });
    let ok = std::fs::write(dir.join(format!("hashes-{k}")), hb).is_ok()
        && std::fs::write(dir.join(format!("result-{k}.json")), res.to_string()).is_ok();
    if !ok {
        machinery_failure("C12 child: cannot write results");
    }
    0
}

// ---------------------------------------------------------------------------------------------
// parent
// ---------------------------------------------------------------------------------------------

struct ShardResult {
    res: J,
    hashes: Vec<u64>,
    /// cases on which a child died
    deaths: Vec<(usize, String)>,
}

fn run_shard(exe: &Path, tier: Tier, k: usize, n: usize, dir: &Path) -> ShardResult {
    let mut skip: Vec<usize> = vec![];
    let mut deaths = vec![];
    loop {
        let _ = std::fs::remove_file(dir.join(format!("result-{k}.json")));
        let mut cmd = std::process::Command::new(exe);
        cmd.arg("C12")
            .arg("--tier")
            .arg(tier.as_str())
            .arg("--child")
            .arg(k.to_string())
            .arg(n.to_string())
            .arg(dir);
        if !skip.is_empty() {
            cmd.arg(skip.iter().map(|x| x.to_string()).collect::<Vec<_>>().join(","));
        }
        cmd.stdout(std::process::Stdio::null());
        let out = cmd
            .output()
            .unwrap_or_else(|e| machinery_failure(&format!("C12: cannot spawn child: {e}")));
        let result_path = dir.join(format!("result-{k}.json"));
        if out.status.success() && result_path.exists() {
            let res: J = serde_json::from_str(&std::fs::read_to_string(&result_path).unwrap_or_default())
                .unwrap_or_else(|e| machinery_failure(&format!("C12: bad child result: {e}")));
            let hb = std::fs::read(dir.join(format!("hashes-{k}"))).unwrap_or_default();
            let hashes = hb
                .chunks_exact(8)
                .map(|c| u64::from_le_bytes(c.try_into().unwrap()))
                .collect();
            return ShardResult { res, hashes, deaths };
        }
        if out.status.code() == Some(2) {
            machinery_failure(&format!(
                "C12: child {k} reported a machinery failure: {}",
                String::from_utf8_lossy(&out.stderr)
            ));
        }
        // the child died: its cursor names the case
        let cur = std::fs::read(dir.join(format!("cursor-{k}")))
            .ok()
            .and_then(|b| b.get(..8).map(|x| u64::from_le_bytes(x.try_into().unwrap())))
            .unwrap_or(u64::MAX);
        if cur == u64::MAX {
            machinery_failure(&format!(
                "C12: child {k} died ({:?}) outside of any case: {}",
                out.status,
                String::from_utf8_lossy(&out.stderr)
            ));
        }
        let stderr = String::from_utf8_lossy(&out.stderr);
        let tail: String = stderr.chars().rev().take(300).collect::<String>().chars().rev().collect();
        deaths.push((cur as usize, format!("{:?} {}", out.status, tail.trim())));
        skip.push(cur as usize);
        if skip.len() > 25 {
            machinery_failure("C12: a child died on more than 25 cases of one shard; giving up");
        }
    }
}

fn replay(path: &str) -> i32 {
    let v = vcommon::load_replay(path);
    let r = &v["replay"];
    let bytes = unhex(r["bytes"].as_str().unwrap_or(""));
    let be = r["ctx_be"].as_bool().unwrap_or(false);
    let n_fds = r["n_fds"].as_u64().unwrap_or(0) as usize;
    println!("what: {}", r["what"]);
    println!("input ({} bytes, {} context, {} fds): {}", bytes.len(), if be { "BE" } else { "LE" }, n_fds, hex(&bytes));
    match rm::parse_header(&bytes) {
        Ok(ph) => println!(
            "reference parse of the header: ok, fields_len={} body_offset={} body_len={}",
            ph.fields_len, ph.body_offset, ph.body_len
        ),
        Err(e) => println!("reference parse of the header: invalid ({e})"),
    }
    if r["died"].as_bool() == Some(true) {
        println!("this case killed the child process; re-running it in-process will likely kill this process too");
        std::io::stdout().flush().ok();
    }
    let (class, findings) = eval(&bytes, be, n_fds);
    println!("outcome: {class}");
    for f in &findings {
        println!(
            "violation: clause={} features={:?}: {} panicked: {} at {}",
            f.clause,
            explain(&bytes, f),
            f.op,
            f.panic,
            f.loc
        );
    }
    if findings.is_empty() {
        println!("no violation on this case");
        0
    } else {
        1
    }
}

pub fn main(args: &Args) -> i32 {
    if args.extra.iter().any(|a| a == "--child") {
        return child_main(args);
    }
    if let Some(p) = &args.replay {
        return replay(p);
    }
    let report = Report::new("C12", args.tier, args.seed, "exploration");
    let space = Space::new(args.tier);
    // sanity of the corpus: every base message is valid under the reference parser
    for b in &space.corpus {
        // (the depth-limit stress messages are deliberately on both sides of the limits)
        if b.name.contains("-nested-") {
            continue;
        }
        if let Err(e) = rm::parse_header(&b.bytes) {
            machinery_failure(&format!("C12: corpus message {} is not valid under the reference parser: {e}", b.name));
        }
    }
    let dir = vcommon::verif_root().join(".run").join(format!("c12-{}", std::process::id()));
    std::fs::create_dir_all(&dir).unwrap_or_else(|e| machinery_failure(&format!("C12: {e}")));
    let exe = std::env::current_exe().unwrap_or_else(|e| machinery_failure(&format!("C12: current_exe: {e}")));
    let n = vcommon::n_workers();
    let results: Vec<ShardResult> = std::thread::scope(|sc| {
        let hs: Vec<_> = (0..n)
            .map(|k| {
                let (exe, dir) = (&exe, &dir);
                let tier = args.tier;
                sc.spawn(move || run_shard(exe, tier, k, n, dir))
            })
            .collect();
        hs.into_iter().map(|h| h.join().expect("shard thread")).collect()
    });
    let _ = std::fs::remove_dir_all(&dir);

    let mut identities: BTreeMap<String, u64> = BTreeMap::new();
    let mut violating = 0u64;
    for r in &results {
        report.eval(r.res["evals"].as_u64().unwrap_or(0));
        if let Some(o) = r.res["outcomes"].as_object() {
            for (k, v) in o {
                report.outcome_n(k, v.as_u64().unwrap_or(0));
            }
        }
        report.nontrivial_many(r.hashes.iter().cloned());
        violating += r.res["violating_cases"].as_u64().unwrap_or(0);
        for s in r.res["samples"].as_array().cloned().unwrap_or_default() {
            report.sample(s);
        }
        for i in r.res["identities"].as_array().cloned().unwrap_or_default() {
            *identities
                .entry(format!("{} {}", i["clause"].as_str().unwrap_or(""), i["features"]))
                .or_insert(0) += i["cases"].as_u64().unwrap_or(0);
        }
        for v in r.res["violations"].as_array().cloned().unwrap_or_default() {
            let mut viol = Violation::new(
                v["clause"].as_str().unwrap_or(""),
                v["detail"].as_str().unwrap_or("").to_string(),
                v["replay"].clone(),
            );
            if let Some(f) = v["features"].as_object() {
                for (k, x) in f {
                    viol = viol.feat(k, x.as_str().unwrap_or(""));
                }
            }
            report.violation(viol);
        }
        for (idx, how) in &r.deaths {
            let (bytes, be, n_fds, descr, base) = space.case(*idx);
            report.eval(1);
            report.outcome("child-died");
            violating += 1;
            report.violation(
                Violation::new(
                    "no-abort",
                    format!("{descr}: the child process died while evaluating this input ({how}); input {}", hex(&bytes)),
                    json!({"case": idx, "bytes": hex(&bytes), "ctx_be": be, "n_fds": n_fds, "died": true,
                           "base": base.map(|b| space.corpus[b].name.clone()), "what": descr}),
                )
                .feat("op", "process")
                .feat("input_shape", "n/a"),
            );
        }
    }
    if report.evaluations() != space.total as u64 {
        machinery_failure(&format!(
            "C12: {} cases evaluated but the space has {}",
            report.evaluations(),
            space.total
        ));
    }
    report.set("violating_cases_seen", json!(violating));
    report.set("violation_identities", json!(identities));
    report.set("corpus_messages", json!(space.corpus.len()));
    report.set(
        "corpus",
        json!(space.corpus.iter().map(|b| format!("{} ({} bytes)", b.name, b.bytes.len())).collect::<Vec<_>>()),
    );
    report.set("child_processes", json!(n));
    report.assume("a panic is observed through catch_unwind; anything that kills the process is observed as the death of a child whose shared cursor names the case");
    report.assume("the corpus is built by the reference marshaller (refmsg) and is valid under the reference parser");
    report.finish(
        "per corpus message: the unmodified message, every 1-byte substitution over a 24-byte alphabet at every offset, every truncation length, alphabet^4 in the body-length and fields-length words, all 256 endianness bytes under both contexts (thorough: all substitution pairs inside the fixed part); plus all byte strings of length <= 3. Non-trivial = the first byte is a valid endianness flag matching the context, so the parser proper runs (distinct inputs counted)",
        true,
    )
}
