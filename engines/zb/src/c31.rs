//! C31 — a proxy's property cache reflects the received history.
//!
//! A real connection + `zbus::Proxy` (caching on, one uncached property) faces a scripted peer.
//! The peer's emissions (the GetAll reply, PropertiesChanged for the proxy's interface, an
//! invalidation, a change on another interface, a change of the uncached property) are
//! environment events; every order of them and of the task polls is explored by DFS with a
//! deviation bound, for every subset of the update events.

use std::{collections::HashMap, sync::{Arc, Mutex}};

use futures_lite::StreamExt;
use serde_json::json;
use vcommon::{Args, Report};
use zbus::{
    connection::Builder,
    proxy::CacheProperties,
    zvariant::Value,
    Message,
};

use crate::{
    explore::ExecResult,
    sched::{finish_model_checking, run_scenario, v, SchedPlan, Totals},
    world::{parse_message, split_messages, Link, SockCfg, Step, World, GUID},
};

#[derive(Clone, Copy, Debug, PartialEq)]
enum Ev {
    GetAllReply,
    Set1,
    Set2,
    Invalidate,
    OtherIface,
    Uncached,
    /// one signal carrying both a change and an invalidation of another cached property
    SetQInvalidateP,
    /// a change of a property R that the GetAll snapshot does not list
    SetR,
}

const UPDATES: [Ev; 7] = [Ev::Set1, Ev::Set2, Ev::Invalidate, Ev::OtherIface, Ev::Uncached, Ev::SetQInvalidateP, Ev::SetR];

fn changed_signal(iface: &str, changed: Vec<(&str, Value<'_>)>, invalidated: Vec<&str>) -> Message {
    let map: HashMap<&str, Value<'_>> = changed.into_iter().collect();
    Message::signal("/o", "org.freedesktop.DBus.Properties", "PropertiesChanged")
        .unwrap()
        .sender(":1.5")
        .unwrap()
        .build(&(iface, map, invalidated))
        .unwrap()
}

#[derive(Debug, Clone, PartialEq)]
struct ModelState {
    ready: bool,
    p: Option<u32>,
    q: Option<String>,
    r: Option<u32>,
}

fn scenario(updates: &[Ev]) -> ExecResult {
    let mut w = World::new();
    w.horizon = 400;
    let link = Link::new();
    let sock = link.end_a(SockCfg::default());
    let conn = w
        .complete("build", async move {
            Builder::authenticated_socket(sock, GUID)
                .unwrap()
                .p2p()
                .internal_executor(false)
                .build()
                .await
                .unwrap()
        })
        .expect("build");
    let seen: Arc<Mutex<Vec<Option<u32>>>> = Default::default();
    let proxy_slot: Arc<Mutex<Option<zbus::Proxy<'static>>>> = Default::default();
    let (c2, s2, ps2) = (conn.clone(), seen.clone(), proxy_slot.clone());
    let root = w.spawn("proxy-user", async move {
        let proxy: zbus::Proxy<'static> = zbus::proxy::Builder::new(&c2)
            .destination(":1.5")?
            .path("/o")?
            .interface("a.b.I")?
            .cache_properties(CacheProperties::Yes)
            .uncached_properties(&["U"])
            .build()
            .await?;
        *ps2.lock().unwrap() = Some(proxy.clone());
        let mut stream = proxy.receive_property_changed::<u32>("P").await;
        while let Some(_changed) = stream.next().await {
            let cur = proxy.cached_property::<u32>("P").ok().flatten();
            s2.lock().unwrap().push(cur);
        }
        Ok::<(), zbus::Error>(())
    });
    let mut remaining: Vec<Ev> = updates.to_vec();
    let mut getall_serial: Option<u32> = None;
    let mut getall_replied = false;
    let mut model = ModelState { ready: false, p: None, q: None, r: None };
    let mut order: Vec<Ev> = vec![];
    loop {
        if getall_serial.is_none() {
            let out = link.a2b.written();
            let (msgs, _) = split_messages(&out);
            for r in msgs {
                if let Ok(m) = parse_message(&out[r]) {
                    if m.header().member().map(|m| m.as_str() == "GetAll").unwrap_or(false) {
                        getall_serial = Some(m.primary_header().serial_num().get());
                    }
                }
            }
        }
        let mut menu: Vec<Ev> = vec![];
        if getall_serial.is_some() && !getall_replied {
            menu.push(Ev::GetAllReply);
        }
        menu.extend(remaining.iter().cloned());
        match w.step(menu.len()) {
            Step::Ran(_) => {}
            Step::Env(k) => {
                let e = menu[k];
                order.push(e);
                let msg = match e {
                    Ev::GetAllReply => {
                        getall_replied = true;
                        // reply to the GetAll call
                        let call = Message::method_call("/o", "GetAll").unwrap().build(&()).unwrap();
                        let mut bytes = call.data().bytes().to_vec();
                        bytes[8..12].copy_from_slice(&getall_serial.unwrap().to_le_bytes());
                        let call = parse_message(&bytes).unwrap();
                        let mut map: HashMap<&str, Value<'_>> = HashMap::new();
                        map.insert("P", Value::from(100u32));
                        map.insert("U", Value::from(5u32));
                        map.insert("Q", Value::from("q0"));
                        model.ready = true;
                        model.p = Some(100);
                        model.q = Some("q0".into());
                        Message::method_return(&call.header()).unwrap().sender(":1.5").unwrap().build(&(map,)).unwrap()
                    }
                    Ev::Set1 => {
                        if model.ready {
                            model.p = Some(1);
                        }
                        changed_signal("a.b.I", vec![("P", Value::from(1u32))], vec![])
                    }
                    Ev::Set2 => {
                        if model.ready {
                            model.p = Some(2);
                        }
                        changed_signal("a.b.I", vec![("P", Value::from(2u32))], vec![])
                    }
                    Ev::Invalidate => {
                        if model.ready {
                            model.p = None;
                        }
                        changed_signal("a.b.I", vec![], vec!["P"])
                    }
                    Ev::OtherIface => changed_signal("c.d.Other", vec![("P", Value::from(9u32))], vec!["P"]),
                    Ev::Uncached => changed_signal("a.b.I", vec![("U", Value::from(7u32))], vec![]),
                    Ev::SetR => {
                        if model.ready {
                            model.r = Some(3);
                        }
                        changed_signal("a.b.I", vec![("R", Value::from(3u32))], vec![])
                    }
                    Ev::SetQInvalidateP => {
                        if model.ready {
                            model.q = Some("q1".into());
                            model.p = None;
                        }
                        changed_signal("a.b.I", vec![("Q", Value::from("q1"))], vec!["P"])
                    }
                };
                if e != Ev::GetAllReply {
                    remaining.retain(|x| *x != e);
                }
                link.b2a.push(msg.data().bytes(), vec![]);
            }
            _ => break,
        }
    }
    let mut res = ExecResult {
        capped: w.hit_horizon,
        steps: w.steps,
        ..Default::default()
    };
    w.obs(format!("receive order {order:?}"));
    let proxy = proxy_slot.lock().unwrap().clone();
    if !w.hit_horizon && getall_replied {
        match &proxy {
            None => {
                let r = root.take();
                res.violations.push(
                    v("cache-ready", format!("the GetAll reply was delivered but the proxy never became ready (builder result {:?}); order {order:?}; trace={:?}", r.map(|r| r.map_err(|e| e.to_string())), w.trace))
                        .feat("kind", "never-ready"),
                );
            }
            Some(proxy) => {
                let p = proxy.cached_property::<u32>("P").ok().flatten();
                let q = proxy.cached_property::<String>("Q").ok().flatten();
                let u = proxy.cached_property::<u32>("U").ok().flatten();
                let r = proxy.cached_property::<u32>("R").ok().flatten();
                w.obs(format!("cached P={p:?} Q={q:?} U={u:?} R={r:?}; model {model:?}"));
                if r != model.r {
                    res.violations.push(
                        v("cached-value-equals-history", format!("receive order {order:?}: cached R = {r:?} (R is not in the GetAll snapshot), the received history implies {:?}", model.r))
                            .feat("kind", "R"),
                    );
                }
                if p != model.p {
                    res.violations.push(
                        v("cached-value-equals-history", format!("receive order {order:?}: cached P = {p:?}, the received history implies {:?}", model.p))
                            .feat("kind", "P"),
                    );
                }
                if q != model.q {
                    res.violations.push(
                        v("cached-value-equals-history", format!("receive order {order:?}: cached Q = {q:?}, the received history implies {:?}", model.q))
                            .feat("kind", "Q"),
                    );
                }
                if u.is_some() {
                    res.violations.push(
                        v("uncached-never-cached", format!("receive order {order:?}: property U is marked uncached but the cache holds {u:?}"))
                            .feat("kind", "U"),
                    );
                }
                let s = seen.lock().unwrap().clone();
                w.obs(format!("property stream saw {s:?}"));
                if let Some(last) = s.last() {
                    if *last != model.p {
                        res.violations.push(
                            v("stream-reports-latest", format!("receive order {order:?}: the property stream's last report was {last:?} but the latest value is {:?} (all reports {s:?})", model.p))
                                .feat("kind", "stream"),
                        );
                    }
                } else if model.p.is_some() {
                    res.violations.push(
                        v("stream-reports-latest", format!("receive order {order:?}: the property stream never reported although P = {:?}", model.p))
                            .feat("kind", "stream-silent"),
                    );
                }
            }
        }
    }
    res.log = std::mem::take(&mut w.log);
    drop(proxy);
    drop(conn);
    res
}

pub fn main(args: &Args) -> i32 {
    if let Some(p) = &args.replay {
        return crate::sched::replay(p, |_, j| {
            let text = j["updates"].as_str().unwrap_or("[]").to_string();
            let updates: Vec<Ev> = UPDATES.iter().filter(|e| text.contains(&format!("{e:?}"))).cloned().collect();
            // `Set1`/`Set2` are substrings of nothing else; `Invalidate` is a substring of
            // `SetQInvalidateP`: keep it only when it appears as a list element
            let updates: Vec<Ev> = updates
                .into_iter()
                .filter(|e| *e != Ev::Invalidate || text.replace("SetQInvalidateP", "").contains("Invalidate"))
                .collect();
            Some(Box::new(move || scenario(&updates)))
        });
    }
    let report = Report::new("C31", args.tier, args.seed, "model_checking");
    let totals = Mutex::new(Totals::default());
    let quick = args.tier == vcommon::Tier::Quick;
    let max_size = args.tier.pick(3, 4);
    for mask in vcommon::enumerate::subsets(UPDATES.len()) {
        if mask.count_ones() as usize > max_size {
            continue;
        }
        let updates: Vec<Ev> = UPDATES.iter().enumerate().filter(|(i, _)| mask & (1 << i) != 0).map(|(_, e)| *e).collect();
        let name = format!("updates-{updates:?}");
        let plan = SchedPlan {
            // fixed bounds (not time-driven) so that the quick tier covers the same space on every run
            bounds: match (quick, updates.len()) {
                (true, 0..=2) => vec![Some(4)],
                (true, _) => vec![Some(3)],
                (false, 0..=2) => vec![None],
                (false, 3) => vec![Some(4)],
                (false, _) => vec![Some(3)],
            },
            max_execs: args.tier.pick(2_000_000, 50_000_000),
            time_budget_s: args.tier.pick(120.0, 900.0),
        };
        let u2 = updates.clone();
        run_scenario(&report, &totals, &name, json!({"updates": format!("{updates:?}")}), &plan, move || scenario(&u2));
    }
    report.assume("the peer answers GetAll only after it has completely received the call; receive order = the order in which the peer's messages are pushed to the socket");
    finish_model_checking(
        &report,
        &totals,
        "every subset (≤ size bound) of the update events × every order of {GetAll reply, updates} × task polls, up to the completed deviation bound",
    )
}
