//! C25 — ObjectManager signals track the managed object set.
//!
//! Histories over C24's alphabet plus at/remove of `zbus::fdo::ObjectManager` at {/, /a}, every
//! transition executed on a real p2p connection pair; the same tree again over C24's second path
//! universe {/, /a, /a/b/d, /a/bc} with one ordinary interface. A client-side collector (a `MessageStream`
//! with a match rule for org.freedesktop.DBus.ObjectManager signals) is drained after every step;
//! per manager path a mirror starts from `GetManagedObjects` taken when the manager first answers
//! and is then updated only from that manager's InterfacesAdded/InterfacesRemoved signals.
//! After every step the mirror must equal the manager's current listing (paths without interfaces
//! ignored) and every reported interface must carry the current value of its property.
//!
//! As in C24 the verdict is taken on the last transition of every enumerated history; when a
//! mirror has diverged at an earlier step (reported by the history ending there) the client is
//! restarted from the listing, so one defective transition does not cascade.

use std::collections::{BTreeMap, BTreeSet, HashSet};
use std::sync::atomic::{AtomicU64, Ordering::Relaxed};
use std::sync::Mutex;

use futures_lite::StreamExt;
use serde_json::json;
use vcommon::{enumerate, hash64, Args, Report, Violation};
use zbus::{
    zvariant::{OwnedObjectPath, OwnedValue},
    Connection, MessageStream,
};

use crate::osrv::{
    self, call, do_op, history_from_json, history_json, probe, relation, short_err, show_history, Op, OpRet,
    Pair, Ran, Reply, Sys, I1, I2, IFACES, OM, PATHS,
};

/// Manager paths of the universe.
const MGR: [&str; 2] = ["/", "/a"];

/// path -> interface -> property -> rendered value
type Listing = BTreeMap<String, BTreeMap<String, BTreeMap<String, String>>>;

fn restrict(l: &Listing) -> Listing {
    l.iter().filter(|(_, v)| !v.is_empty()).map(|(k, v)| (k.clone(), v.clone())).collect()
}

fn render(v: &OwnedValue) -> String {
    format!("{:?}", &**v)
}

#[derive(Clone, Debug, PartialEq, Eq, Hash)]
enum Sig {
    Added { from: String, path: String, ifaces: BTreeMap<String, BTreeMap<String, String>> },
    Removed { from: String, path: String, ifaces: Vec<String> },
    Odd(String),
}

impl Sig {
    fn from(&self) -> &str {
        match self {
            Sig::Added { from, .. } | Sig::Removed { from, .. } => from,
            Sig::Odd(_) => "",
        }
    }
    fn show(&self) -> String {
        match self {
            Sig::Added { from, path, ifaces } => format!("InterfacesAdded from {from}: {path} {ifaces:?}"),
            Sig::Removed { from, path, ifaces } => format!("InterfacesRemoved from {from}: {path} {ifaces:?}"),
            Sig::Odd(e) => format!("ODD {e}"),
        }
    }
}

#[derive(Clone, Debug, PartialEq, Eq, Hash)]
enum Listed {
    Ok(Listing),
    /// No manager answers there (UnknownObject / UnknownInterface / UnknownMethod).
    NoManager(String),
    Odd(String),
}

impl Listed {
    fn ok(&self) -> Option<&Listing> {
        match self {
            Listed::Ok(l) => Some(l),
            _ => None,
        }
    }
}

/// What the client (and, for the current property values, the server) sees after a step.
#[derive(Clone, Debug, PartialEq, Eq, Hash)]
struct After {
    sigs: Vec<Sig>,
    listing: Vec<Listed>,
    /// instance tag of every registered pair, read through `ObjectServer::interface`
    vals: BTreeMap<Pair, u32>,
}

fn parse_sig(m: &zbus::Message) -> Sig {
    let h = m.header();
    let from = h.path().map(|p| p.to_string()).unwrap_or_default();
    match h.member().map(|m| m.to_string()).as_deref() {
        Some("InterfacesAdded") => {
            match m
                .body()
                .deserialize::<(OwnedObjectPath, std::collections::HashMap<String, std::collections::HashMap<String, OwnedValue>>)>()
            {
                Ok((p, i)) => Sig::Added {
                    from,
                    path: p.to_string(),
                    ifaces: i
                        .into_iter()
                        .map(|(k, v)| (k, v.iter().map(|(a, b)| (a.clone(), render(b))).collect()))
                        .collect(),
                },
                Err(e) => Sig::Odd(format!("InterfacesAdded body: {e}")),
            }
        }
        Some("InterfacesRemoved") => match m.body().deserialize::<(OwnedObjectPath, Vec<String>)>() {
            Ok((p, i)) => Sig::Removed { from, path: p.to_string(), ifaces: i },
            Err(e) => Sig::Odd(format!("InterfacesRemoved body: {e}")),
        },
        other => Sig::Odd(format!("unexpected member {other:?}")),
    }
}

async fn after(client: Connection, server: Connection, mut stream: MessageStream) -> (MessageStream, After) {
    let mut sigs = vec![];
    loop {
        match futures_lite::future::poll_once(stream.next()).await {
            Some(Some(Ok(m))) => sigs.push(parse_sig(&m)),
            Some(Some(Err(e))) => sigs.push(Sig::Odd(format!("stream error {e:?}"))),
            Some(None) => {
                sigs.push(Sig::Odd("stream ended".into()));
                break;
            }
            None => break,
        }
    }
    let mut listing = vec![];
    for m in MGR {
        let l = match call(&client, m, OM, "GetManagedObjects", &()).await {
            Reply::Ok(msg) => match msg.body().deserialize::<zbus::fdo::ManagedObjects>() {
                Ok(mo) => Listed::Ok(
                    mo.into_iter()
                        .map(|(p, is)| {
                            (
                                p.to_string(),
                                is.into_iter()
                                    .map(|(i, ps)| (i.to_string(), ps.iter().map(|(a, b)| (a.clone(), render(b))).collect()))
                                    .collect(),
                            )
                        })
                        .collect(),
                ),
                Err(e) => Listed::Odd(format!("bad reply body: {e}")),
            },
            Reply::Err(n, t) => match short_err(&n) {
                s @ ("UnknownObject" | "UnknownInterface" | "UnknownMethod") => Listed::NoManager(s.into()),
                s => Listed::Odd(format!("{s}: {t}")),
            },
            Reply::Other(e) => Listed::Odd(e),
        };
        listing.push(l);
    }
    let mut vals = BTreeMap::new();
    let os = server.object_server();
    for p in 0..PATHS.len() {
        if let Ok(r) = os.interface::<_, I1>(PATHS[p]).await {
            vals.insert((p, 0), r.get().await.val);
        }
        if let Ok(r) = os.interface::<_, I2>(PATHS[p]).await {
            vals.insert((p, 1), r.get().await.val);
        }
    }
    (stream, After { sigs, listing, vals })
}

fn apply(mirror: &mut Listing, s: &Sig) {
    match s {
        Sig::Added { path, ifaces, .. } => {
            let e = mirror.entry(path.clone()).or_default();
            for (k, v) in ifaces {
                e.insert(k.clone(), v.clone());
            }
        }
        Sig::Removed { path, ifaces, .. } => {
            if let Some(e) = mirror.get_mut(path) {
                for i in ifaces {
                    e.remove(i);
                }
            }
        }
        Sig::Odd(_) => {}
    }
}

fn alphabet() -> Vec<Op> {
    let mut v = crate::c24::alphabet();
    for p in 0..MGR.len() {
        v.push(Op::AtOm { p });
    }
    for p in 0..MGR.len() {
        v.push(Op::RemoveOm { p });
    }
    v
}

enum Exec {
    DeadPrefix(usize, String),
    /// The last operation (or the observation after it) panicked or hung. Not C25's subject.
    LastFailed(String),
    Last { history: Vec<Op>, pre: After, mirror_pre: Vec<Option<Listing>>, ret: OpRet, post: After, mirror_post: Vec<Option<Listing>> },
}

fn failed<T>(r: &Ran<T>) -> Option<String> {
    match r {
        Ran::Done(_) => None,
        Ran::Hung => Some("hang".into()),
        Ran::Panic { msg, loc } => Some(format!("panic: {msg} at {loc}")),
    }
}

fn run_history(h: &[Op], trace: bool) -> Exec {
    let mut sys = match Sys::new() {
        Ok(s) => s,
        Err(e) => vcommon::machinery_failure(&format!("cannot build the p2p pair: {e}")),
    };
    let c = sys.client.clone();
    let stream = match sys.run("subscribe", async move {
        let rule = zbus::MatchRule::builder()
            .msg_type(zbus::message::Type::Signal)
            .interface(OM)
            .unwrap()
            .build();
        MessageStream::for_match_rule(rule, &c, Some(256)).await
    }) {
        Ran::Done(Ok(s)) => s,
        _ => vcommon::machinery_failure("cannot create the signal collector"),
    };
    let (c, s) = (sys.client.clone(), sys.server.clone());
    let (mut stream, mut st) = match sys.run("observe", after(c, s, stream)) {
        Ran::Done(x) => x,
        _ => vcommon::machinery_failure("cannot observe the initial state"),
    };
    let mut mirror: Vec<Option<Listing>> = vec![None; MGR.len()];
    let n = h.len();
    let mut result = None;
    for (k, op) in h.iter().enumerate() {
        let last = k + 1 == n;
        let pre = st.clone();
        let mirror_pre = mirror.clone();
        let r = match *op {
            Op::Lookup => {
                let (c, s) = (sys.client.clone(), sys.server.clone());
                match sys.run("lookup", probe(c, s)) {
                    Ran::Done(_) => Ran::Done(OpRet::Unit),
                    Ran::Hung => Ran::Hung,
                    Ran::Panic { msg, loc } => Ran::Panic { msg, loc },
                }
            }
            op => {
                let s = sys.server.clone();
                sys.run("op", do_op(s, op))
            }
        };
        let ret = match r {
            Ran::Done(v) => v,
            r => {
                let why = failed(&r).unwrap();
                result = Some(if last { Exec::LastFailed(why) } else { Exec::DeadPrefix(k, why) });
                break;
            }
        };
        let (c, s) = (sys.client.clone(), sys.server.clone());
        match sys.run("observe", after(c, s, stream)) {
            Ran::Done((s2, a)) => {
                stream = s2;
                st = a;
            }
            r => {
                let why = format!("observation {}", failed(&r).unwrap());
                result = Some(if last { Exec::LastFailed(why) } else { Exec::DeadPrefix(k, why) });
                // the stream went down with the future
                let _ = vcommon::catch(move || drop(sys));
                return result.unwrap();
            }
        }
        for m in 0..MGR.len() {
            if let Listed::Ok(l) = &st.listing[m] {
                if let Some(mi) = mirror[m].as_mut() {
                    for s in st.sigs.iter().filter(|s| s.from() == MGR[m]) {
                        apply(mi, s);
                    }
                } else {
                    mirror[m] = Some(l.clone());
                }
            } else {
                mirror[m] = None;
            }
        }
        if trace {
            println!("step {}: {} -> {}", k + 1, op.show(), ret.show());
            for s in &st.sigs {
                println!("    signal: {}", s.show());
            }
            for m in 0..MGR.len() {
                println!("    manager {:3} listing: {}", MGR[m], match &st.listing[m] {
                    Listed::Ok(l) => format!("{:?}", restrict(l)),
                    Listed::NoManager(e) => format!("none ({e})"),
                    Listed::Odd(e) => format!("ODD {e}"),
                });
                println!("    manager {:3} mirror : {}", MGR[m], match &mirror[m] {
                    Some(l) => format!("{:?}", restrict(l)),
                    None => "not started".into(),
                });
            }
            let (vs, _) = check(&h[..=k], &pre, &mirror_pre, &ret, &st, &mirror);
            for v in &vs {
                println!("    VIOLATION clause={} features={:?}\n      {}", v.clause, v.features, v.detail);
            }
        }
        if last {
            result = Some(Exec::Last { history: h.to_vec(), pre, mirror_pre, ret, post: st.clone(), mirror_post: mirror.clone() });
        } else {
            // A diverged client is restarted from the listing (its divergence is the verdict of the
            // history that ends here).
            for m in 0..MGR.len() {
                if let (Some(mi), Listed::Ok(l)) = (&mut mirror[m], &st.listing[m]) {
                    if restrict(mi) != restrict(l) {
                        *mi = l.clone();
                    }
                }
            }
        }
    }
    drop(stream);
    let _ = vcommon::catch(move || drop(sys));
    result.unwrap_or_else(|| Exec::Last {
        history: vec![],
        pre: st.clone(),
        mirror_pre: mirror.clone(),
        ret: OpRet::Unit,
        post: st,
        mirror_post: mirror,
    })
}

/// The managers (other than `m`) that are present and lie strictly between MGR[m] and `path`
/// (or at `path`'s closest-manager position): true if MGR[m] is not the closest manager above `path`.
fn shadowed(m: usize, path: &str, present: &[bool]) -> bool {
    (0..MGR.len()).any(|o| o != m && present[o] && osrv::is_below(MGR[o], MGR[m]) && osrv::is_below(path, MGR[o]))
}

fn check(history: &[Op], pre: &After, mirror_pre: &[Option<Listing>], ret: &OpRet, post: &After, mirror_post: &[Option<Listing>]) -> (Vec<Violation>, String) {
    let mut out = vec![];
    let replay = json!({"history": history_json(history), "path_universe": osrv::selected_paths()});
    let hs = show_history(history);
    let op = history.last().cloned();
    let kind = op.map(|o| o.kind()).unwrap_or("init");
    let tpath = op.and_then(|o| o.path()).map(|p| PATHS[p]);
    let target: Option<Pair> = match op {
        Some(Op::At { p, i, .. }) | Some(Op::Remove { p, i }) => Some((p, i)),
        _ => None,
    };
    let s = &pre.vals;
    let ordinary_left_on_target = s.keys().any(|(q, j)| Some(PATHS[*q]) == tpath && Some((*q, *j)) != target);
    let removes_something = match op {
        Some(Op::Remove { p, i }) => s.contains_key(&(p, i)),
        Some(Op::RemoveOm { p }) => pre.listing[p].ok().is_some(),
        _ => false,
    };
    let empties_node = removes_something && !ordinary_left_on_target;
    let has_live_descendant = tpath.map(|tp| s.keys().any(|(q, _)| osrv::is_below(PATHS[*q], tp))).unwrap_or(false);
    let base = |v: Violation| {
        v.feat("op", kind)
            .feat("is_root", tpath == Some("/"))
            .feat("empties_node", empties_node)
            .feat("has_live_descendant", has_live_descendant)
    };
    let present_pre: Vec<bool> = pre.listing.iter().map(|l| l.ok().is_some()).collect();
    let present_post: Vec<bool> = post.listing.iter().map(|l| l.ok().is_some()).collect();
    let mut class = vec![format!("{kind} -> {}", match ret { OpRet::OtherErr(_) => "Err(other)".into(), r => r.show() })];
    class.push(format!("signals={}", post.sigs.len().min(3)));

    for s in &post.sigs {
        if let Sig::Odd(e) = s {
            out.push(base(Violation::new("signals-well-formed", format!("[{hs}] the collector received something it cannot apply: {e}"), replay.clone())));
        }
    }

    for m in 0..MGR.len() {
        // (1) the manager is there exactly when the history says so
        let expected = match op {
            Some(Op::AtOm { p }) if PATHS[p] == MGR[m] => true,
            Some(Op::RemoveOm { p }) if PATHS[p] == MGR[m] => false,
            _ => present_pre[m],
        };
        if let Listed::Odd(e) = &post.listing[m] {
            out.push(base(Violation::new("manager-listing-available", format!("[{hs}] GetManagedObjects at {} failed oddly: {e}", MGR[m]), replay.clone())).feat("effect", "odd-error"));
            continue;
        }
        if present_post[m] != expected {
            out.push(
                base(Violation::new(
                    "manager-listing-available",
                    format!(
                        "[{hs}] after the last operation the manager registered at {} {} although no operation {} it ({:?})",
                        MGR[m],
                        if expected { "no longer answers GetManagedObjects" } else { "answers GetManagedObjects" },
                        if expected { "removed" } else { "registered" },
                        post.listing[m]
                    ),
                    replay.clone(),
                ))
                .feat("effect", if expected { "manager-lost" } else { "manager-appeared" })
                .feat("manager_relation", tpath.map(|tp| relation(MGR[m], tp)).unwrap_or("none")),
            );
            continue;
        }
        let Some(listing) = post.listing[m].ok() else { continue };
        class.push(format!("m{m}:{}", if present_pre[m] { "tracked" } else { "started" }));

        // (2) mirror == listing
        if let (true, Some(mi)) = (present_pre[m] && mirror_pre[m].is_some(), mirror_post[m].as_ref()) {
            let (a, b) = (restrict(mi), restrict(listing));
            if a != b {
                // per differing (path, iface): effect
                let mut groups: BTreeMap<(&'static str, &'static str, bool), BTreeSet<String>> = BTreeMap::new();
                let paths: BTreeSet<&String> = a.keys().chain(b.keys()).collect();
                let empty = BTreeMap::new();
                for p in paths {
                    let (ia, ib) = (a.get(p).unwrap_or(&empty), b.get(p).unwrap_or(&empty));
                    let names: BTreeSet<&String> = ia.keys().chain(ib.keys()).collect();
                    for i in names {
                        let effect = match (ia.get(i), ib.get(i)) {
                            (Some(_), None) => "stale-in-mirror",
                            (None, Some(_)) => "missing-in-mirror",
                            (Some(x), Some(y)) if x != y => "properties-differ",
                            _ => continue,
                        };
                        let rel = tpath.map(|tp| relation(p, tp)).unwrap_or("none");
                        let nested = shadowed(m, p, &present_post) || shadowed(m, p, &present_pre);
                        groups.entry((effect, rel, nested)).or_default().insert(format!("({p} {i})"));
                    }
                }
                for ((effect, rel, nested), which) in groups {
                    let sigs: Vec<String> = post.sigs.iter().map(|s| s.show()).collect();
                    out.push(
                        base(Violation::new(
                            "mirror-equals-listing",
                            format!(
                                "[{hs}] client of the manager at {}: after applying the signals of the last operation {sigs:?} the mirror differs from GetManagedObjects: {} {effect} (object is {rel} of the operated path{})",
                                MGR[m],
                                which.into_iter().collect::<Vec<_>>().join(" "),
                                if nested { ", below a nested manager" } else { "" }
                            ),
                            replay.clone(),
                        ))
                        .feat("effect", effect)
                        .feat("relation", rel)
                        .feat("nested_manager", nested),
                    );
                }
            }
        }

        // (3) every reported interface carries its current properties
        for (p, is) in listing {
            for (i, props) in is {
                let (Some(pi), Some(ii)) = (PATHS.iter().position(|x| x == p), IFACES.iter().position(|x| x == i)) else { continue };
                let Some(val) = post.vals.get(&(pi, ii)) else { continue };
                let want: BTreeMap<String, String> = [("Val".to_string(), format!("U32({val})"))].into();
                if *props != want {
                    out.push(
                        base(Violation::new(
                            "reported-properties-current",
                            format!("[{hs}] GetManagedObjects at {} reports {p} {i} with {props:?}, the registered instance has {want:?}", MGR[m]),
                            replay.clone(),
                        ))
                        .feat("source", "listing"),
                    );
                }
            }
        }
    }
    for s in &post.sigs {
        if let Sig::Added { from, path, ifaces } = s {
            for (i, props) in ifaces {
                let (Some(pi), Some(ii)) = (PATHS.iter().position(|x| x == path), IFACES.iter().position(|x| x == i)) else { continue };
                let Some(val) = post.vals.get(&(pi, ii)) else { continue };
                let want: BTreeMap<String, String> = [("Val".to_string(), format!("U32({val})"))].into();
                if *props != want {
                    out.push(
                        base(Violation::new(
                            "reported-properties-current",
                            format!("[{hs}] InterfacesAdded from {from} reports {path} {i} with {props:?}, the registered instance has {want:?}"),
                            replay.clone(),
                        ))
                        .feat("source", "signal"),
                    );
                }
            }
        }
    }
    (out, class.join(" "))
}

pub fn main(args: &Args) -> i32 {
    if let Some(p) = &args.replay {
        return replay(p);
    }
    let report = Report::new("C25", args.tier, args.seed, "model_checking");
    let alpha = alphabet();
    let depth = args.tier.pick(4usize, 5usize);
    let states: Mutex<HashSet<u64>> = Mutex::new(HashSet::new());
    let sink = osrv::VioSink::default();
    let (transitions, histories, dead, failed_last) = (AtomicU64::new(0), AtomicU64::new(0), AtomicU64::new(0), AtomicU64::new(0));
    // Two path universes (see osrv::PATH_SETS): the first with the full alphabet; the second
    // ({/, /a, /a/b/d, /a/bc}: a managed object two levels below another with an unregistered
    // node in between, a prefix-named sibling) with one ordinary interface. The manager paths
    // / and /a have the same indices in both.
    let alpha1: Vec<Op> = alpha.iter().copied().filter(|o| !matches!(o, Op::At { i: 1, .. } | Op::Remove { i: 1, .. })).collect();
    let mut second = json!(null);
    for (universe, alpha, depth) in [(0usize, alpha.clone(), depth), (1usize, alpha1, depth)] {
    osrv::select_paths(universe);
    let before = histories.load(Relaxed);
    let total = enumerate::count_strings(alpha.len(), depth);
    osrv::par_items(total, 64, &report, &states, |n, acc| {
        let mut idx = vec![];
        enumerate::nth_string(alpha.len(), n, &mut idx);
        let h: Vec<Op> = idx
            .iter()
            .enumerate()
            .map(|(k, a)| match alpha[*a] {
                Op::At { p, i, .. } => Op::At { p, i, val: k as u32 + 1 },
                o => o,
            })
            .collect();
        match run_history(&h, false) {
            Exec::DeadPrefix(_, _) => {
                dead.fetch_add(1, Relaxed);
                acc.outcome("extends a history whose last operation panicked (pruned)");
            }
            Exec::LastFailed(why) => {
                failed_last.fetch_add(1, Relaxed);
                acc.evals += 1;
                histories.fetch_add(1, Relaxed);
                transitions.fetch_add(h.len() as u64, Relaxed);
                acc.outcome(&format!(
                    "{} -> {} (registry panics are C24's subject; world discarded)",
                    h.last().map(|o| o.kind()).unwrap_or(""),
                    why.split(':').next().unwrap_or("")
                ));
            }
            Exec::Last { history, pre, mirror_pre, ret, post, mirror_post } => {
                acc.evals += 1;
                histories.fetch_add(1, Relaxed);
                transitions.fetch_add(history.len() as u64, Relaxed);
                let (vs, class) = check(&history, &pre, &mirror_pre, &ret, &post, &mirror_post);
                acc.outcome(&class);
                let canon = |a: &After| hash64(&(a.listing.clone(), a.vals.keys().cloned().collect::<Vec<_>>()));
                acc.states.push(canon(&post));
                acc.nontrivial.push(hash64(&(
                    canon(&pre),
                    history.last().map(|o| (o.kind(), o.path())),
                    canon(&post),
                    { let mut v = post.sigs.iter().map(|s| match s { Sig::Added { from, path, ifaces } => (0, from.clone(), path.clone(), ifaces.keys().cloned().collect::<Vec<_>>()), Sig::Removed { from, path, ifaces } => (1, from.clone(), path.clone(), ifaces.clone()), Sig::Odd(_) => (2, String::new(), String::new(), vec![]) }).collect::<Vec<_>>(); v.sort(); v },
                )));
                if hash64(&n) % (total as u64 / 10).max(1) == 0 {
                    report.sample(json!({
                        "history": show_history(&history),
                        "signals_of_last_step": post.sigs.iter().map(|s| s.show()).collect::<Vec<_>>(),
                        "listings": post.listing.iter().enumerate().map(|(m, l)| json!({"manager": MGR[m], "listing": match l { Listed::Ok(l) => json!(restrict(l)), Listed::NoManager(e) => json!(format!("none ({e})")), Listed::Odd(e) => json!(format!("odd {e}")) }})).collect::<Vec<_>>(),
                        "violations": vs.len(),
                    }));
                }
                for v in vs {
                    sink.push(&report, v);
                }
            }
        }
    });
    if universe == 1 {
        second = json!({"paths": osrv::PATH_SETS[1], "alphabet": alpha.iter().map(|o| o.show()).collect::<Vec<_>>(), "full_tree_depth": depth, "full_tree_histories": histories.load(Relaxed) - before});
    }
    }
    osrv::select_paths(0);
    report.set("second_universe", second);
    report.set("violating_transitions", json!(sink.total()));
    report.set("violating_transitions_by_identity", sink.summary());
    report.set("full_tree_depth", json!(depth));
    report.set("states", json!(states.lock().unwrap().len()));
    report.set("states_meaning", json!("distinct (listing of either manager incl. property values, registered pairs) observations"));
    report.set("transitions", json!(transitions.load(Relaxed)));
    report.set("traces_validated_against_impl", json!(histories.load(Relaxed)));
    report.set("histories_pruned_after_panic", json!(dead.load(Relaxed)));
    report.set("histories_whose_last_operation_panicked", json!(failed_last.load(Relaxed)));
    report.set("alphabet", json!(alpha.iter().map(|o| o.show()).collect::<Vec<_>>()));
    report.assume("each transition is one API call followed by running every task of both connections until nothing is enabled; signals are collected by a MessageStream on the client and drained after every step");
    report.assume("a client whose mirror diverged at an earlier step is restarted from the listing, so every verdict concerns the last transition of its history; every prefix is itself an enumerated history");
    report.assume("histories whose last registry operation panics are recorded as an outcome class and not judged here (the statement of C25 is silent on panics; they are C24's finding)");
    report.finish(
        "every history over the alphabet up to the depth bound is executed on a fresh real connection pair; non-trivial = distinct (observed pre-state, operation, observed post-state, signals received) tuples",
        true,
    )
}

fn replay(path: &str) -> i32 {
    let v = vcommon::load_replay(path);
    if let Some(u) = v["replay"]["path_universe"].as_u64().or(v["path_universe"].as_u64()) {
        osrv::select_paths(u as usize);
    }
    let parse = || history_from_json(&v["replay"]["history"]).or_else(|| history_from_json(&v["history"]));
    let hist = parse()
        .or_else(|| {
            osrv::select_paths(1);
            parse()
        })
        .unwrap_or_else(|| vcommon::machinery_failure("replay file has no history"));
    println!("path universe: {:?}", osrv::PATH_SETS[osrv::selected_paths()]);
    println!("history: {}", show_history(&hist));
    match run_history(&hist, true) {
        Exec::DeadPrefix(k, why) => {
            println!("step {} failed: {why}", k + 1);
            1
        }
        Exec::LastFailed(why) => {
            println!("the last operation failed: {why}");
            1
        }
        Exec::Last { history, pre, mirror_pre, ret, post, mirror_post } => {
            let (vs, _) = check(&history, &pre, &mirror_pre, &ret, &post, &mirror_post);
            println!("replay: {} violation(s) on the last transition", vs.len());
            (!vs.is_empty()) as i32
        }
    }
}

#[allow(unused)]
fn _unused(_: I1, _: I2) {}
