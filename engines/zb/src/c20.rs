//! C20 — message streams deliver every matching message once, in order; equal rules share one
//! subscription that lives until the last stream for it is dropped.
//!
//! Part A (E-bfs): the full tree of operation histories (create / clone / drop / inbound message /
//! poll) up to a depth, every history executed on a real connection, compared with a list model.
//! Part B (E-sched): consumers as tasks, small queue capacities (back-pressure on the socket
//! reader), fan-out order rotations, all schedules up to a deviation bound.

use std::sync::Mutex;

use futures_lite::StreamExt;
use serde_json::{json, Value as J};
use vcommon::{hash64, Args, Report, Tier, Violation};
use zbus::{connection::Builder, Connection, MatchRule, Message, MessageStream};

use crate::{
    explore::ExecResult,
    sched::{finish_model_checking, run_scenario, v, SchedPlan, Totals},
    world::{Handle, Link, SockCfg, Step, World, GUID},
};

#[derive(Clone, Copy, Debug, PartialEq, Eq, Hash, PartialOrd, Ord)]
enum Op {
    /// 0 = rule R1 (interface a.b, member S1), 1 = rule R2 (interface a.b), 2 = unfiltered
    Create(u8),
    Clone(u8),
    Drop(u8),
    /// `AsyncDrop::async_drop` (the removal is awaited instead of being queued)
    AsyncDrop(u8),
    /// 0 = S1 (matches R1 and R2), 1 = S2 (matches R2), 2 = X on c.d (matches neither)
    Msg(u8),
    Poll(u8),
}

fn rule(k: u8) -> Option<MatchRule<'static>> {
    match k {
        0 => Some(
            MatchRule::builder()
                .msg_type(zbus::message::Type::Signal)
                .interface("a.b")
                .unwrap()
                .member("S1")
                .unwrap()
                .build(),
        ),
        1 => Some(
            MatchRule::builder()
                .msg_type(zbus::message::Type::Signal)
                .interface("a.b")
                .unwrap()
                .build(),
        ),
        _ => None,
    }
}

fn matches(kind: u8, msg: u8) -> bool {
    match kind {
        0 => msg == 0,
        1 => msg == 0 || msg == 1,
        _ => true,
    }
}

fn mk_msg(k: u8, n: u32) -> Message {
    match k {
        0 => Message::signal("/p", "a.b", "S1").unwrap().build(&(n,)).unwrap(),
        1 => Message::signal("/p", "a.b", "S2").unwrap().build(&(n,)).unwrap(),
        _ => Message::signal("/p", "c.d", "X").unwrap().build(&(n,)).unwrap(),
    }
}

/// Reference model of one stream.
#[derive(Clone, Debug)]
struct MStream {
    kind: u8,
    alive: bool,
    /// ids of messages that arrived while subscribed (must be yielded, in order)
    required: Vec<u32>,
    /// ids that arrived before this stream existed but may legitimately still be queued for it
    /// (a clone starts at its original's read position)
    optional_before: Vec<u32>,
    is_clone: bool,
}

#[derive(Clone, Debug, Default)]
struct Model {
    streams: Vec<MStream>,
    msgs: Vec<u8>, // kind by id
    /// a clone of a stream with this rule kind was dropped while another stream with the same
    /// rule was alive
    clone_dropped_while_shared: bool,
    any_clone: bool,
}

impl Model {
    fn apply(&mut self, op: Op, unyielded: &dyn Fn(usize) -> Vec<u32>) {
        match op {
            Op::Create(k) => self.streams.push(MStream {
                kind: k,
                alive: true,
                required: vec![],
                optional_before: vec![],
                is_clone: false,
            }),
            Op::Clone(i) => {
                let src = self.streams[i as usize].clone();
                self.any_clone = true;
                self.streams.push(MStream {
                    kind: src.kind,
                    alive: true,
                    required: vec![],
                    optional_before: unyielded(i as usize),
                    is_clone: true,
                });
            }
            Op::Drop(i) | Op::AsyncDrop(i) => {
                let s = &self.streams[i as usize];
                let kind = s.kind;
                let shared = self
                    .streams
                    .iter()
                    .enumerate()
                    .any(|(j, o)| j != i as usize && o.alive && o.kind == kind);
                if shared && kind != 2 && (s.is_clone || self.streams.iter().any(|o| o.is_clone && o.kind == kind)) {
                    self.clone_dropped_while_shared = true;
                }
                self.streams[i as usize].alive = false;
            }
            Op::Msg(k) => {
                let id = self.msgs.len() as u32;
                self.msgs.push(k);
                for s in self.streams.iter_mut() {
                    if s.alive && matches(s.kind, k) {
                        s.required.push(id);
                    }
                }
            }
            Op::Poll(_) => {}
        }
    }
    fn enabled(&self, max_streams: usize, max_msgs: usize) -> Vec<Op> {
        let mut v = vec![];
        let total = self.streams.len();
        if total < max_streams {
            for k in 0..3 {
                v.push(Op::Create(k));
            }
            for (i, s) in self.streams.iter().enumerate() {
                if s.alive {
                    v.push(Op::Clone(i as u8));
                }
            }
        }
        for (i, s) in self.streams.iter().enumerate() {
            if s.alive {
                v.push(Op::Drop(i as u8));
                v.push(Op::AsyncDrop(i as u8));
            }
        }
        if self.msgs.len() < max_msgs {
            for k in 0..3 {
                v.push(Op::Msg(k));
            }
        }
        for (i, s) in self.streams.iter().enumerate() {
            if s.alive && !s.required.is_empty() {
                v.push(Op::Poll(i as u8));
            }
        }
        v
    }
}

fn msg_id(m: &Message) -> u32 {
    m.body().deserialize::<(u32,)>().map(|t| t.0).unwrap_or(u32::MAX)
}

struct RunOut {
    yielded: Vec<Vec<u32>>,
    ended: Vec<bool>,
    errors: Vec<String>,
    panic: Option<String>,
}

async fn drain(s: &mut MessageStream, out: &mut Vec<u32>, ended: &mut bool) {
    loop {
        match futures_lite::future::poll_once(s.next()).await {
            Some(Some(Ok(m))) => out.push(msg_id(&m)),
            Some(Some(Err(_))) => out.push(u32::MAX - 1),
            Some(None) => {
                *ended = true;
                break;
            }
            None => break,
        }
        if out.len() > 64 {
            break;
        }
    }
}

fn run_history(hist: &[Op], cap: usize) -> (RunOut, Model) {
    let mut model = Model::default();
    let r = vcommon::catch(|| {
        let mut w = World::new();
        let link = Link::new();
        let sock = link.end_a(SockCfg::default());
        let conn: Connection = w
            .complete("build", async move {
                Builder::authenticated_socket(sock, GUID)
                    .unwrap()
                    .p2p()
                    .internal_executor(false)
                    .build()
                    .await
                    .unwrap()
            })
            .expect("build");
        let mut streams: Vec<Option<MessageStream>> = vec![];
        let mut yielded: Vec<Vec<u32>> = vec![];
        let mut ended: Vec<bool> = vec![];
        let mut errors = vec![];
        let mut m = Model::default();
        for op in hist {
            {
                let y = &yielded;
                let mm = m.clone();
                m.apply(*op, &|i| {
                    mm.streams[i]
                        .required
                        .iter()
                        .chain(mm.streams[i].optional_before.iter())
                        .filter(|id| !y[i].contains(id))
                        .cloned()
                        .collect()
                });
            }
            match *op {
                Op::Create(k) => {
                    let c = conn.clone();
                    // every other stream gets its (equal) rule by another route: parsed from a
                    // string with the keys in another order instead of built
                    let alt = streams.len() % 2 == 1;
                    // a stream that JOINS a live subscription (an equal rule is subscribed) asks for
                    // a smaller queue than the subscription has: the shared queue must not shrink
                    // (it holds the other streams' unread messages)
                    let joins = m.streams[..m.streams.len() - 1].iter().any(|s| s.alive && s.kind == k);
                    let cap = if joins { 1 } else { cap };
                    let s = w.complete("create", async move {
                        match rule(k) {
                            Some(r) if alt => {
                                let text = match k {
                                    0 => "member='S1',interface='a.b',type='signal'",
                                    _ => "interface='a.b',type='signal'",
                                };
                                // (whether the string form reads back as the same rule is C22's
                                // business: fall back to the built rule if it does not)
                                let parsed = MatchRule::try_from(text).map(|p| p.into_owned()).ok().filter(|p| *p == r).unwrap_or(r);
                                MessageStream::for_match_rule(parsed, &c, Some(cap)).await
                            }
                            Some(r) => MessageStream::for_match_rule(r, &c, Some(cap)).await,
                            None => Ok(MessageStream::from(&c)),
                        }
                    });
                    match s {
                        Some(Ok(s)) => streams.push(Some(s)),
                        Some(Err(e)) => {
                            errors.push(format!("create: {e}"));
                            streams.push(None)
                        }
                        None => {
                            errors.push("create did not complete".into());
                            streams.push(None)
                        }
                    }
                    yielded.push(vec![]);
                    ended.push(false);
                }
                Op::Clone(i) => {
                    let c = streams[i as usize].as_ref().map(|s| s.clone());
                    streams.push(c);
                    yielded.push(vec![]);
                    ended.push(false);
                    w.settle();
                }
                Op::Drop(i) => {
                    streams[i as usize] = None;
                    w.settle();
                }
                Op::AsyncDrop(i) => {
                    if let Some(s) = streams[i as usize].take() {
                        use zbus::AsyncDrop;
                        if w.complete("async-drop", async move { s.async_drop().await }).is_none() {
                            errors.push("async_drop did not complete".into());
                        }
                    }
                }
                Op::Msg(k) => {
                    let id = (m.msgs.len() - 1) as u32;
                    link.b2a.push(mk_msg(k, id).data().bytes(), vec![]);
                    w.settle();
                }
                Op::Poll(i) => {
                    if let Some(mut s) = streams[i as usize].take() {
                        let mut out = vec![];
                        let mut e = false;
                        let r = w.complete("poll", async move {
                            drain(&mut s, &mut out, &mut e).await;
                            (s, out, e)
                        });
                        if let Some((s, out, e)) = r {
                            streams[i as usize] = Some(s);
                            yielded[i as usize].extend(out);
                            ended[i as usize] |= e;
                        }
                    }
                }
            }
        }
        // final: keep polling every live stream until nothing moves
        for _ in 0..8 {
            let mut progress = false;
            for i in 0..streams.len() {
                if let Some(mut s) = streams[i].take() {
                    let mut out = vec![];
                    let mut e = false;
                    let r = w.complete("final-poll", async move {
                        drain(&mut s, &mut out, &mut e).await;
                        (s, out, e)
                    });
                    if let Some((s, out, e)) = r {
                        streams[i] = Some(s);
                        progress |= !out.is_empty();
                        yielded[i].extend(out);
                        ended[i] |= e;
                    }
                }
            }
            w.settle();
            if !progress {
                break;
            }
        }
        drop(streams);
        drop(conn);
        (yielded, ended, errors, m)
    });
    match r {
        Ok((yielded, ended, errors, m)) => {
            model = m;
            (
                RunOut {
                    yielded,
                    ended,
                    errors,
                    panic: None,
                },
                model,
            )
        }
        Err(p) => (
            RunOut {
                yielded: vec![],
                ended: vec![],
                errors: vec![],
                panic: Some(format!("{p} at {}", vcommon::last_panic_location())),
            },
            model,
        ),
    }
}

fn judge(hist: &[Op], out: &RunOut, model: &Model, report: &Report, cap: usize) {
    let case = json!({"history": hist.iter().map(|o| format!("{o:?}")).collect::<Vec<_>>(), "cap": cap});
    let mk = |clause: &str, detail: String| {
        Violation::new(clause, detail, case.clone())
            .feat("clone_dropped_while_rule_shared", model.clone_dropped_while_shared)
    };
    if let Some(p) = &out.panic {
        report.outcome("panic");
        report.violation(mk("no-panic", format!("panic: {p}; history {case}")));
        return;
    }
    if !out.errors.is_empty() {
        report.violation(mk("stream-creation", format!("{:?}; history {case}", out.errors)));
    }
    let mut ok = true;
    for (i, s) in model.streams.iter().enumerate() {
        if !s.alive {
            continue;
        }
        let y = &out.yielded[i];
        // required ⊆ yielded, in order, once; everything yielded matches the rule and is known
        let mut dup = false;
        for (a, id) in y.iter().enumerate() {
            if y[..a].contains(id) {
                dup = true;
            }
        }
        let allowed: Vec<u32> = s.optional_before.iter().chain(s.required.iter()).cloned().collect();
        let extra: Vec<u32> = y.iter().filter(|id| !allowed.contains(id)).cloned().collect();
        let missing: Vec<u32> = s.required.iter().filter(|id| !y.contains(id)).cloned().collect();
        let order_ok = {
            let mut sorted = y.clone();
            sorted.sort();
            sorted == *y
        };
        if dup {
            ok = false;
            report.violation(mk("exactly-once", format!("stream {i} yielded a message twice: {y:?}; history {case}")));
        }
        if !extra.is_empty() {
            ok = false;
            report.violation(mk(
                "only-matching-messages",
                format!("stream {i} (rule kind {}) yielded {extra:?} which do not match its rule / were never sent; history {case}", s.kind),
            ));
        }
        if !missing.is_empty() {
            ok = false;
            report.violation(mk(
                "every-matching-message",
                format!(
                    "stream {i} (rule kind {}) never yielded {missing:?} (yielded {y:?}, ended={}) although it was subscribed when they arrived and was polled to quiescence; history {case}",
                    s.kind, out.ended[i]
                ),
            ));
        }
        if !order_ok {
            ok = false;
            report.violation(mk("arrival-order", format!("stream {i} yielded out of arrival order: {y:?}; history {case}")));
        }
    }
    report.outcome(if ok { "delivered-as-model" } else { "deviates" });
}

/// Enumerate every history of ≤ `depth` operations (only those that deliver at least one message
/// are run) without materialising the tree: the tree is split at `split` operations, the
/// subtrees are walked in parallel, `f` is called on every history.
fn for_each_history(depth: usize, max_streams: usize, max_msgs: usize, f: &(dyn Fn(&[Op]) + Sync)) -> u64 {
    fn rec(h: &mut Vec<Op>, m: &Model, depth: usize, ms: usize, mm: usize, f: &dyn Fn(&[Op]), n: &mut u64, stop_at: Option<usize>, roots: &mut Vec<(Vec<Op>, Model)>) {
        if h.iter().any(|o| matches!(o, Op::Msg(_))) {
            f(h);
            *n += 1;
        }
        if h.len() == depth {
            return;
        }
        if Some(h.len()) == stop_at {
            roots.push((h.clone(), m.clone()));
            return;
        }
        for op in m.enabled(ms, mm) {
            let mut m2 = m.clone();
            m2.apply(op, &|_| vec![]);
            h.push(op);
            rec(h, &m2, depth, ms, mm, f, n, stop_at, roots);
            h.pop();
        }
    }
    let split = 2.min(depth);
    let mut roots = vec![];
    let mut n = 0u64;
    // histories shorter than the split point, and the subtree roots
    rec(&mut vec![], &Model::default(), depth, max_streams, max_msgs, f, &mut n, Some(split), &mut roots);
    let total = std::sync::atomic::AtomicU64::new(n);
    vcommon::par_for(roots.len(), 1, |i| {
        let (h, m) = &roots[i];
        let mut h = h.clone();
        let mut n = 0u64;
        let mut none = vec![];
        // the root itself was already visited above: walk its children only
        for op in m.enabled(max_streams, max_msgs) {
            let mut m2 = m.clone();
            m2.apply(op, &|_| vec![]);
            h.push(op);
            rec(&mut h, &m2, depth, max_streams, max_msgs, f, &mut n, None, &mut none);
            h.pop();
        }
        total.fetch_add(n, std::sync::atomic::Ordering::Relaxed);
    });
    total.load(std::sync::atomic::Ordering::Relaxed)
}

// ---------------------------------------------------------------------------------------------
// Part B: schedules with back-pressure
// ---------------------------------------------------------------------------------------------

#[derive(Clone, Copy, Debug)]
struct SParams {
    cap: usize,
    n_msgs: usize,
    rotation: usize,
    with_unfiltered: bool,
}

fn sched_scenario(p: SParams) -> ExecResult {
    let mut w = World::new();
    w.horizon = 400;
    zbus::verif::set_fanout_rotation(p.rotation);
    let link = Link::new();
    let sock = link.end_a(SockCfg::default());
    let conn: Connection = w
        .complete("build", async move {
            Builder::authenticated_socket(sock, GUID)
                .unwrap()
                .p2p()
                .internal_executor(false)
                .build()
                .await
                .unwrap()
        })
        .expect("build");
    // two rule streams + optionally the unfiltered one, created before any message
    let kinds: Vec<u8> = if p.with_unfiltered { vec![0, 1, 2] } else { vec![0, 1] };
    let mut consumers: Vec<(u8, Handle<(Vec<u32>, MessageStream)>)> = vec![];
    let events: std::sync::Arc<Mutex<Vec<String>>> = Default::default();
    let cap = p.cap;
    let mut streams = vec![];
    for k in &kinds {
        let c = conn.clone();
        let k = *k;
        let s = w
            .complete("create", async move {
                match rule(k) {
                    Some(r) => MessageStream::for_match_rule(r, &c, Some(cap)).await.unwrap(),
                    None => {
                        let mut s = MessageStream::from(&c);
                        let _ = &mut s;
                        s
                    }
                }
            })
            .expect("create");
        streams.push((k, s));
    }
    // message kinds sent: alternate S1, S2, S1, ...
    let sent: Vec<u8> = (0..p.n_msgs).map(|i| (i % 2) as u8).collect();
    for (k, mut s) in streams {
        let want = sent.iter().filter(|m| matches(k, **m)).count();
        let ev = events.clone();
        consumers.push((
            k,
            w.spawn(&format!("consumer-kind{k}"), async move {
                let mut got = vec![];
                while got.len() < want {
                    match s.next().await {
                        Some(Ok(m)) => {
                            ev.lock().unwrap().push(format!("kind{k} <- {}", msg_id(&m)));
                            got.push(msg_id(&m))
                        }
                        Some(Err(_)) => got.push(u32::MAX - 1),
                        None => break,
                    }
                }
                // keep the stream alive until the end of the execution (it is returned with
                // the result and dropped with the handle)
                (got, s)
            }),
        ));
    }
    let mut next = 0usize;
    loop {
        let env = (next < sent.len()) as usize;
        match w.step(env) {
            Step::Ran(_) => {}
            Step::Env(_) => {
                link.b2a.push(mk_msg(sent[next], next as u32).data().bytes(), vec![]);
                events.lock().unwrap().push(format!("inbound {next}"));
                next += 1;
            }
            _ => break,
        }
    }
    let mut res = ExecResult {
        capped: w.hit_horizon,
        steps: w.steps,
        ..Default::default()
    };
    for (k, h) in &consumers {
        let want: Vec<u32> = sent
            .iter()
            .enumerate()
            .filter(|(_, m)| matches(*k, **m))
            .map(|(i, _)| i as u32)
            .collect();
        match h.take() {
            Some((got, _stream)) => {
                w.obs(format!("kind{k} got {got:?}"));
                if got != want {
                    res.violations.push(
                        v("every-matching-message", format!("consumer of rule kind {k} got {got:?}, expected {want:?}"))
                            .feat("clone_dropped_while_rule_shared", false)
                            .feat("sched", true),
                    );
                }
            }
            None => {
                if !w.hit_horizon && next == sent.len() {
                    res.violations.push(
                        v("every-matching-message", format!("consumer of rule kind {k} is stuck although all {} messages were delivered to the socket and it keeps polling; trace={:?}", sent.len(), w.trace))
                            .feat("clone_dropped_while_rule_shared", false)
                            .feat("sched", true),
                    );
                }
            }
        }
    }
    res.log = events.lock().unwrap().clone();
    res.log.extend(std::mem::take(&mut w.log));
    drop(conn);
    res
}

pub fn main(args: &Args) -> i32 {
    if let Some(p) = &args.replay {
        let j = vcommon::load_replay(p);
        if j["replay"]["scenario"].is_string() {
            return crate::sched::replay(p, |_, j| {
                let sp = SParams {
                    cap: j["cap"].as_u64().unwrap_or(1) as usize,
                    n_msgs: j["n_msgs"].as_u64().unwrap_or(3) as usize,
                    rotation: j["rotation"].as_u64().unwrap_or(0) as usize,
                    with_unfiltered: j["with_unfiltered"].as_bool().unwrap_or(false),
                };
                Some(Box::new(move || sched_scenario(sp)))
            });
        }
        let case = if j["replay"]["case"].is_null() { &j["replay"] } else { &j["replay"]["case"] };
        println!("replay of {case}");
        if let Some(h) = case["history"].as_array() {
            let hist: Vec<Op> = h.iter().map(|s| parse_op(s.as_str().unwrap())).collect();
            let cap = case["cap"].as_u64().unwrap_or(2) as usize;
            let (out, model) = run_history(&hist, cap);
            for (i, s) in model.streams.iter().enumerate() {
                println!(
                    "stream {i}: kind={} alive={} required={:?} yielded={:?} ended={:?}",
                    s.kind,
                    s.alive,
                    s.required,
                    out.yielded.get(i),
                    out.ended.get(i)
                );
            }
            println!("panic={:?} errors={:?}", out.panic, out.errors);
        }
        return 0;
    }
    let report = Report::new("C20", args.tier, args.seed, "model_checking");
    // Part A
    let depth = args.tier.pick(5, 6);
    // capacity ≥ number of messages: no back-pressure in part A, so a message *arrives* (is read by
    // the socket reader) in the step that delivers it; back-pressure is part B's subject
    let cap = 4usize;
    let caps = vec![cap];
    let transitions = std::sync::atomic::AtomicU64::new(0);
    let states = Mutex::new(std::collections::HashSet::new());
    let nontrivial = Mutex::new(std::collections::HashSet::new());
    let n_hist = for_each_history(depth, 3, 3, &|h: &[Op]| {
        let (out, model) = run_history(h, cap);
        report.eval(1);
        judge(h, &out, &model, &report, cap);
        transitions.fetch_add(h.len() as u64, std::sync::atomic::Ordering::Relaxed);
        let st = hash64(&(format!("{:?}", model.streams.iter().map(|s| (s.kind, s.alive, &s.required)).collect::<Vec<_>>()), &out.yielded));
        states.lock().unwrap().insert(st);
        if h.iter().any(|o| matches!(o, Op::Clone(_) | Op::Drop(_) | Op::AsyncDrop(_))) {
            nontrivial.lock().unwrap().insert(hash64(&(h, cap)));
        }
        if report.n_samples() < 2 && h.len() == depth {
            report.sample(json!({"history": h.iter().map(|o| format!("{o:?}")).collect::<Vec<_>>()}));
        }
    });
    report.set("part_a_histories_with_clone_or_drop", json!(nontrivial.lock().unwrap().len()));
    let hs_len = n_hist;
    let bfs_execs = report.evaluations();
    let bfs_states = states.lock().unwrap().len() as u64;
    let bfs_transitions = transitions.load(std::sync::atomic::Ordering::Relaxed);
    // Part B
    let totals = Mutex::new(Totals::default());
    let quick = args.tier == Tier::Quick;
    for (name, p) in [
        ("backpressure-cap1", SParams { cap: 1, n_msgs: 4, rotation: 0, with_unfiltered: false }),
        ("backpressure-cap1-rot1", SParams { cap: 1, n_msgs: 4, rotation: 1, with_unfiltered: false }),
        ("backpressure-cap1-rot2", SParams { cap: 1, n_msgs: 3, rotation: 2, with_unfiltered: true }),
        ("backpressure-cap2-unfiltered", SParams { cap: 2, n_msgs: 4, rotation: 3, with_unfiltered: true }),
    ] {
        let plan = SchedPlan {
            bounds: if quick { vec![Some(4)] } else { vec![Some(6), Some(7)] },
            max_execs: args.tier.pick(2_000_000, 50_000_000),
            time_budget_s: args.tier.pick(120.0, 600.0),
        };
        run_scenario(
            &report,
            &totals,
            name,
            json!({"cap": p.cap, "n_msgs": p.n_msgs, "rotation": p.rotation, "with_unfiltered": p.with_unfiltered}),
            &plan,
            move || sched_scenario(p),
        );
    }
    {
        let mut t = totals.lock().unwrap();
        t.execs += bfs_execs;
        t.states += bfs_states;
        t.transitions += bfs_transitions;
        t.distinct_logs += bfs_states;
        t.scenarios.push(json!({"part": "A: full history tree", "depth": depth, "histories": hs_len, "queue_capacities": caps,
            "alphabet": "create(R1|R2|unfiltered), clone(i), drop(i), async_drop(i), inbound(S1|S2|X), poll(i); ≤3 streams, ≤3 messages; only histories with ≥1 message",
            "executions": bfs_execs, "distinct_model_state_and_observation": bfs_states}));
    }
    report.assume("p2p connection (no AddMatch traffic; bus-side registrations are C37)");
    report.assume("a clone starts at its original's read position, so messages still queued for the original may legitimately reach the clone too (allowed, not required)");
    finish_model_checking(
        &report,
        &totals,
        "A: every history of ≤depth operations over the alphabet, each op run to quiescence on the default schedule, streams drained at the end; B: consumer tasks with queue capacity 1–2 and rotated fan-out order under all schedules up to the completed deviation bound",
    )
}

fn parse_op(s: &str) -> Op {
    let n: u8 = s.chars().filter(|c| c.is_ascii_digit()).collect::<String>().parse().unwrap_or(0);
    if s.starts_with("Create") {
        Op::Create(n)
    } else if s.starts_with("Clone") {
        Op::Clone(n)
    } else if s.starts_with("AsyncDrop") {
        Op::AsyncDrop(n)
    } else if s.starts_with("Drop") {
        Op::Drop(n)
    } else if s.starts_with("Msg") {
        Op::Msg(n)
    } else {
        Op::Poll(n)
    }
}

#[allow(unused)]
fn unused(_: J) {}
