//! C20 — not built yet.
use vcommon::Args;

pub fn main(_args: &Args) -> i32 {
    vcommon::machinery_failure("C20: check not built yet")
}
