//! C36 — well-known name bookkeeping follows the bus.
//!
//! Space: the FULL tree of operation/event histories up to a depth bound (no state merging: the
//! connection's `registered_names` map and its monitor tasks are not observable without
//! perturbing them). Every history is executed from scratch on a real zbus *bus* connection that
//! faces the consistent fake bus of `fakebus.rs`.
//!
//! Alphabet per name (10 symbols):
//!   request_name_with_flags(N, f) for f ∈ {∅, AllowReplacement, DoNotQueue, ReplaceExisting},
//!   release_name(N),
//!   peer :1.5 requests N with ReplaceExisting|AllowReplacement (becomes a replaceable owner if it
//!     can take the name, else is queued behind us), peer :1.5 requests N with ReplaceExisting
//!     (firm owner), peer :1.5 releases N (→ genuine NameAcquired if we are next in the queue),
//!   forged NameLost(N) / NameAcquired(N): same path/interface/member/body as the driver's signal,
//!     sent by peer :1.9 as a unicast to us (the bus stamps `:1.9` as sender).
//! Two more symbols per name (alphabet of 12) put a bus event INSIDE an operation instead of
//! between operations:
//!   request(N, AllowReplacement) with peer :1.5's RequestName(N, ReplaceExisting) processed by the
//!     bus immediately after it granted ours (reply 1 or 4) — the driver's NameLost(N) travels
//!     right behind our RequestName reply, before the bus answers any further call of ours;
//!   request(N) with peer :1.5's ReleaseName(N) processed immediately after ours was queued
//!     (reply 2) — the driver's NameAcquired(N) travels right behind the InQueue reply.
//! After the last operation every name is probed once with release_name.
//!
//! Oracle (only what the statement says). Reference = what the bus has told the connection:
//! `told[N]` ∈ {none, owner, queued}, derived from the fake bus's name table after every bus
//! transition (our RequestName/ReleaseName replies, the driver's NameLost/NameAcquired to us).
//!   * request: told = owner ⇒ AlreadyOwner; told = queued ⇒ InQueue; told = none ⇒ the result is
//!     the bus's reply to the RequestName this call must have sent (answering locally from stale
//!     state is a violation).
//!   * release: true ⇔ told ∈ {owner, queued}.
//!   * forged signals never enter `told`; a violation that disappears when the forged events of
//!     the history are removed is attributed to them (clause only-driver-signals-change-state).
//! One situation is deliberately NOT judged because the statement is silent on it: when we are
//! replaced as owner without DoNotQueue the bus silently keeps us in the queue (it only says
//! NameLost); `told` is `none` then and a release result is not checked until the bus speaks
//! again.

use serde_json::{json, Value};
use vcommon::{catch, hash64, Args, Report, Violation};
use zbus::fdo::{RequestNameFlags, RequestNameReply};

use crate::{
    fakebus::{self, Armed, Bus, F_ALLOW, F_NOQUEUE, F_REPLACE, US},
    world::World,
};

// the second name lies in the first's namespace (arg0namespace='x.y.N' matches both; arg0 does not)
const NAMES: [&str; 2] = ["x.y.N", "x.y.N.M"];
const OTHER: &str = ":1.5";
const FORGER: &str = ":1.9";
/// Symbols per name: 0..10 place events between operations, 10 and 11 inside a request.
const BASE_KINDS: usize = 10;
const ALL_KINDS: usize = 12;
/// Stride of the op encoding in replay artefacts.
const CODE_STRIDE: usize = 16;

type Flags = <RequestNameFlags as std::ops::BitOr>::Output;

fn mk_flags(bits: u32) -> Flags {
    // (the `Default` of this flag set is all three flags, so build the empty set explicitly)
    let mut f: Flags = RequestNameFlags::AllowReplacement & RequestNameFlags::DoNotQueue;
    if bits & F_ALLOW != 0 {
        f = f | RequestNameFlags::AllowReplacement;
    }
    if bits & F_REPLACE != 0 {
        f = f | RequestNameFlags::ReplaceExisting;
    }
    if bits & F_NOQUEUE != 0 {
        f = f | RequestNameFlags::DoNotQueue;
    }
    f
}

#[derive(Clone, Copy, PartialEq, Eq, Debug, Hash)]
enum Kind {
    /// flags, race: 0 = none, 1 = the peer takes the name right behind our grant, 2 = the peer
    /// releases the name right behind our InQueue reply
    Req(u32, u8),
    Release,
    PeerTakes(u32),
    PeerReleases,
    ForgedLost,
    ForgedAcquired,
}

#[derive(Clone, Copy, PartialEq, Eq, Debug, Hash)]
struct Op {
    kind: Kind,
    name: usize,
}

fn decode_kind(k: usize, name: usize) -> Op {
    let kind = match k {
        0 => Kind::Req(0, 0),
        1 => Kind::Req(F_ALLOW, 0),
        2 => Kind::Req(F_NOQUEUE, 0),
        3 => Kind::Req(F_REPLACE, 0),
        4 => Kind::Release,
        5 => Kind::PeerTakes(F_REPLACE | F_ALLOW),
        6 => Kind::PeerTakes(F_REPLACE),
        7 => Kind::PeerReleases,
        8 => Kind::ForgedLost,
        9 => Kind::ForgedAcquired,
        10 => Kind::Req(F_ALLOW, 1),
        _ => Kind::Req(0, 2),
    };
    Op { kind, name }
}

fn kind_index(k: &Kind) -> usize {
    (0..ALL_KINDS).find(|i| decode_kind(*i, 0).kind == *k).unwrap_or(0)
}

/// Replay encoding: name * 16 + symbol.
fn decode(code: usize) -> Op {
    decode_kind(code % CODE_STRIDE, code / CODE_STRIDE)
}

fn label(op: &Op) -> String {
    let n = NAMES[op.name];
    match op.kind {
        Kind::Req(_, 1) => format!("request({n},AllowReplacement)+peer-takes-firm-right-behind-grant"),
        Kind::Req(_, 2) => format!("request({n})+peer-releases-right-behind-InQueue"),
        Kind::Req(0, _) => format!("request({n})"),
        Kind::Req(F_ALLOW, _) => format!("request({n},AllowReplacement)"),
        Kind::Req(F_NOQUEUE, _) => format!("request({n},DoNotQueue)"),
        Kind::Req(F_REPLACE, _) => format!("request({n},ReplaceExisting)"),
        Kind::Req(x, _) => format!("request({n},{x})"),
        Kind::Release => format!("release({n})"),
        Kind::PeerTakes(f) if f & F_ALLOW != 0 => format!("peer-takes-replaceable({n})"),
        Kind::PeerTakes(_) => format!("peer-takes-firm({n})"),
        Kind::PeerReleases => format!("peer-releases({n})"),
        Kind::ForgedLost => format!("forged-NameLost({n})"),
        Kind::ForgedAcquired => format!("forged-NameAcquired({n})"),
    }
}

#[derive(Clone, Copy, PartialEq, Eq, Debug, Hash)]
enum Told {
    None,
    Owner,
    Queued,
}

#[derive(Clone, Copy, PartialEq, Eq, Debug)]
enum Cause {
    OwnRequest,
    OwnRelease,
    Peer,
}

/// What the bus has told the connection, per name.
#[derive(Clone, Debug, Hash, PartialEq, Eq)]
struct Ref {
    told: [Told; 2],
    /// The bus keeps us in the queue after a replacement but never said so.
    implicit: [bool; 2],
    /// How the current grant/queueing was communicated.
    via: [&'static str; 2],
}

impl Ref {
    fn new() -> Self {
        Self {
            told: [Told::None; 2],
            implicit: [false; 2],
            via: ["-"; 2],
        }
    }
    fn resync(&mut self, bus: &Bus, i: usize, cause: Cause) {
        self.resync_pos(bus.names.position(NAMES[i], US), i, cause)
    }
    /// `pos` = our position in the bus's queue for the name (0 = primary owner).
    fn resync_pos(&mut self, pos: Option<usize>, i: usize, cause: Cause) {
        let before = self.told[i];
        let was_implicit = self.implicit[i];
        match pos {
            Some(0) => {
                if before != Told::Owner {
                    self.via[i] = match cause {
                        Cause::OwnRequest => "request-reply",
                        _ if before == Told::Queued => "acquired-signal-while-queued",
                        _ if was_implicit => "acquired-signal-after-replacement",
                        _ => "acquired-signal",
                    };
                }
                self.told[i] = Told::Owner;
                self.implicit[i] = false;
            }
            Some(_) => match cause {
                Cause::OwnRequest => {
                    self.told[i] = Told::Queued;
                    self.implicit[i] = false;
                    self.via[i] = "request-reply";
                }
                _ if before == Told::Owner => {
                    // replaced: the driver said NameLost, and keeps us queued without saying so
                    self.told[i] = Told::None;
                    self.implicit[i] = true;
                    self.via[i] = "-";
                }
                _ => {}
            },
            None => {
                self.told[i] = Told::None;
                self.implicit[i] = false;
                self.via[i] = "-";
            }
        }
    }
}

#[derive(Clone, Debug)]
struct StepViolation {
    step: usize,
    clause: &'static str,
    detail: String,
    feats: Vec<(&'static str, String)>,
}

#[derive(Default)]
struct HistResult {
    log: Vec<String>,
    states: Vec<u64>,
    violations: Vec<StepViolation>,
    transitions: u64,
    machinery: Option<String>,
    outcomes: Vec<String>,
    nontrivial: bool,
}

fn req_class(r: &Option<Result<zbus::Result<RequestNameReply>, String>>) -> String {
    match r {
        None => "pending".into(),
        Some(Err(p)) => format!("panic:{p}"),
        Some(Ok(Ok(RequestNameReply::PrimaryOwner))) => "PrimaryOwner".into(),
        Some(Ok(Ok(RequestNameReply::InQueue))) => "InQueue".into(),
        Some(Ok(Ok(RequestNameReply::AlreadyOwner))) => "AlreadyOwner".into(),
        Some(Ok(Ok(RequestNameReply::Exists))) => "Exists".into(),
        Some(Ok(Err(zbus::Error::NameTaken))) => "NameTaken".into(),
        Some(Ok(Err(e))) => format!("error:{e}"),
    }
}

fn code_class(code: &str) -> &'static str {
    match code {
        "ok:1" => "PrimaryOwner",
        "ok:2" => "InQueue",
        "ok:3" => "NameTaken",
        "ok:4" => "AlreadyOwner",
        _ => "?",
    }
}

/// Execute one history on the real code. `no_forged` = leave the forged events out (used to
/// attribute a violation).
fn run_history(ops: &[Op], n_names: usize, no_forged: bool) -> HistResult {
    let mut out = HistResult::default();
    let mut w = World::new();
    let mut bus = Bus::new();
    let conn = match fakebus::connect(&mut w, &mut bus) {
        Ok(c) => c,
        Err(e) => {
            out.machinery = Some(e);
            return out;
        }
    };
    let mut rf = Ref::new();
    let mut last_forged: [&'static str; 2] = ["none"; 2];

    let do_release = |w: &mut World,
                          bus: &mut Bus,
                          rf: &mut Ref,
                          out: &mut HistResult,
                          last_forged: &[&'static str; 2],
                          step: usize,
                          i: usize,
                          probe: bool| {
        let pre = rf.told[i];
        let pre_implicit = rf.implicit[i];
        let via = rf.via[i];
        let n0 = bus.n_calls("ReleaseName");
        let c = conn.clone();
        let nm = NAMES[i];
        let r = catch(|| fakebus::run(w, bus, "release_name", async move { c.release_name(nm).await }));
        let traffic = bus.n_calls("ReleaseName") > n0;
        let got = match &r {
            Err(p) => format!("panic:{p}"),
            Ok(None) => "pending".to_string(),
            Ok(Some(Ok(b))) => b.to_string(),
            Ok(Some(Err(e))) => format!("error:{e}"),
        };
        let expected = match (pre, pre_implicit) {
            (Told::Owner | Told::Queued, _) => Some("true"),
            (Told::None, true) => None,
            (Told::None, false) => Some("false"),
        };
        out.transitions += 1;
        out.outcomes.push(format!("release:{got}"));
        out.log.push(format!(
            "{}release({nm}) told={pre:?}{} -> {got}{}",
            if probe { "probe " } else { "" },
            if pre_implicit { "(bus keeps us queued silently)" } else { "" },
            if traffic { " [asked the bus]" } else { "" }
        ));
        match expected {
            Some(e) if e != got => out.violations.push(StepViolation {
                step,
                clause: "release-reports-held-or-queued",
                detail: format!(
                    "release_name({nm}) returned {got}, but the bus had {} (via {via}); expected {e}",
                    match pre {
                        Told::Owner => "granted the name and not taken it away",
                        Told::Queued => "queued the request and not dropped it",
                        Told::None => "neither granted nor queued the name",
                    }
                ),
                feats: vec![
                    ("op", "release".into()),
                    ("told", format!("{pre:?}")),
                    ("granted_via", via.into()),
                    ("last_forged", last_forged[i].into()),
                ],
            }),
            None => out.outcomes.push("release:unjudged-silent-requeue".into()),
            _ => {}
        }
        rf.resync(bus, i, Cause::OwnRelease);
    };

    for (step, op) in ops.iter().enumerate() {
        let i = op.name;
        let nm = NAMES[i];
        match op.kind {
            Kind::Req(bits, race) => {
                let pre = rf.told[i];
                let via = rf.via[i];
                let n0 = bus.n_calls("RequestName");
                let fired0 = bus.armed_fired;
                bus.armed = match race {
                    1 => Some(Armed {
                        name: nm.into(),
                        on_codes: vec![1, 4],
                        peer: OTHER.into(),
                        peer_request_flags: Some(F_REPLACE),
                    }),
                    2 => Some(Armed {
                        name: nm.into(),
                        on_codes: vec![2],
                        peer: OTHER.into(),
                        peer_request_flags: None,
                    }),
                    _ => None,
                };
                let c = conn.clone();
                let flags = mk_flags(bits);
                let r = catch(|| {
                    fakebus::run(&mut w, &mut bus, "request_name", async move {
                        c.request_name_with_flags(nm, flags).await
                    })
                });
                let r = match r {
                    Ok(None) => None,
                    Ok(Some(x)) => Some(Ok(x)),
                    Err(p) => Some(Err(p)),
                };
                let got = req_class(&r);
                bus.armed = None;
                let fired = bus.armed_fired > fired0;
                let traffic = bus.n_calls("RequestName") > n0;
                let bus_said = bus
                    .calls
                    .iter()
                    .rev()
                    .find(|c| c.member == "RequestName")
                    .map(|c| c.answer.clone())
                    .unwrap_or_default();
                out.transitions += 1;
                out.outcomes.push(format!("request:{got}"));
                out.log.push(format!(
                    "{} told={pre:?} -> {got}{}{}",
                    label(op),
                    if traffic {
                        format!(" [bus replied {}]", code_class(&bus_said))
                    } else {
                        " [answered locally]".into()
                    },
                    match (race, fired) {
                        (0, _) => "",
                        (1, true) => " [peer took the name right behind the reply: driver NameLost follows it]",
                        (2, true) => " [peer released the name right behind the reply: driver NameAcquired follows it]",
                        _ => " [peer action not triggered]",
                    }
                ));
                if race != 0 {
                    out.outcomes.push(format!("race{race}:{}", if fired { "fired" } else { "not-triggered" }));
                }
                let expected: Result<&'static str, &'static str> = match pre {
                    Told::Owner => Ok("AlreadyOwner"),
                    Told::Queued => Ok("InQueue"),
                    Told::None if traffic => Ok(code_class(&bus_said)),
                    Told::None => Err("the bus has neither granted nor queued the name, yet the call was answered without asking the bus"),
                };
                let bad = match expected {
                    Ok(e) => e != got,
                    Err(_) => true,
                };
                if bad {
                    out.violations.push(StepViolation {
                        step,
                        clause: "request-reports-granted-or-queued",
                        detail: format!(
                            "{} returned {got}; reference: told={pre:?} (via {via}), {}",
                            label(op),
                            match expected {
                                Ok(e) => format!("expected {e}"),
                                Err(e) => e.to_string(),
                            }
                        ),
                        feats: vec![
                            ("op", "request".into()),
                            ("told", format!("{pre:?}")),
                            ("granted_via", via.into()),
                            ("last_forged", last_forged[i].into()),
                        ],
                    });
                }
                if traffic && fired {
                    // two bus transitions happened inside this call: our reply, then the peer's action
                    rf.resync_pos(Some(if race == 1 { 0 } else { 1 }), i, Cause::OwnRequest);
                    rf.resync(&bus, i, Cause::Peer);
                } else if traffic {
                    rf.resync(&bus, i, Cause::OwnRequest);
                }
            }
            Kind::Release => do_release(&mut w, &mut bus, &mut rf, &mut out, &last_forged, step, i, false),
            Kind::PeerTakes(f) => {
                let code = bus.peer_request_name(OTHER, nm, f);
                fakebus::pump(&mut w, &mut bus);
                rf.resync(&bus, i, Cause::Peer);
                out.transitions += 1;
                out.log.push(format!("{} -> peer got {code}; told={:?}", label(op), rf.told[i]));
            }
            Kind::PeerReleases => {
                let code = bus.peer_release_name(OTHER, nm);
                fakebus::pump(&mut w, &mut bus);
                rf.resync(&bus, i, Cause::Peer);
                out.transitions += 1;
                out.log.push(format!("{} -> peer got {code}; told={:?}", label(op), rf.told[i]));
            }
            Kind::ForgedLost | Kind::ForgedAcquired => {
                let member = if op.kind == Kind::ForgedLost { "NameLost" } else { "NameAcquired" };
                if !no_forged {
                    bus.forge_driver_signal(FORGER, member, &[nm]);
                    last_forged[i] = member;
                }
                fakebus::pump(&mut w, &mut bus);
                out.transitions += 1;
                out.log.push(format!("{}{}", label(op), if no_forged { " (left out)" } else { "" }));
            }
        }
        if rf.told.iter().any(|t| *t != Told::None) {
            out.nontrivial = true;
        }
        out.states.push(hash64(&(&bus.names.names, &rf, out.log.last())));
    }
    for i in 0..n_names {
        do_release(&mut w, &mut bus, &mut rf, &mut out, &last_forged, ops.len() + i, i, true);
        out.states.push(hash64(&(&bus.names.names, &rf, out.log.last())));
    }
    if !bus.errors.is_empty() {
        out.machinery = Some(format!("fake bus: {:?}", bus.errors));
    }
    if w.hit_horizon {
        out.machinery = Some("pump did not reach quiescence".into());
    }
    drop(conn);
    out
}

fn ops_of(index: usize, depth: usize, kinds: usize, n_names: usize) -> Vec<Op> {
    let k = kinds * n_names;
    let mut v = vec![0usize; depth];
    let mut n = index;
    for i in (0..depth).rev() {
        v[i] = n % k;
        n /= k;
    }
    v.into_iter().map(|c| decode_kind(c % kinds, c / kinds)).collect()
}

fn to_violation(ops: &[Op], n_names: usize, sv: &StepViolation, log: &[String], attributed: bool) -> Violation {
    let codes: Vec<usize> = ops
        .iter()
        .map(|o| o.name * CODE_STRIDE + kind_index(&o.kind))
        .collect();
    let labels: Vec<String> = ops.iter().map(label).collect();
    let clause = if attributed { "only-driver-signals-change-state" } else { sv.clause };
    let mut v = Violation::new(
        clause,
        format!(
            "history [{}] step {}: {}{}",
            labels.join("; "),
            sv.step,
            sv.detail,
            if attributed {
                " — the same history without its forged signals satisfies the clause, so a signal not sent by the bus driver changed the connection's name state"
            } else {
                ""
            }
        ),
        json!({"names": n_names, "ops": codes, "labels": labels, "log": log}),
    );
    for (k, val) in &sv.feats {
        // which forged signal came last only matters when the violation is attributed to it
        if *k == "last_forged" && !attributed {
            continue;
        }
        v = v.feat(k, val);
    }
    v.feat("attributed_to", if attributed { "forged-signal" } else { "history" })
}

struct Space {
    n_names: usize,
    /// 12 = all symbols, 10 = only the symbols that place events between operations
    kinds: usize,
    depth: usize,
}

pub fn main(args: &Args) -> i32 {
    if let Some(p) = &args.replay {
        return replay(p);
    }
    if args.extra.iter().any(|a| a == "--confirm-on-daemon") {
        // development aid: reproduce finding C36-F1 against the real dbus-daemon
        return match fakebus::audit::reacquire_after_replacement() {
            Ok(s) => {
                println!("{s}");
                0
            }
            Err(e) => {
                println!("{e:?}");
                2
            }
        };
    }
    if args.extra.iter().any(|a| a == "--audit-only") {
        // development aid: run only the fake-bus audit against dbus-daemon and print the result
        let depth = args.tier.pick(3, 4);
        return match fakebus::audit_against_daemon(depth) {
            Ok(a) => {
                println!("{a}");
                0
            }
            Err(e) => {
                println!("{e:?}");
                2
            }
        };
    }
    let report = Report::new("C36", args.tier, args.seed, "model_checking");
    // quick: one name, all 12 symbols, depth 4; one name, the 10 between-operations symbols,
    // depth 5; two names, 12 symbols, depth 3. thorough: one step deeper each (two names to
    // depth 5 over the 10 symbols = 3.2M histories was run once during development: same single
    // finding).
    let sp = |n_names, kinds, depth| Space { n_names, kinds, depth };
    let spaces: Vec<Space> = args.tier.pick(
        vec![sp(1, ALL_KINDS, 4), sp(1, BASE_KINDS, 5), sp(2, ALL_KINDS, 3)],
        vec![sp(1, ALL_KINDS, 5), sp(1, BASE_KINDS, 6), sp(2, ALL_KINDS, 4)],
    );
    let totals = fakebus::TreeTotals::default();
    let mut spaces_json = vec![];
    for sp in &spaces {
        let k = sp.kinds * sp.n_names;
        let n = k.pow(sp.depth as u32);
        let t0 = std::time::Instant::now();
        fakebus::par_histories(&report, &totals, n, 128, |idx, acc| {
            let ops = ops_of(idx, sp.depth, sp.kinds, sp.n_names);
            let res = run_history(&ops, sp.n_names, false);
            if let Some(m) = &res.machinery {
                vcommon::machinery_failure(&format!(
                    "C36: {m} in history {:?}",
                    ops.iter().map(label).collect::<Vec<_>>()
                ));
            }
            acc.evals += 1;
            acc.transitions += res.transitions;
            for o in &res.outcomes {
                acc.outcome(o);
            }
            let lh = hash64(&res.log);
            acc.logs.insert(lh);
            if res.nontrivial {
                acc.nontrivial.push(lh);
            }
            acc.states.extend(res.states.iter().cloned());
            if idx % (n / 6).max(1) == 0 {
                report.sample(json!({"names": sp.n_names, "history": ops.iter().map(label).collect::<Vec<_>>(), "log": res.log}));
            }
            if !res.violations.is_empty() {
                // Attribute: does the violation go away when the forged signals are left out?
                let has_forged = ops
                    .iter()
                    .any(|o| matches!(o.kind, Kind::ForgedLost | Kind::ForgedAcquired));
                let clean = if has_forged {
                    Some(run_history(&ops, sp.n_names, true))
                } else {
                    None
                };
                // Only the first violation of a history is independent evidence (later ones may
                // be consequences).
                let sv = &res.violations[0];
                let attributed = match &clean {
                    Some(c) => !c.violations.iter().any(|x| x.step <= sv.step),
                    None => false,
                };
                report.violation(to_violation(&ops, sp.n_names, sv, &res.log, attributed));
            }
        });
        spaces_json.push(json!({"names": sp.n_names, "depth": sp.depth, "alphabet": k, "histories": n, "wall_s": (t0.elapsed().as_secs_f64()*1000.0).round()/1000.0}));
    }
    if args.tier == vcommon::Tier::Thorough {
        match fakebus::audit_against_daemon(4) {
            Ok(a) => report.set("fake_bus_audit", a),
            Err(fakebus::AuditError::Unavailable(e)) => {
                report.note(format!("fake-bus audit against dbus-daemon skipped: {e}"))
            }
            Err(fakebus::AuditError::Disagreement(e)) => {
                vcommon::machinery_failure(&format!("C36: fake bus disagrees with dbus-daemon: {e}"))
            }
        }
    }
    fakebus::finish_tree(
        &report,
        &totals,
        "distinct (fake-bus name table, reference told-state, observation) triples reached; informational, no merging is done",
    );
    report.set("spaces", json!(spaces_json));
    report.assume("the fake bus (fakebus.rs) behaves like a message bus; its name model is audited against dbus-daemon 1.14 in the thorough tier");
    report.assume("each operation is run to quiescence on the default schedule before the next one starts (schedule variation inside an operation is not part of this check)");
    report.assume("the fake bus builds its wire messages with zbus's own message builder");
    report.finish(
        "all histories of exactly the stated depth over the 12- (or 10-) symbol-per-name alphabet (every prefix is judged step by step), plus a release probe per name at the end; non-trivial = the bus granted or queued a name at some step",
        true,
    )
}

fn replay(path: &str) -> i32 {
    let art = vcommon::load_replay(path);
    let rp: &Value = &art["replay"];
    let n_names = rp["names"].as_u64().unwrap_or(1) as usize;
    let ops: Vec<Op> = rp["ops"]
        .as_array()
        .map(|a| a.iter().map(|c| decode(c.as_u64().unwrap_or(0) as usize)).collect())
        .unwrap_or_default();
    println!("C36 replay: {} name(s), history:", n_names);
    for o in &ops {
        println!("  {}", label(o));
    }
    let res = run_history(&ops, n_names, false);
    println!("observations:");
    for l in &res.log {
        println!("  {l}");
    }
    if let Some(m) = &res.machinery {
        println!("machinery problem: {m}");
        return 2;
    }
    if res.violations.is_empty() {
        println!("no clause violated");
        0
    } else {
        for v in &res.violations {
            println!("violated at step {}: {} — {}", v.step, v.clause, v.detail);
        }
        let clean = run_history(&ops, n_names, true);
        println!(
            "same history without forged signals: {} violation(s)",
            clean.violations.len()
        );
        1
    }
}
