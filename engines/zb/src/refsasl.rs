//! refsasl — reference D-Bus SASL state machines, written from the D-Bus specification
//! ("Authentication Protocol": protocol overview, the command tables and the state diagrams
//! "Client states" / "Server states"), never by calling the code under test.
//!
//! Server side (`ServerRef`): the three server states of the specification
//!
//! * WaitingForAuth  — AUTH → mechanism decides (OK / REJECTED / DATA); BEGIN → disconnect;
//!                     ERROR → REJECTED; anything else → ERROR.
//! * WaitingForData  — DATA → mechanism decides; BEGIN → disconnect; CANCEL, ERROR → REJECTED,
//!                     back to WaitingForAuth; anything else → ERROR.
//! * WaitingForBegin — BEGIN → authenticated; CANCEL, ERROR → REJECTED, back to WaitingForAuth;
//!                     NEGOTIATE_UNIX_FD → AGREE_UNIX_FD if descriptors can be passed, else ERROR;
//!                     anything else → ERROR.
//!
//! Mechanisms: EXTERNAL authorises the identity the transport vouches for; the claimed identity
//! (hex of the decimal uid) must be empty or equal to it and the credentials must be known. An
//! AUTH EXTERNAL without initial response is answered with an empty `DATA` challenge and the
//! identity is then taken from the client's `DATA` line. ANONYMOUS accepts any trace.
//!
//! For every input line the machine returns an *expectation*: a list of alternatives
//! `(reply kind, what happens next)`. Alternative 0 is what the specification prescribes; further
//! alternatives are behaviours the property under check does not forbid (the checks only enforce
//! what their statement says) — they are counted as tolerated deviations, never as violations.
//! The caller tells the machine which alternative the implementation took (`advance`).
//!
//! Client side (`client_verdict`): a monitor over the wire trace — the commands the client
//! actually sent and the lines the server sent — that decides, by the specification's pairing
//! of commands and replies, whether the client may consider itself authenticated, whether
//! descriptor passing was agreed, and how many server lines belong to the handshake.

use std::fmt;

pub const CRLF: &[u8] = b"\r\n";

pub fn hex_of(s: &str) -> String {
    s.bytes().map(|b| format!("{b:02x}")).collect()
}

/// Strict hex decoding (even length, hex digits only).
pub fn unhex_strict(s: &str) -> Option<Vec<u8>> {
    let b = s.as_bytes();
    if b.len() % 2 != 0 {
        return None;
    }
    let mut out = Vec::with_capacity(b.len() / 2);
    for p in b.chunks(2) {
        let hi = (p[0] as char).to_digit(16)?;
        let lo = (p[1] as char).to_digit(16)?;
        out.push((hi * 16 + lo) as u8);
    }
    Some(out)
}

/// A GUID on the wire is 32 hex digits.
pub fn valid_guid(s: &str) -> bool {
    s.len() == 32 && s.bytes().all(|b| b.is_ascii_hexdigit())
}

#[derive(Clone, Copy, PartialEq, Eq, Debug, Hash, PartialOrd, Ord)]
pub enum Mech {
    External,
    Anonymous,
}

impl Mech {
    pub fn name(self) -> &'static str {
        match self {
            Mech::External => "EXTERNAL",
            Mech::Anonymous => "ANONYMOUS",
        }
    }
    pub fn parse(s: &str) -> Option<Mech> {
        match s {
            "EXTERNAL" => Some(Mech::External),
            "ANONYMOUS" => Some(Mech::Anonymous),
            _ => None,
        }
    }
}

// ---------------------------------------------------------------------------------------------
// Line syntax
// ---------------------------------------------------------------------------------------------

#[derive(Clone, PartialEq, Eq, Debug, Hash)]
pub enum Arg {
    Absent,
    Bytes(Vec<u8>),
    /// Present but not valid hex.
    BadHex,
}

#[derive(Clone, PartialEq, Eq, Debug, Hash)]
pub enum ClientLine {
    /// `AUTH [mech] [initial response]`; the mechanism is kept as written.
    Auth { mech: Option<String>, resp: Arg },
    Data(Arg),
    Begin,
    Cancel,
    Error,
    NegotiateUnixFd,
    /// Anything else, including the empty line.
    Unknown,
}

#[derive(Clone, Copy, PartialEq, Eq, Debug, Hash)]
pub enum Ending {
    CrLf,
    /// `\n` not preceded by `\r`.
    BareLf,
    /// No line terminator at all.
    Unterminated,
}

/// Split one raw line (terminator included) into ending and content.
pub fn split_ending(raw: &[u8]) -> (Ending, &[u8]) {
    if raw.ends_with(CRLF) {
        (Ending::CrLf, &raw[..raw.len() - 2])
    } else if raw.ends_with(b"\n") {
        (Ending::BareLf, &raw[..raw.len() - 1])
    } else {
        (Ending::Unterminated, raw)
    }
}

fn words(content: &[u8]) -> Option<Vec<&str>> {
    let s = std::str::from_utf8(content).ok()?;
    if !s.bytes().all(|b| (0x20..0x7f).contains(&b)) {
        return None;
    }
    Some(s.split(' ').filter(|w| !w.is_empty()).collect())
}

fn arg_of(w: Option<&&str>) -> Arg {
    match w {
        None => Arg::Absent,
        Some(h) => match unhex_strict(h) {
            Some(b) => Arg::Bytes(b),
            None => Arg::BadHex,
        },
    }
}

/// Parse the content of a client line (terminator already removed).
pub fn parse_client_line(content: &[u8]) -> ClientLine {
    let Some(w) = words(content) else {
        return ClientLine::Unknown;
    };
    match w.first().copied() {
        Some("AUTH") => {
            if w.len() > 3 {
                return ClientLine::Auth {
                    mech: w.get(1).map(|s| s.to_string()),
                    resp: Arg::BadHex,
                };
            }
            ClientLine::Auth {
                mech: w.get(1).map(|s| s.to_string()),
                resp: arg_of(w.get(2)),
            }
        }
        Some("DATA") => {
            if w.len() > 2 {
                ClientLine::Data(Arg::BadHex)
            } else {
                ClientLine::Data(arg_of(w.get(1)))
            }
        }
        Some("BEGIN") => ClientLine::Begin,
        Some("CANCEL") => ClientLine::Cancel,
        Some("ERROR") => ClientLine::Error,
        Some("NEGOTIATE_UNIX_FD") => ClientLine::NegotiateUnixFd,
        _ => ClientLine::Unknown,
    }
}

// ---------------------------------------------------------------------------------------------
// Server machine
// ---------------------------------------------------------------------------------------------

#[derive(Clone, Copy, PartialEq, Eq, Debug, Hash, PartialOrd, Ord)]
pub enum SState {
    WaitingForAuth,
    WaitingForData,
    WaitingForBegin,
}

impl SState {
    pub fn short(self) -> &'static str {
        match self {
            SState::WaitingForAuth => "WaitingForAuth",
            SState::WaitingForData => "WaitingForData",
            SState::WaitingForBegin => "WaitingForBegin",
        }
    }
}

#[derive(Clone, Copy, PartialEq, Eq, Debug, Hash, PartialOrd, Ord)]
pub enum Reply {
    /// `OK <server guid>`
    Ok,
    Rejected,
    Data,
    Error,
    AgreeUnixFd,
    /// Nothing is written.
    None,
}

impl fmt::Display for Reply {
    fn fmt(&self, f: &mut fmt::Formatter<'_>) -> fmt::Result {
        f.write_str(match self {
            Reply::Ok => "OK",
            Reply::Rejected => "REJECTED",
            Reply::Data => "DATA",
            Reply::Error => "ERROR",
            Reply::AgreeUnixFd => "AGREE_UNIX_FD",
            Reply::None => "no-reply",
        })
    }
}

#[derive(Clone, Copy, PartialEq, Eq, Debug, Hash)]
pub enum Next {
    /// Keep talking, in this state.
    To(SState),
    /// The handshake completes successfully.
    Authenticated,
    /// The server ends the conversation (the handshake fails).
    Disconnect,
    /// The server keeps talking but the specification gives the continuation no meaning
    /// (e.g. after a line with a stray line ending): the history is not extended.
    Undefined,
}

#[derive(Clone, Copy, PartialEq, Eq, Debug, Hash)]
pub struct Alt {
    pub reply: Reply,
    pub next: Next,
}

#[derive(Clone, Debug)]
pub struct Expectation {
    /// alts[0] is the specification's behaviour, the rest is tolerated.
    pub alts: Vec<Alt>,
    /// Clause of the property that is violated if the implementation takes none of `alts`.
    pub clause: &'static str,
    /// Class of the input line (violation feature).
    pub line_class: String,
    /// For EXTERNAL identity decisions: how the claimed identity relates to the credentials.
    pub identity: Option<&'static str>,
}

#[derive(Clone, Copy, Debug, PartialEq, Eq, Hash)]
pub struct ServerCfg {
    pub mech: Mech,
    /// Peer uid from the transport's credentials; None = unknown.
    pub peer_uid: Option<u32>,
    pub can_pass_fd: bool,
}

#[derive(Clone, Debug)]
pub struct ServerRef {
    pub cfg: ServerCfg,
    pub state: SState,
    pub fd_agreed: bool,
}

pub const CL_COMPLETES: &str = "completes-only-after-begin-following-successful-auth";
pub const CL_EXTERNAL: &str = "external-succeeds-only-with-known-matching-credentials";
pub const CL_EXTERNAL_ACCEPT: &str = "external-accepts-empty-or-matching-identity";
pub const CL_ANON: &str = "anonymous-succeeds-with-any-trace";
pub const CL_UNSUPPORTED: &str = "unsupported-mechanism-gets-rejected";
pub const CL_UNKNOWN: &str = "unknown-or-misplaced-command-gets-error";
pub const CL_BEGIN: &str = "begin-after-successful-auth-completes";
pub const CL_FD: &str = "unix-fd-negotiation";
pub const CL_PROTOCOL: &str = "cancel-or-error-resets-conversation";
pub const CL_PANIC: &str = "no-panic";
pub const CL_SPLIT: &str = "result-independent-of-read-splitting";

fn alt(reply: Reply, next: Next) -> Alt {
    Alt { reply, next }
}

impl ServerRef {
    pub fn new(cfg: ServerCfg) -> Self {
        Self {
            cfg,
            state: SState::WaitingForAuth,
            fd_agreed: false,
        }
    }

    /// How a claimed EXTERNAL identity relates to the transport credentials.
    fn identity_class(&self, id: &[u8]) -> (&'static str, bool) {
        let known = self.cfg.peer_uid;
        if id.is_empty() {
            return ("empty", known.is_some());
        }
        let Ok(s) = std::str::from_utf8(id) else {
            return ("non-numeric", false);
        };
        // decimal uid, no sign, no spaces
        if s.is_empty() || !s.bytes().all(|b| b.is_ascii_digit()) {
            return ("non-numeric", false);
        }
        match s.parse::<u64>() {
            Ok(v) if Some(v) == known.map(|u| u as u64) => ("matching", true),
            Ok(_) => ("other", false),
            Err(_) => ("non-numeric", false),
        }
    }

    /// Expectation for EXTERNAL identity `id` presented in state `from`.
    fn external_decision(&self, id: &[u8], class: String, from: SState) -> Expectation {
        let (idc, ok) = self.identity_class(id);
        if ok {
            Expectation {
                alts: vec![alt(Reply::Ok, Next::To(SState::WaitingForBegin))],
                clause: CL_EXTERNAL_ACCEPT,
                line_class: class,
                identity: Some(idc),
            }
        } else {
            // The specification says REJECTED; the property only says "does not succeed".
            Expectation {
                alts: vec![
                    alt(Reply::Rejected, Next::To(SState::WaitingForAuth)),
                    alt(Reply::Error, Next::To(from)),
                    alt(Reply::None, Next::Disconnect),
                    alt(Reply::Error, Next::Disconnect),
                    alt(Reply::Rejected, Next::Disconnect),
                ],
                clause: CL_EXTERNAL,
                line_class: class,
                identity: Some(idc),
            }
        }
    }

    /// A known command whose argument is not valid hex: the specification answers ERROR; the
    /// property is silent, so REJECTED or ending the conversation are tolerated. Succeeding is not.
    fn malformed(&self, class: String, from: SState) -> Expectation {
        let mut alts = vec![
            alt(Reply::Error, Next::To(from)),
            alt(Reply::Rejected, Next::To(SState::WaitingForAuth)),
            alt(Reply::None, Next::Disconnect),
            alt(Reply::Error, Next::Disconnect),
            alt(Reply::Rejected, Next::Disconnect),
        ];
        if self.cfg.mech == Mech::Anonymous {
            // "ANONYMOUS succeeds with any trace data": accepting an unparsable trace is fine.
            alts.push(alt(Reply::Ok, Next::To(SState::WaitingForBegin)));
        }
        Expectation {
            alts,
            clause: if self.cfg.mech == Mech::External {
                CL_EXTERNAL
            } else {
                CL_COMPLETES
            },
            line_class: class,
            identity: if self.cfg.mech == Mech::External {
                Some("bad-hex")
            } else {
                None
            },
        }
    }

    pub fn creds(&self) -> &'static str {
        if self.cfg.peer_uid.is_some() {
            "known"
        } else {
            "unknown"
        }
    }

    /// Expectation for one raw input line (terminator included) in the current state.
    pub fn expect(&self, raw: &[u8]) -> Expectation {
        use SState::*;
        let st = self.state;
        let (ending, content) = split_ending(raw);
        if ending != Ending::CrLf {
            // Lines end with \r\n. What a server does with a stray line ending is not stated by
            // the property beyond "no panic" and "no authentication"; anything else is tolerated
            // and the history is not extended.
            let mut alts = vec![
                alt(Reply::None, Next::Disconnect),
                alt(Reply::Error, Next::Disconnect),
            ];
            for r in [Reply::Error, Reply::Rejected, Reply::Data, Reply::Ok, Reply::AgreeUnixFd, Reply::None] {
                alts.push(alt(r, Next::Undefined));
            }
            return Expectation {
                alts,
                clause: CL_COMPLETES,
                line_class: if content.is_empty() {
                    "bare-lf-empty-line".into()
                } else {
                    "bare-lf-line".into()
                },
                identity: None,
            };
        }
        let line = parse_client_line(content);
        let mech = self.cfg.mech;
        let err_stay = |clause: &'static str, class: &str| Expectation {
            alts: vec![alt(Reply::Error, Next::To(st))],
            clause,
            line_class: class.to_string(),
            identity: None,
        };
        match (&line, st) {
            // ---- unknown commands: ERROR in every state ----
            (ClientLine::Unknown, _) => err_stay(
                CL_UNKNOWN,
"unknown-command",
            ),

            // ---- AUTH ----
            (ClientLine::Auth { mech: m, resp }, _) => {
                let requested = m.as_deref().and_then(Mech::parse);
                let class = match (m, requested) {
                    (None, _) => "auth-without-mechanism".to_string(),
                    (Some(_), None) => "auth-unknown-mechanism".to_string(),
                    (Some(_), Some(r)) if r != mech => "auth-unconfigured-mechanism".to_string(),
                    (Some(_), Some(r)) => format!(
                        "auth-{}-{}",
                        r.name().to_lowercase(),
                        match resp {
                            Arg::Absent => "no-initial-response",
                            Arg::Bytes(_) => "initial-response",
                            Arg::BadHex => "bad-hex",
                        }
                    ),
                };
                if st != WaitingForAuth {
                    // AUTH while a conversation is in progress / already accepted: misplaced.
                    let mut alts = vec![alt(Reply::Error, Next::To(st))];
                    if *resp == Arg::BadHex {
                        // misplaced and malformed at once: ending the conversation is tolerated
                        alts.push(alt(Reply::None, Next::Disconnect));
                        alts.push(alt(Reply::Error, Next::Disconnect));
                    }
                    let clause = if requested != Some(mech) {
                        // An unsupported mechanism may equally be answered REJECTED.
                        alts.push(alt(Reply::Rejected, Next::To(WaitingForAuth)));
                        CL_UNSUPPORTED
                    } else {
                        CL_UNKNOWN
                    };
                    return Expectation {
                        alts,
                        clause,
                        line_class: format!("misplaced:{class}"),
                        identity: None,
                    };
                }
                if requested != Some(mech) {
                    let mut alts = vec![alt(Reply::Rejected, Next::To(WaitingForAuth))];
                    if *resp == Arg::BadHex {
                        // unsupported and malformed at once: ERROR or ending the conversation
                        // are tolerated
                        alts.push(alt(Reply::Error, Next::To(WaitingForAuth)));
                        alts.push(alt(Reply::None, Next::Disconnect));
                        alts.push(alt(Reply::Error, Next::Disconnect));
                        alts.push(alt(Reply::Rejected, Next::Disconnect));
                    }
                    return Expectation {
                        alts,
                        clause: CL_UNSUPPORTED,
                        line_class: class,
                        identity: None,
                    };
                }
                match (mech, resp) {
                    (_, Arg::BadHex) => self.malformed(class, st),
                    (Mech::External, Arg::Absent) => {
                        // Challenge with an empty DATA. Deciding at once from the credentials is
                        // equally safe (empty identity) and tolerated.
                        let mut alts = vec![alt(Reply::Data, Next::To(WaitingForData))];
                        if self.cfg.peer_uid.is_some() {
                            alts.push(alt(Reply::Ok, Next::To(WaitingForBegin)));
                        } else {
                            alts.push(alt(Reply::Rejected, Next::To(WaitingForAuth)));
                        }
                        Expectation {
                            alts,
                            clause: CL_EXTERNAL,
                            line_class: class,
                            identity: Some("absent"),
                        }
                    }
                    (Mech::External, Arg::Bytes(id)) => self.external_decision(id, class, st),
                    (Mech::Anonymous, Arg::Absent) => Expectation {
                        // The reference implementation answers OK at once; asking for the trace
                        // with DATA first is within the protocol as well.
                        alts: vec![
                            alt(Reply::Ok, Next::To(WaitingForBegin)),
                            alt(Reply::Data, Next::To(WaitingForData)),
                        ],
                        clause: CL_ANON,
                        line_class: class,
                        identity: None,
                    },
                    (Mech::Anonymous, Arg::Bytes(_)) => Expectation {
                        alts: vec![alt(Reply::Ok, Next::To(WaitingForBegin))],
                        clause: CL_ANON,
                        line_class: class,
                        identity: None,
                    },
                }
            }

            // ---- DATA ----
            (ClientLine::Data(arg), WaitingForData) => {
                let class = match arg {
                    Arg::Absent => "data-empty",
                    Arg::Bytes(_) => "data-with-payload",
                    Arg::BadHex => "data-bad-hex",
                }
                .to_string();
                match (mech, arg) {
                    (_, Arg::BadHex) => self.malformed(class, st),
                    (Mech::External, Arg::Absent) => self.external_decision(&[], class, st),
                    (Mech::External, Arg::Bytes(id)) => self.external_decision(id, class, st),
                    (Mech::Anonymous, _) => Expectation {
                        alts: vec![alt(Reply::Ok, Next::To(WaitingForBegin))],
                        clause: CL_ANON,
                        line_class: class,
                        identity: None,
                    },
                }
            }
            (ClientLine::Data(Arg::BadHex), _) => Expectation {
                // misplaced and malformed at once: ending the conversation is tolerated
                alts: vec![
                    alt(Reply::Error, Next::To(st)),
                    alt(Reply::None, Next::Disconnect),
                    alt(Reply::Error, Next::Disconnect),
                ],
                clause: CL_UNKNOWN,
                line_class: "misplaced:data-bad-hex".into(),
                identity: None,
            },
            (ClientLine::Data(_), _) => err_stay(CL_UNKNOWN, "misplaced:data"),

            // ---- BEGIN ----
            (ClientLine::Begin, WaitingForBegin) => Expectation {
                alts: vec![alt(Reply::None, Next::Authenticated)],
                clause: CL_BEGIN,
                line_class: "begin".into(),
                identity: None,
            },
            (ClientLine::Begin, _) => Expectation {
                // The specification ends the conversation; the property says "misplaced → ERROR".
                alts: vec![
                    alt(Reply::None, Next::Disconnect),
                    alt(Reply::Error, Next::To(st)),
                    alt(Reply::Error, Next::Disconnect),
                ],
                clause: CL_COMPLETES,
                line_class: "misplaced:begin".into(),
                identity: None,
            },

            // ---- CANCEL / ERROR ----
            (ClientLine::Cancel, WaitingForAuth) => Expectation {
                // Nothing to cancel: ERROR by the specification; REJECTED is harmless.
                alts: vec![
                    alt(Reply::Error, Next::To(WaitingForAuth)),
                    alt(Reply::Rejected, Next::To(WaitingForAuth)),
                ],
                clause: CL_UNKNOWN,
                line_class: "misplaced:cancel".into(),
                identity: None,
            },
            (ClientLine::Error, WaitingForAuth) => Expectation {
                alts: vec![
                    alt(Reply::Rejected, Next::To(WaitingForAuth)),
                    alt(Reply::Error, Next::To(WaitingForAuth)),
                ],
                clause: CL_PROTOCOL,
                line_class: "error".into(),
                identity: None,
            },
            (ClientLine::Cancel | ClientLine::Error, _) => Expectation {
                // REJECTED and back to WaitingForAuth; answering ERROR and staying is tolerated
                // (the property does not say what CANCEL/ERROR get).
                alts: vec![
                    alt(Reply::Rejected, Next::To(WaitingForAuth)),
                    alt(Reply::Error, Next::To(st)),
                ],
                clause: CL_PROTOCOL,
                line_class: if line == ClientLine::Cancel {
                    "cancel".into()
                } else {
                    "error".into()
                },
                identity: None,
            },

            // ---- NEGOTIATE_UNIX_FD ----
            (ClientLine::NegotiateUnixFd, WaitingForBegin) => Expectation {
                alts: vec![if self.cfg.can_pass_fd {
                    alt(Reply::AgreeUnixFd, Next::To(WaitingForBegin))
                } else {
                    alt(Reply::Error, Next::To(WaitingForBegin))
                }],
                clause: CL_FD,
                line_class: "negotiate-unix-fd".into(),
                identity: None,
            },
            (ClientLine::NegotiateUnixFd, _) => err_stay(CL_UNKNOWN, "misplaced:negotiate-unix-fd"),
        }
    }

    /// Follow the alternative the implementation took.
    pub fn advance(&mut self, a: &Alt) {
        if a.reply == Reply::AgreeUnixFd {
            self.fd_agreed = true;
        }
        if let Next::To(s) = a.next {
            self.state = s;
        }
    }
}

/// Classify what a server wrote in answer to one line. `Err` = not exactly one well-formed reply.
pub fn classify_server_reply(bytes: &[u8], guid: &str) -> Result<Reply, String> {
    if bytes.is_empty() {
        return Ok(Reply::None);
    }
    let show = || String::from_utf8_lossy(bytes).into_owned();
    if !bytes.ends_with(CRLF) {
        return Err(format!("reply not terminated by CRLF: {:?}", show()));
    }
    let content = &bytes[..bytes.len() - 2];
    if content.contains(&b'\n') || content.contains(&b'\r') {
        return Err(format!("more than one reply line: {:?}", show()));
    }
    let Some(w) = words(content) else {
        return Err(format!("reply is not printable ASCII: {:?}", show()));
    };
    match w.first().copied() {
        Some("OK") => {
            if w.len() == 2 && w[1] == guid {
                Ok(Reply::Ok)
            } else {
                Err(format!("OK without the server's GUID: {:?}", show()))
            }
        }
        Some("REJECTED") => Ok(Reply::Rejected),
        Some("DATA") => Ok(Reply::Data),
        Some("ERROR") => Ok(Reply::Error),
        Some("AGREE_UNIX_FD") if w.len() == 1 => Ok(Reply::AgreeUnixFd),
        _ => Err(format!("not a server reply: {:?}", show())),
    }
}

// ---------------------------------------------------------------------------------------------
// Client side
// ---------------------------------------------------------------------------------------------

#[derive(Clone, PartialEq, Eq, Debug, Hash)]
pub enum ServerLine {
    /// `OK <32 hex digits>`
    OkGuid(String),
    /// `OK` with a missing or malformed GUID.
    OkBad,
    Rejected,
    Error,
    Data,
    AgreeUnixFd,
    Unknown,
}

pub fn parse_server_line(content: &[u8]) -> ServerLine {
    let Some(w) = words(content) else {
        return ServerLine::Unknown;
    };
    match w.first().copied() {
        // Surplus arguments are ignored (the specification does not say they invalidate a line).
        Some("OK") => {
            if w.len() >= 2 && valid_guid(w[1]) {
                ServerLine::OkGuid(w[1].to_string())
            } else {
                ServerLine::OkBad
            }
        }
        Some("REJECTED") => ServerLine::Rejected,
        Some("ERROR") => ServerLine::Error,
        Some("DATA") => ServerLine::Data,
        Some("AGREE_UNIX_FD") => ServerLine::AgreeUnixFd,
        _ => ServerLine::Unknown,
    }
}

/// What the client put on the wire, in order (everything up to and including BEGIN).
#[derive(Clone, Copy, PartialEq, Eq, Debug, Hash)]
pub enum ClientCmd {
    Auth,
    Data,
    Cancel,
    Error,
    NegotiateUnixFd,
    Begin,
    Other,
}

/// Parse the client's byte stream: NUL, CRLF-terminated commands up to BEGIN, then message bytes.
/// Returns (commands, offset of the first byte after `BEGIN\r\n` if BEGIN was sent).
pub fn parse_client_stream(bytes: &[u8]) -> (bool, Vec<ClientCmd>, Option<usize>) {
    let mut cmds = vec![];
    let nul = bytes.first() == Some(&0);
    let mut pos = if nul { 1 } else { 0 };
    loop {
        let Some(rel) = bytes[pos..].windows(2).position(|w| w == CRLF) else {
            return (nul, cmds, None);
        };
        let line = parse_client_line(&bytes[pos..pos + rel]);
        pos += rel + 2;
        let c = match line {
            ClientLine::Auth { .. } => ClientCmd::Auth,
            ClientLine::Data(_) => ClientCmd::Data,
            ClientLine::Cancel => ClientCmd::Cancel,
            ClientLine::Error => ClientCmd::Error,
            ClientLine::NegotiateUnixFd => ClientCmd::NegotiateUnixFd,
            ClientLine::Begin => ClientCmd::Begin,
            ClientLine::Unknown => ClientCmd::Other,
        };
        cmds.push(c);
        if c == ClientCmd::Begin {
            return (nul, cmds, Some(pos));
        }
    }
}

#[derive(Clone, Debug, PartialEq, Eq)]
pub struct ClientVerdict {
    /// The server answered the client's (last) AUTH exchange with OK carrying a valid GUID equal
    /// to the expected one (if any), and the client sent BEGIN.
    pub may_complete: bool,
    pub why_not: &'static str,
    /// The reply paired with NEGOTIATE_UNIX_FD was AGREE_UNIX_FD.
    pub fd_agreed: bool,
    /// Number of server lines that are replies to the client's commands (= handshake lines).
    pub replies_expected: usize,
    /// All of them were present in the transcript.
    pub replies_complete: bool,
    /// The GUID the server announced (when accepted).
    pub guid: Option<String>,
}

/// Pair the client's commands with the server's lines as the specification does: every command
/// except BEGIN is answered by exactly one line, in order.
pub fn client_verdict(
    sent: &[ClientCmd],
    lines: &[ServerLine],
    expected_guid: Option<&str>,
) -> ClientVerdict {
    let mut idx = 0usize;
    let mut accepted: Option<String> = None;
    let mut why_not = "server never answered AUTH with OK";
    let mut fd_agreed = false;
    let mut begin = false;
    let mut expected = 0usize;
    for c in sent {
        match c {
            ClientCmd::Begin => {
                begin = true;
                break;
            }
            ClientCmd::Other => {
                // not a command of the protocol; a server answers ERROR
                expected += 1;
                idx += 1;
            }
            ClientCmd::Auth | ClientCmd::Data => {
                expected += 1;
                let r = lines.get(idx);
                idx += 1;
                accepted = None;
                match r {
                    Some(ServerLine::OkGuid(g)) => match expected_guid {
                        Some(e) if e != g => why_not = "server GUID differs from the expected one",
                        _ => accepted = Some(g.clone()),
                    },
                    Some(ServerLine::OkBad) => why_not = "OK without a valid GUID",
                    Some(ServerLine::Rejected) => why_not = "server answered REJECTED",
                    Some(ServerLine::Error) => why_not = "server answered ERROR",
                    Some(ServerLine::Data) => why_not = "server answered DATA (challenge outstanding)",
                    Some(ServerLine::AgreeUnixFd) | Some(ServerLine::Unknown) => {
                        why_not = "server answered AUTH with something that is not OK"
                    }
                    None => why_not = "no answer to AUTH",
                }
            }
            ClientCmd::Cancel | ClientCmd::Error => {
                expected += 1;
                idx += 1;
                accepted = None;
                why_not = "client cancelled the exchange";
            }
            ClientCmd::NegotiateUnixFd => {
                expected += 1;
                let r = lines.get(idx);
                idx += 1;
                fd_agreed = matches!(r, Some(ServerLine::AgreeUnixFd));
            }
        }
    }
    if !begin && accepted.is_some() {
        why_not = "client has not sent BEGIN";
    }
    ClientVerdict {
        may_complete: accepted.is_some() && begin,
        why_not: if accepted.is_some() && begin { "" } else { why_not },
        fd_agreed: fd_agreed && accepted.is_some(),
        replies_expected: expected,
        replies_complete: lines.len() >= expected,
        guid: accepted,
    }
}

#[cfg(test)]
mod tests {
    use super::*;

    #[test]
    fn server_basic() {
        let mut s = ServerRef::new(ServerCfg {
            mech: Mech::External,
            peer_uid: Some(1000),
            can_pass_fd: true,
        });
        let e = s.expect(b"AUTH EXTERNAL 31303030\r\n");
        assert_eq!(e.alts[0], alt(Reply::Ok, Next::To(SState::WaitingForBegin)));
        s.advance(&e.alts[0]);
        let e = s.expect(b"BEGIN\r\n");
        assert_eq!(e.alts[0].next, Next::Authenticated);
    }
}
