//! C21 — match rules select exactly the messages the specification says.
//!
//! Space: every rule of a product of per-key option sets, built through `MatchRule::builder()`,
//! against every message of a product of near-miss header values and bodies, built through
//! `zbus::Message::signal/method_call(..).build(&body)`.
//!
//! Oracle: `rule.matches(&msg)` == `refmatch` (conjunction of the per-key semantics of the
//! specification); a well-known sender in the rule and a well-known destination in the message
//! cannot be resolved locally (documented exception) and are treated as matching.
//!
//! Structure: part 1 evaluates every single-key rule against every message (this is where a wrong
//! per-key semantics shows, and it gives each defect a narrow identity); part 2 evaluates the
//! product. A product disagreement that equals the conjunction of zbus's own single-key answers
//! is already explained by part 1 and only counted; one that does not is reported as a
//! key-interaction violation after greedy minimisation of the rule.

use std::{
    collections::{BTreeMap, BTreeSet},
    sync::Mutex,
};

use serde_json::{json, Value as J};
use vcommon::{catch, enumerate, hash64, machinery_failure, par_for, Args, Report, Tier, Violation};
use zbus::{
    message::{Message, Type},
    zvariant::{ObjectPath, StructureBuilder, Value},
    MatchRule,
};

use crate::refmatch::{self, Key, MType, Owner, RArg, RMsg, RRule, V3};

// ---------------------------------------------------------------------------------------------
// descriptors

#[derive(Clone, Debug, PartialEq, Eq, Hash)]
pub enum BArg {
    S(String),
    O(String),
    U(u32),
    /// a variant holding a string
    V(String),
}

impl BArg {
    fn kind(&self) -> &'static str {
        match self {
            BArg::S(_) => "s",
            BArg::O(_) => "o",
            BArg::U(_) => "u",
            BArg::V(_) => "v",
        }
    }
    fn to_json(&self) -> J {
        match self {
            BArg::S(s) => json!({"s": s}),
            BArg::O(s) => json!({"o": s}),
            BArg::U(u) => json!({"u": u}),
            BArg::V(s) => json!({"v": s}),
        }
    }
    fn from_json(v: &J) -> BArg {
        if let Some(s) = v["s"].as_str() {
            BArg::S(s.into())
        } else if let Some(s) = v["o"].as_str() {
            BArg::O(s.into())
        } else if let Some(s) = v["v"].as_str() {
            BArg::V(s.into())
        } else {
            BArg::U(v["u"].as_u64().unwrap_or(0) as u32)
        }
    }
}

#[derive(Clone, Debug, PartialEq, Eq, Hash)]
pub struct MsgDesc {
    pub mtype: MType,
    pub sender: Option<String>,
    pub interface: Option<String>,
    pub member: String,
    pub path: String,
    pub destination: Option<String>,
    pub body: Vec<BArg>,
}

impl MsgDesc {
    pub fn to_rmsg(&self) -> RMsg {
        RMsg {
            mtype: self.mtype,
            sender: self.sender.clone(),
            interface: self.interface.clone(),
            member: Some(self.member.clone()),
            path: Some(self.path.clone()),
            destination: self.destination.clone(),
            args: self
                .body
                .iter()
                .map(|a| match a {
                    BArg::S(s) => RArg::Str(s.clone()),
                    BArg::O(s) => RArg::Path(s.clone()),
                    _ => RArg::Other,
                })
                .collect(),
        }
    }
    pub fn to_json(&self) -> J {
        json!({
            "type": self.mtype.as_str(),
            "sender": self.sender,
            "interface": self.interface,
            "member": self.member,
            "path": self.path,
            "destination": self.destination,
            "body": self.body.iter().map(|a| a.to_json()).collect::<Vec<_>>(),
        })
    }
    pub fn from_json(v: &J) -> MsgDesc {
        let s = |k: &str| v[k].as_str().map(|x| x.to_string());
        MsgDesc {
            mtype: v["type"].as_str().and_then(MType::parse).unwrap_or(MType::Signal),
            sender: s("sender"),
            interface: s("interface"),
            member: s("member").unwrap_or_else(|| "A".into()),
            path: s("path").unwrap_or_else(|| "/".into()),
            destination: s("destination"),
            body: v["body"]
                .as_array()
                .map(|a| a.iter().map(BArg::from_json).collect())
                .unwrap_or_default(),
        }
    }
    fn body_signature(&self) -> String {
        self.body.iter().map(|a| a.kind()).collect()
    }
}

/// Build the real message through the public builder API.
pub fn build_msg(d: &MsgDesc) -> Result<Message, String> {
    let e = |e: zbus::Error| e.to_string();
    let mut b = match d.mtype {
        MType::Signal => Message::signal(
            d.path.as_str(),
            d.interface.as_deref().ok_or("a signal needs an interface")?,
            d.member.as_str(),
        )
        .map_err(e)?,
        MType::MethodCall => {
            let b = Message::method_call(d.path.as_str(), d.member.as_str()).map_err(e)?;
            match &d.interface {
                Some(i) => b.interface(i.as_str()).map_err(e)?,
                None => b,
            }
        }
        _ => return Err("only signals and method calls are generated".into()),
    };
    if let Some(s) = &d.sender {
        b = b.sender(s.as_str()).map_err(e)?;
    }
    if let Some(x) = &d.destination {
        b = b.destination(x.as_str()).map_err(e)?;
    }
    if d.body.is_empty() {
        return b.build(&()).map_err(e);
    }
    let mut sb = StructureBuilder::new();
    for a in &d.body {
        sb = match a {
            BArg::S(s) => sb.add_field(s.clone()),
            BArg::O(p) => sb.add_field(ObjectPath::try_from(p.clone()).map_err(|e| e.to_string())?),
            BArg::U(u) => sb.add_field(*u),
            BArg::V(s) => sb.append_field(Value::Value(Box::new(Value::from(s.clone())))),
        };
    }
    let st = sb.build().map_err(|e| e.to_string())?;
    b.build(&st).map_err(e)
}

fn ztype(t: MType) -> Type {
    match t {
        MType::MethodCall => Type::MethodCall,
        MType::MethodReturn => Type::MethodReturn,
        MType::Error => Type::Error,
        MType::Signal => Type::Signal,
    }
}

/// Build the real rule through the public builder API.
pub fn build_rule(r: &RRule) -> Result<MatchRule<'static>, String> {
    let e = |e: zbus::Error| e.to_string();
    let mut b = MatchRule::builder();
    if let Some(t) = r.msg_type {
        b = b.msg_type(ztype(t));
    }
    if let Some(s) = &r.sender {
        b = b.sender(s.clone()).map_err(e)?;
    }
    if let Some(s) = &r.interface {
        b = b.interface(s.clone()).map_err(e)?;
    }
    if let Some(s) = &r.member {
        b = b.member(s.clone()).map_err(e)?;
    }
    if let Some(s) = &r.path {
        b = b.path(s.clone()).map_err(e)?;
    }
    if let Some(s) = &r.path_namespace {
        b = b.path_namespace(s.clone()).map_err(e)?;
    }
    if let Some(s) = &r.destination {
        b = b.destination(s.clone()).map_err(e)?;
    }
    for (i, v) in &r.args {
        b = b.arg(*i, v.clone()).map_err(e)?;
    }
    for (i, v) in &r.arg_paths {
        b = b.arg_path(*i, v.clone()).map_err(e)?;
    }
    if let Some(s) = &r.arg0namespace {
        b = b.arg0ns(s.clone()).map_err(e)?;
    }
    Ok(b.build())
}

/// 0 = no match, 1 = match, 2 = Err, 3 = panic
fn zeval(rule: &MatchRule<'_>, msg: &Message) -> u8 {
    match catch(|| rule.matches(msg)) {
        Ok(Ok(false)) => 0,
        Ok(Ok(true)) => 1,
        Ok(Err(_)) => 2,
        Err(_) => 3,
    }
}

fn zname(z: u8) -> &'static str {
    match z {
        0 => "no-match",
        1 => "match",
        2 => "error",
        _ => "panic",
    }
}

// ---------------------------------------------------------------------------------------------
// the space

#[derive(Clone, Debug)]
pub enum Opt {
    Type(MType),
    Sender(String),
    Interface(String),
    Member(String),
    Path(String),
    PathNs(String),
    Dest(String),
    Arg(u8, String),
    ArgPath(u8, String),
    Arg0Ns(String),
}

impl Opt {
    pub fn apply(&self, r: &mut RRule) {
        match self {
            Opt::Type(t) => r.msg_type = Some(*t),
            Opt::Sender(s) => r.sender = Some(s.clone()),
            Opt::Interface(s) => r.interface = Some(s.clone()),
            Opt::Member(s) => r.member = Some(s.clone()),
            Opt::Path(s) => r.path = Some(s.clone()),
            Opt::PathNs(s) => r.path_namespace = Some(s.clone()),
            Opt::Dest(s) => r.destination = Some(s.clone()),
            Opt::Arg(i, s) => {
                r.args.insert(*i, s.clone());
            }
            Opt::ArgPath(i, s) => {
                r.arg_paths.insert(*i, s.clone());
            }
            Opt::Arg0Ns(s) => r.arg0namespace = Some(s.clone()),
        }
    }
    pub fn key(&self) -> Key {
        match self {
            Opt::Type(_) => Key::Type,
            Opt::Sender(_) => Key::Sender,
            Opt::Interface(_) => Key::Interface,
            Opt::Member(_) => Key::Member,
            Opt::Path(_) => Key::Path,
            Opt::PathNs(_) => Key::PathNamespace,
            Opt::Dest(_) => Key::Destination,
            Opt::Arg(i, _) => Key::Arg(*i),
            Opt::ArgPath(i, _) => Key::ArgPath(*i),
            Opt::Arg0Ns(_) => Key::Arg0Namespace,
        }
    }
}

pub const WK_SENDER: &str = "a.wk";
pub const WK_DEST: &str = "a.wkd";
pub const IFACE_A: &str = "i.A";
pub const IFACE_B: &str = "i.B";

/// Rule key slots; option 0 of every slot is "key absent".
pub fn rule_slots() -> Vec<Vec<Option<Opt>>> {
    let s = |x: &str| x.to_string();
    vec![
        vec![None, Some(Opt::Type(MType::Signal)), Some(Opt::Type(MType::MethodCall))],
        vec![None, Some(Opt::Sender(s(":1.1"))), Some(Opt::Sender(s(WK_SENDER)))],
        vec![None, Some(Opt::Interface(s(IFACE_A))), Some(Opt::Interface(s(IFACE_B)))],
        vec![None, Some(Opt::Member(s("A"))), Some(Opt::Member(s("B")))],
        vec![
            None,
            Some(Opt::Path(s("/a"))),
            Some(Opt::Path(s("/a/b"))),
            Some(Opt::PathNs(s("/a"))),
            Some(Opt::PathNs(s("/"))),
        ],
        vec![None, Some(Opt::Dest(s(":1.2")))],
        // (the last value is path-like: it must match a STRING argument with that text and must
        // not match an object-path argument with that text — argN is for strings only)
        vec![None, Some(Opt::Arg(0, s("x"))), Some(Opt::Arg(0, s(""))), Some(Opt::Arg(0, s("/a/b")))],
        vec![None, Some(Opt::Arg(1, s("x")))],
        vec![None, Some(Opt::ArgPath(0, s("/a/b"))), Some(Opt::ArgPath(0, s("/")))],
        vec![None, Some(Opt::Arg0Ns(s("a.b")))],
    ]
}

/// Rule values the specification allows but the builder refuses (recorded, not judged: the
/// property quantifies over rules built through the API).
fn unbuildable_probe(report: &Report) {
    let mut r = RRule::default();
    r.arg_paths.insert(0, "/a/".into());
    match build_rule(&r) {
        Ok(_) => report.outcome("builder: arg0path='/a/' accepted"),
        Err(_) => {
            report.outcome("builder: arg0path='/a/' refused (trailing slash is not an object path)");
            report.note("argNpath values with a trailing slash (specification example arg0path='/aa/bb/') cannot be expressed through MatchRule::builder(): arg_path takes an ObjectPath; such rules are outside the enumerated space");
        }
    }
}

pub fn bodies() -> Vec<Vec<BArg>> {
    let s = |x: &str| BArg::S(x.to_string());
    let o = |x: &str| BArg::O(x.to_string());
    vec![
        vec![],
        vec![s("x")],
        vec![s("xy")],
        vec![s("")],
        vec![o("/a/b")],
        vec![o("/")],
        vec![o("/a/b/c")],
        vec![s("/a/")],
        vec![s("/a/b")],
        vec![s("/a/b/c")],
        vec![s("/a/b/")],
        vec![s("/")],
        vec![BArg::U(1)],
        vec![BArg::V("x".into())],
        vec![s("a.b.c")],
        vec![s("a.bc")],
        vec![s("a.b")],
        vec![s("x"), s("x")],
        vec![s("x"), s("y")],
        vec![BArg::U(1), s("x")],
        vec![s("x"), BArg::U(1)],
        vec![s("a.b.c"), s("x")],
        vec![s("/a/b"), s("x")],
    ]
}

pub fn messages() -> Vec<MsgDesc> {
    let senders = [None, Some(":1.1"), Some(":1.9")];
    let members = ["A", "B"];
    let paths = ["/", "/a", "/ab", "/a/b", "/a/bc"];
    let dests = [None, Some(":1.2"), Some(":1.3"), Some(WK_DEST)];
    let bodies = bodies();
    let mut out = vec![];
    for mtype in [MType::Signal, MType::MethodCall] {
        let ifaces: &[Option<&str>] = if mtype == MType::Signal {
            &[Some(IFACE_A), Some(IFACE_B)]
        } else {
            &[Some(IFACE_A), Some(IFACE_B), None]
        };
        for sender in senders {
            for iface in ifaces {
                for member in members {
                    for path in paths {
                        for dest in dests {
                            for body in &bodies {
                                out.push(MsgDesc {
                                    mtype,
                                    sender: sender.map(String::from),
                                    interface: iface.map(String::from),
                                    member: member.into(),
                                    path: path.into(),
                                    destination: dest.map(String::from),
                                    body: body.clone(),
                                });
                            }
                        }
                    }
                }
            }
        }
    }
    out
}

/// The harness must not misrepresent the message: what was asked for is what the header says.
fn sanity(d: &MsgDesc, m: &Message) -> Result<(), String> {
    let h = m.header();
    let same = |a: Option<String>, b: &Option<String>| a == *b;
    if ztype(d.mtype) != m.message_type()
        || !same(h.sender().map(|s| s.to_string()), &d.sender)
        || !same(h.interface().map(|s| s.to_string()), &d.interface)
        || !same(h.member().map(|s| s.to_string()), &Some(d.member.clone()))
        || !same(h.path().map(|s| s.to_string()), &Some(d.path.clone()))
        || !same(h.destination().map(|s| s.to_string()), &d.destination)
        || m.body().signature().to_string_no_parens() != d.body_signature()
    {
        return Err(format!(
            "built message does not read back as described: {} (body signature {})",
            d.to_json(),
            m.body().signature()
        ));
    }
    Ok(())
}

// ---------------------------------------------------------------------------------------------
// features

fn relation(opt: &Opt, m: &MsgDesc) -> BTreeMap<String, String> {
    let mut f = BTreeMap::new();
    let mut put = |k: &str, v: &str| {
        f.insert(k.to_string(), v.to_string());
    };
    let arg_kind = |i: u8| m.body.get(i as usize).map(|a| a.kind()).unwrap_or("missing");
    let arg_text = |i: u8| match m.body.get(i as usize) {
        Some(BArg::S(s)) | Some(BArg::O(s)) => Some(s.as_str()),
        _ => None,
    };
    match opt {
        Opt::Type(t) => put("relation", if *t == m.mtype { "equal" } else { "different" }),
        Opt::Sender(s) => {
            put("rule_name", if refmatch::is_unique(s) { "unique" } else { "well-known" });
            put(
                "relation",
                match &m.sender {
                    None => "msg-has-no-sender",
                    Some(x) if x == s => "equal",
                    Some(_) => "different",
                },
            );
        }
        Opt::Interface(s) => put(
            "relation",
            match &m.interface {
                None => "msg-has-no-interface",
                Some(x) if x == s => "equal",
                Some(_) => "different",
            },
        ),
        Opt::Member(s) => put("relation", if *s == m.member { "equal" } else { "different" }),
        Opt::Path(s) => put("relation", if *s == m.path { "equal" } else { "different" }),
        Opt::PathNs(ns) => put(
            "relation",
            if m.path == *ns {
                "equal"
            } else if refmatch::path_in_namespace(&m.path, ns) {
                "below"
            } else if m.path.starts_with(ns.as_str()) {
                "sibling-sharing-string-prefix"
            } else {
                "unrelated"
            },
        ),
        Opt::Dest(d) => put(
            "relation",
            match &m.destination {
                None => "msg-has-no-destination",
                Some(x) if x == d => "equal",
                Some(x) if refmatch::is_unique(x) => "other-unique",
                Some(_) => "well-known",
            },
        ),
        Opt::Arg(i, v) => {
            put("arg_type", arg_kind(*i));
            put(
                "relation",
                match arg_text(*i) {
                    Some(t) if t == v => "equal",
                    Some(_) => "different",
                    None => "no-text",
                },
            );
        }
        Opt::ArgPath(i, v) => {
            put("arg_type", arg_kind(*i));
            put(
                "relation",
                match arg_text(*i) {
                    Some(t) if t == v => "equal",
                    Some(t) if v.ends_with('/') && t.starts_with(v.as_str()) => "slash-prefix",
                    Some(t) if t.ends_with('/') && v.starts_with(t) => "slash-prefix",
                    Some(_) => "unrelated",
                    None => "no-text",
                },
            );
            if let Some(t) = arg_text(*i) {
                if t != v && v.ends_with('/') && t.starts_with(v.as_str()) {
                    put("slash_side", "rule-value-ends-with-slash-and-prefixes-argument");
                } else if t != v && t.ends_with('/') && v.starts_with(t) {
                    put("slash_side", "argument-ends-with-slash-and-prefixes-rule-value");
                }
            }
        }
        Opt::Arg0Ns(ns) => {
            put("arg_type", arg_kind(0));
            put("n_args", if m.body.len() <= 1 { "at-most-1" } else { "2-or-more" });
            put(
                "relation",
                match arg_text(0) {
                    Some(t) if t == ns => "equal",
                    Some(t) if refmatch::in_name_namespace(t, ns) => "below",
                    Some(t) if t.starts_with(ns.as_str()) => "sibling-sharing-string-prefix",
                    Some(_) => "unrelated",
                    None => "no-text",
                },
            );
        }
    }
    f
}

// ---------------------------------------------------------------------------------------------

struct Ctx {
    slots: Vec<Vec<Option<Opt>>>,
    descs: Vec<MsgDesc>,
    msgs: Vec<Message>,
    /// [slot][opt] -> per message reference verdict (0 no, 1 yes, 2 unresolved); empty for "absent"
    ref_tab: Vec<Vec<Vec<u8>>>,
    /// [slot][opt] -> per message zbus verdict for the single-key rule
    zb_tab: Vec<Vec<Vec<u8>>>,
}

fn single_rule(opt: &Opt) -> RRule {
    let mut r = RRule::default();
    opt.apply(&mut r);
    r
}

fn build_ctx() -> Ctx {
    let slots = rule_slots();
    let descs = messages();
    let msgs: Vec<Message> = descs
        .iter()
        .map(|d| {
            let m = build_msg(d).unwrap_or_else(|e| machinery_failure(&format!("cannot build message {}: {e}", d.to_json())));
            if let Err(e) = sanity(d, &m) {
                machinery_failure(&e);
            }
            m
        })
        .collect();
    let rmsgs: Vec<RMsg> = descs.iter().map(|d| d.to_rmsg()).collect();
    let mut ref_tab = vec![];
    let mut zb_tab = vec![];
    for slot in &slots {
        let mut rt = vec![];
        let mut zt = vec![];
        for opt in slot {
            match opt {
                None => {
                    rt.push(vec![]);
                    zt.push(vec![]);
                }
                Some(o) => {
                    let rr = single_rule(o);
                    let zr = build_rule(&rr)
                        .unwrap_or_else(|e| machinery_failure(&format!("cannot build rule {}: {e}", refmatch::print(&rr))));
                    rt.push(
                        rmsgs
                            .iter()
                            .map(|m| match refmatch::key_matches(&rr, o.key(), m, &refmatch::nobody_knows) {
                                V3::No => 0,
                                V3::Yes => 1,
                                V3::Unresolved => 2,
                            })
                            .collect(),
                    );
                    zt.push(msgs.iter().map(|m| zeval(&zr, m)).collect());
                }
            }
        }
        ref_tab.push(rt);
        zb_tab.push(zt);
    }
    Ctx {
        slots,
        descs,
        msgs,
        ref_tab,
        zb_tab,
    }
}

fn rule_of(ctx: &Ctx, idx: &[usize]) -> RRule {
    let mut r = RRule::default();
    for (s, i) in idx.iter().enumerate() {
        if let Some(o) = &ctx.slots[s][*i] {
            o.apply(&mut r);
        }
    }
    r
}

fn expected_text(ctx: &Ctx, idx: &[usize], mi: usize) -> String {
    let mut parts = vec![];
    for (s, i) in idx.iter().enumerate() {
        if let Some(o) = &ctx.slots[s][*i] {
            let v = ctx.ref_tab[s][*i][mi];
            parts.push(format!(
                "{}:{}",
                o.key().name(),
                match v {
                    0 => "no",
                    1 => "yes",
                    _ => "unresolvable-name",
                }
            ));
        }
    }
    parts.join(" ")
}

fn part1(ctx: &Ctx, report: &Report) {
    for (s, slot) in ctx.slots.iter().enumerate() {
        for (oi, opt) in slot.iter().enumerate() {
            let Some(o) = opt else { continue };
            let rr = single_rule(o);
            let mut classes: BTreeSet<u64> = BTreeSet::new();
            for mi in 0..ctx.msgs.len() {
                report.eval(1);
                let rv = ctx.ref_tab[s][oi][mi];
                let z = ctx.zb_tab[s][oi][mi];
                let exp = (rv != 0) as u8;
                let rel = relation(o, &ctx.descs[mi]);
                classes.insert(hash64(&(s, oi, &rel, rv)));
                if z == exp {
                    report.outcome(match rv {
                        0 => "single-key: agree no-match",
                        1 => "single-key: agree match",
                        _ => "single-key: well-known name unresolvable locally, treated as match",
                    });
                    continue;
                }
                report.outcome(if z > 1 {
                    "single-key: zbus error/panic"
                } else if z == 1 {
                    "single-key: zbus matches, specification does not"
                } else {
                    "single-key: specification matches, zbus does not"
                });
                let mut v = Violation::new(
                    "matches-iff-specification",
                    format!(
                        "rule {} vs message {}: specification says {}, MatchRule::matches says {}",
                        refmatch::print(&rr),
                        ctx.descs[mi].to_json(),
                        if exp == 1 { "match" } else { "no-match" },
                        zname(z)
                    ),
                    json!({"rule": refmatch::rule_to_json(&rr), "msg": ctx.descs[mi].to_json()}),
                )
                .feat("kind", "single-key")
                .feat("key", o.key().family())
                .feat("expected", if exp == 1 { "match" } else { "no-match" })
                .feat("observed", zname(z));
                for (k, val) in rel {
                    v = v.feat(&k, val);
                }
                report.violation(v);
            }
            report.nontrivial_many(classes);
        }
    }
}

/// Greedy minimisation of a key-interaction disagreement: drop keys while zbus still differs from
/// both the reference and the conjunction of its own single-key answers.
fn minimise(ctx: &Ctx, idx: &[usize], mi: usize) -> Vec<usize> {
    let mut cur = idx.to_vec();
    let bad = |ix: &[usize]| -> bool {
        let (exp, zand) = conj(ctx, ix, mi);
        let r = rule_of(ctx, ix);
        let Ok(zr) = build_rule(&r) else { return false };
        let z = zeval(&zr, &ctx.msgs[mi]);
        z != exp && z != zand
    };
    loop {
        let mut changed = false;
        for s in 0..cur.len() {
            if cur[s] != 0 {
                let save = cur[s];
                cur[s] = 0;
                if bad(&cur) {
                    changed = true;
                } else {
                    cur[s] = save;
                }
            }
        }
        if !changed {
            return cur;
        }
    }
}

/// (expected, conjunction of zbus single-key verdicts) for a rule index vector and a message.
#[inline]
fn conj(ctx: &Ctx, idx: &[usize], mi: usize) -> (u8, u8) {
    let mut exp = 1u8;
    let mut zand = 1u8;
    for (s, i) in idx.iter().enumerate() {
        if *i == 0 {
            continue;
        }
        if ctx.ref_tab[s][*i][mi] == 0 {
            exp = 0;
        }
        let z = ctx.zb_tab[s][*i][mi];
        if z > 1 {
            zand = zand.max(z);
        } else if z == 0 && zand <= 1 {
            zand = 0;
        }
    }
    (exp, zand)
}

fn part2(ctx: &Ctx, report: &Report, tier: Tier, full: bool) {
    let dims: Vec<usize> = ctx.slots.iter().map(|s| s.len()).collect();
    let n_rules = enumerate::product_size(&dims);
    let n_msgs = ctx.msgs.len();
    report.set("rules", json!(n_rules));
    report.set("messages", json!(n_msgs));
    report.set("pairs_in_product", json!(n_rules as u64 * n_msgs as u64));
    let max_miss: u32 = if full { u32::MAX } else { 2 };
    let sampled = Mutex::new(0usize);
    // key-interaction violations are collected and reported in (rule, message) order
    let found: Mutex<Vec<(usize, usize, Violation)>> = Mutex::new(vec![]);
    let _ = tier;
    par_for(n_rules, 4, |ri| {
        let mut idx = vec![];
        enumerate::nth_product(&dims, ri, &mut idx);
        let present = idx.iter().filter(|i| **i != 0).count();
        if present < 2 {
            return; // part 1 (and the empty rule below)
        }
        let rr = rule_of(ctx, &idx);
        let zr = match build_rule(&rr) {
            Ok(z) => z,
            Err(e) => machinery_failure(&format!("cannot build rule {}: {e}", refmatch::print(&rr))),
        };
        let active: Vec<(usize, usize)> = idx.iter().enumerate().filter(|(_, i)| **i != 0).map(|(s, i)| (s, *i)).collect();
        let mut masks: BTreeSet<u64> = BTreeSet::new();
        let (mut n_eval, mut n_skip) = (0u64, 0u64);
        let mut oc = [0u64; 6];
        for mi in 0..n_msgs {
            // number of keys the reference says do not match
            let mut miss = 0u32;
            let mut mask = 0u64;
            let mut unresolved = false;
            for (b, (s, i)) in active.iter().enumerate() {
                match ctx.ref_tab[*s][*i][mi] {
                    0 => {
                        miss += 1;
                        mask |= 1 << b;
                    }
                    2 => unresolved = true,
                    _ => {}
                }
            }
            if miss > max_miss {
                n_skip += 1;
                continue;
            }
            n_eval += 1;
            masks.insert(hash64(&(ri, mask)));
            let exp = (miss == 0) as u8;
            let z = zeval(&zr, &ctx.msgs[mi]);
            if z == exp {
                oc[if exp == 0 {
                    0
                } else if unresolved {
                    2
                } else {
                    1
                }] += 1;
                if (exp == 1 || miss == 1) && (ri + mi) % 977 == 0 {
                    let mut g = sampled.lock().unwrap();
                    if *g < 12 {
                        *g += 1;
                        report.sample(json!({"rule": refmatch::print(&rr), "msg": ctx.descs[mi].to_json(),
                            "reference": expected_text(ctx, &idx, mi), "zbus": zname(z)}));
                    }
                }
                continue;
            }
            let (_, zand) = conj(ctx, &idx, mi);
            if z == zand {
                // explained by the single-key disagreements reported in part 1
                oc[3] += 1;
                continue;
            }
            oc[4] += 1;
            if found.lock().unwrap().len() >= 20_000 {
                continue; // counted; enough witnesses kept
            }
            let min = minimise(ctx, &idx, mi);
            let mr = rule_of(ctx, &min);
            let keys: Vec<String> = mr.keys().iter().map(|k| k.family().to_string()).collect();
            let zmin = build_rule(&mr).map(|r| zeval(&r, &ctx.msgs[mi])).unwrap_or(2);
            let (emin, zandmin) = conj(ctx, &min, mi);
            found.lock().unwrap().push((ri, mi,
                Violation::new(
                    "matches-iff-specification",
                    format!(
                        "rule {} vs message {}: per-key reference verdicts [{}] so the specification says {}; MatchRule::matches says {} although its answers for the same keys taken one at a time combine to {}",
                        refmatch::print(&mr),
                        ctx.descs[mi].to_json(),
                        expected_text(ctx, &min, mi),
                        if emin == 1 { "match" } else { "no-match" },
                        zname(zmin),
                        zname(zandmin),
                    ),
                    json!({"rule": refmatch::rule_to_json(&mr), "msg": ctx.descs[mi].to_json()}),
                )
                .feat("kind", "key-interaction")
                .feat("keys", keys.join("+"))
                .feat("expected", if emin == 1 { "match" } else { "no-match" })
                .feat("observed", zname(zmin)),
            ));
        }
        report.eval(n_eval);
        report.add("pairs_skipped_more_than_2_keys_from_a_match", n_skip);
        report.nontrivial_many(masks);
        for (i, name) in [
            "product: agree no-match",
            "product: agree match",
            "product: agree match modulo unresolvable well-known name",
            "product: disagreement explained by single-key findings",
            "product: key-interaction disagreement",
        ]
        .iter()
        .enumerate()
        {
            if oc[i] > 0 {
                report.outcome_n(name, oc[i]);
            }
        }
    });
    let mut found = found.into_inner().unwrap();
    found.sort_by_key(|(r, m, _)| (*r, *m));
    for (_, _, v) in found {
        report.violation(v);
    }
    // the empty rule matches everything
    let empty = build_rule(&RRule::default()).unwrap_or_else(|e| machinery_failure(&e));
    for (mi, m) in ctx.msgs.iter().enumerate() {
        report.eval(1);
        let z = zeval(&empty, m);
        if z != 1 {
            report.violation(
                Violation::new(
                    "matches-iff-specification",
                    format!("the empty rule vs {}: MatchRule::matches says {}", ctx.descs[mi].to_json(), zname(z)),
                    json!({"rule": refmatch::rule_to_json(&RRule::default()), "msg": ctx.descs[mi].to_json()}),
                )
                .feat("kind", "empty-rule")
                .feat("observed", zname(z)),
            );
        }
    }
}

// ---------------------------------------------------------------------------------------------
// audit of refmatch against the reference bus daemon

/// `sabotage`: self-test of the audit — the reference is deliberately given zbus's reading of
/// path_namespace (plain string prefix); the audit must then stop with a machinery failure.
fn audit(report: &Report, sabotage: bool) -> J {
    use refmatch::audit::{Bus, Pair};
    let lib = match refmatch::ffi::Lib::load() {
        Ok(l) => l,
        Err(e) => machinery_failure(&format!("C21 audit: {e}")),
    };
    let bus = Bus::start("c21-bus").unwrap_or_else(|e| machinery_failure(&format!("C21 audit: {e}")));
    let pair = Pair::new(&lib, &bus).unwrap_or_else(|e| machinery_failure(&format!("C21 audit: {e}")));
    let s_name = pair.s.unique.clone();
    let t_name = pair.t.unique.clone();
    match pair.s.request_name(WK_SENDER) {
        Ok(1) => {}
        other => machinery_failure(&format!("C21 audit: RequestName gave {other:?}")),
    }
    let owners = |n: &str| {
        if n == WK_SENDER {
            Owner::Unique(s_name.clone())
        } else {
            Owner::NoOwner
        }
    };
    // rules: every single-key option of the C21 space, names mapped onto the live connections,
    // plus two-key combinations of neighbours
    let map_name = |n: &str| -> String {
        match n {
            ":1.1" => s_name.clone(),
            ":1.2" => s_name.clone(),
            other => other.to_string(),
        }
    };
    let mut rules: Vec<RRule> = vec![RRule::default()];
    let mut singles: Vec<RRule> = vec![];
    for slot in rule_slots() {
        for o in slot.into_iter().flatten() {
            let o = match o {
                Opt::Sender(s) => Opt::Sender(map_name(&s)),
                Opt::Dest(s) => Opt::Dest(map_name(&s)),
                o => o,
            };
            singles.push(single_rule(&o));
        }
    }
    // extra single-key rules only the daemon can take
    for extra in [
        Opt::Sender(t_name.clone()),
        Opt::Sender("a.unowned".into()),
        Opt::Dest(t_name.clone()),
        Opt::Dest(WK_SENDER.into()),
        Opt::ArgPath(0, "/a/".into()),
        Opt::ArgPath(1, "/a/".into()),
        Opt::Arg(1, "y".into()),
        Opt::PathNs("/a/b".into()),
    ] {
        singles.push(single_rule(&extra));
    }
    rules.extend(singles.iter().cloned());
    for i in 0..singles.len() {
        for j in (i + 1)..singles.len().min(i + 4) {
            // merge two single-key rules when they do not collide
            let (a, b) = (&singles[i], &singles[j]);
            let ka = a.keys()[0];
            let kb = b.keys()[0];
            let same_arg = |x: Key, y: Key| {
                let ix = |k: Key| match k {
                    Key::Arg(i) | Key::ArgPath(i) => Some(i),
                    Key::Arg0Namespace => Some(0),
                    _ => None,
                };
                ix(x).is_some() && ix(x) == ix(y)
            };
            let path_pair = matches!(ka, Key::Path | Key::PathNamespace) && matches!(kb, Key::Path | Key::PathNamespace);
            if ka == kb || same_arg(ka, kb) || path_pair {
                continue;
            }
            let mut m = a.clone();
            for k in b.keys() {
                let o = b.only(k);
                m.msg_type = m.msg_type.or(o.msg_type);
                m.sender = m.sender.or(o.sender);
                m.interface = m.interface.or(o.interface);
                m.member = m.member.or(o.member);
                m.path = m.path.or(o.path);
                m.path_namespace = m.path_namespace.or(o.path_namespace);
                m.destination = m.destination.or(o.destination);
                m.args.extend(o.args);
                m.arg_paths.extend(o.arg_paths);
                m.arg0namespace = m.arg0namespace.or(o.arg0namespace);
            }
            rules.push(m);
        }
    }
    // messages: full header product with three bodies + every body with a few headers.
    // A method call without destination is consumed by the daemon itself and an empty string
    // argument makes the daemon's argNpath code read before the buffer: both left out (mask).
    let mut msgs: Vec<RMsg> = vec![];
    let all_bodies = bodies();
    let hdr_bodies = [0usize, 1, 4];
    for mtype in [MType::Signal, MType::MethodCall] {
        for iface in [IFACE_A, IFACE_B] {
            for member in ["A", "B"] {
                for path in ["/", "/a", "/ab", "/a/b", "/a/bc"] {
                    for dest in [None, Some(s_name.as_str()), Some(t_name.as_str()), Some(WK_SENDER)] {
                        if mtype == MType::MethodCall && dest.is_none() {
                            continue;
                        }
                        for (bi, body) in all_bodies.iter().enumerate() {
                            let few_hdr = iface == IFACE_A && member == "A" && path == "/a/b" && (dest.is_none() || dest == Some(s_name.as_str()));
                            if !(hdr_bodies.contains(&bi) || few_hdr) {
                                continue;
                            }
                            if body.iter().any(|a| matches!(a, BArg::S(s) if s.is_empty())) {
                                continue;
                            }
                            let d = MsgDesc {
                                mtype,
                                sender: Some(s_name.clone()),
                                interface: Some(iface.into()),
                                member: member.into(),
                                path: path.into(),
                                destination: dest.map(String::from),
                                body: body.clone(),
                            };
                            msgs.push(d.to_rmsg());
                        }
                    }
                }
            }
        }
    }
    let mut n = 0u64;
    let mut n_match = 0u64;
    for r in &rules {
        let mut r = r.clone();
        r.eavesdrop = Some(true);
        let text = refmatch::print(&r);
        // the printed form must parse back to the same rule (printer/parser self-consistency)
        match refmatch::parse(&text, refmatch::ParseOpts::DAEMON) {
            Ok(p) if p == r => {}
            other => machinery_failure(&format!("C21 audit: refmatch print/parse inconsistent for {text}: {other:?}")),
        }
        let got = match pair.deliveries(&text, &msgs) {
            Ok(Ok(g)) => g,
            Ok(Err(e)) => machinery_failure(&format!("C21 audit: dbus-daemon refused rule {text}: {e}")),
            Err(e) => machinery_failure(&format!("C21 audit: {e}")),
        };
        for (m, delivered) in msgs.iter().zip(got) {
            n += 1;
            let mut want = match refmatch::matches(&r, m, &owners) {
                V3::Yes => true,
                V3::No => false,
                V3::Unresolved => machinery_failure("C21 audit: unresolved name with a full owner table"),
            };
            if sabotage {
                if let (Some(ns), Some(p)) = (&r.path_namespace, &m.path) {
                    let mut r2 = r.clone();
                    r2.path_namespace = None;
                    want = p.starts_with(ns.as_str()) && refmatch::matches(&r2, m, &owners) == V3::Yes;
                }
            }
            if want {
                n_match += 1;
            }
            if want != delivered {
                machinery_failure(&format!(
                    "C21 audit: reference model and dbus-daemon disagree: rule {text} message {m:?}: refmatch says {want}, daemon delivered = {delivered} (S={s_name} T={t_name}, {WK_SENDER} owned by S)"
                ));
            }
        }
    }
    let summary = json!({"rules": rules.len(), "messages": msgs.len(), "deliveries_compared": n, "of_which_matching": n_match,
               "masked": ["method calls without destination (consumed by the daemon)", "empty string arguments (daemon argNpath reads actual[-1])", "variant arguments are sent as uint32"]});
    report.set("audit_refmatch_vs_dbus_daemon", summary.clone());
    report.assume("refmatch agrees with the installed dbus-daemon on the audit grid (every key option, neighbouring two-key combinations, eavesdrop='true' added to see unicast traffic)");
    summary
}

// ---------------------------------------------------------------------------------------------

fn replay(path: &str) -> i32 {
    let v = vcommon::load_replay(path);
    let rr = refmatch::rule_from_json(&v["replay"]["rule"]);
    let d = MsgDesc::from_json(&v["replay"]["msg"]);
    println!("rule (reference print): {}", refmatch::print(&rr));
    let zr = match build_rule(&rr) {
        Ok(z) => z,
        Err(e) => {
            println!("MatchRule::builder() refused the rule: {e}");
            return 0;
        }
    };
    println!("rule (zbus Display):    {zr}");
    println!("message: {}", d.to_json());
    let m = match build_msg(&d) {
        Ok(m) => m,
        Err(e) => {
            println!("message cannot be built: {e}");
            return 0;
        }
    };
    let rm = d.to_rmsg();
    for k in rr.keys() {
        let sub = rr.only(k);
        let zs = build_rule(&sub).map(|r| zname(zeval(&r, &m))).unwrap_or("unbuildable");
        println!(
            "  key {:16} reference: {:?}   zbus (key alone): {}",
            k.name(),
            refmatch::key_matches(&rr, k, &rm, &refmatch::nobody_knows),
            zs
        );
    }
    let want = refmatch::matches(&rr, &rm, &refmatch::nobody_knows);
    let z = zeval(&zr, &m);
    println!("reference: {want:?} (Unresolved counts as match: documented exception)");
    println!("MatchRule::matches: {}", zname(z));
    let exp = (want != V3::No) as u8;
    if z == exp {
        println!("AGREE");
        0
    } else {
        println!("DISAGREE");
        1
    }
}

pub fn main(args: &Args) -> i32 {
    if let Some(p) = &args.replay {
        return replay(p);
    }
    let report = Report::new("C21", args.tier, args.seed, "exploration");
    let audit_only = args.extra.iter().any(|a| a == "--audit-only");
    let selftest = args.extra.iter().any(|a| a == "--audit-selftest");
    if args.tier == Tier::Thorough || audit_only || selftest || args.extra.iter().any(|a| a == "--audit") {
        let summary = audit(&report, selftest);
        if selftest {
            vcommon::machinery_failure("C21 --audit-selftest: the sabotaged reference model was NOT noticed by the dbus-daemon audit");
        }
        if audit_only {
            println!("C21 audit passed: {summary}");
            return 0;
        }
    }
    unbuildable_probe(&report);
    let ctx = build_ctx();
    part1(&ctx, &report);
    let full = args.tier == Tier::Thorough || args.extra.iter().any(|a| a == "--full");
    part2(&ctx, &report, args.tier, full);
    if !full {
        report.note("quick tier: product pairs further than 2 keys from a match are skipped (every single-key rule is evaluated against every message); thorough evaluates the full product");
    }
    report.assume("zbus::Message built by the public builder reads back the requested header fields (asserted) and represents the described message");
    report.assume("reference semantics = conjunction of the per-key rules of the specification's Match Rules section (refmatch), audited against dbus-daemon in the thorough tier");
    report.assume("documented exception: a well-known sender in the rule or a well-known destination in the message counts as matching");
    report.finish(
        "rules = product of per-key option sets (built with MatchRule::builder) x messages = product of header near-misses and bodies; part 1: every single-key rule x every message; part 2: every rule with >= 2 keys x every message (quick: at most 2 keys away from a match). non-trivial case = distinct (rule, set of keys the reference says do not match) / (key option, rule-message relation class)",
        // the quick tier's "at most 2 keys from a match" is the stated bound, enumerated completely
        true,
    )
}
