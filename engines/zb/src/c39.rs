//! C39 — dropping or shutting down a connection releases it correctly.
//!
//! A: a connection with a set of outstanding handles (clone, message stream, proxy + signal
//!    stream, interface reference); the handles are dropped by environment events in every order,
//!    interleaved with task polls. Invariant on every step: the transport is closed ⇔ no handle is
//!    left (checked as "never closed early" on every step and "closed" at quiescence).
//! B: graceful shutdown with an in-flight (gated) method handler.

use std::{
    future::Future,
    pin::Pin,
    sync::{Arc, Mutex},
    task::{Context, Poll, Waker},
};

use serde_json::json;
use vcommon::{Args, Report};
use zbus::{connection::Builder, proxy::CacheProperties, MatchRule, MessageStream};

use crate::{
    explore::ExecResult,
    sched::{finish_model_checking, run_scenario, v, SchedPlan, Totals},
    world::{parse_message, split_messages, Link, SockCfg, Step, World, GUID},
};

#[derive(Clone, Default)]
struct Gate(Arc<Mutex<(bool, Option<Waker>)>>);
impl Gate {
    fn open(&self) {
        let w = {
            let mut g = self.0.lock().unwrap();
            g.0 = true;
            g.1.take()
        };
        if let Some(w) = w {
            w.wake();
        }
    }
    fn wait(&self) -> GateFut {
        GateFut(self.clone())
    }
}
struct GateFut(Gate);
impl Future for GateFut {
    type Output = ();
    fn poll(self: Pin<&mut Self>, cx: &mut Context<'_>) -> Poll<()> {
        let mut g = self.0 .0.lock().unwrap();
        if g.0 {
            Poll::Ready(())
        } else {
            g.1 = Some(cx.waker().clone());
            Poll::Pending
        }
    }
}

struct Slow {
    gate: Gate,
    started: Arc<Mutex<bool>>,
}
#[zbus::interface(name = "a.b.Slow")]
impl Slow {
    async fn work(&self) -> u32 {
        *self.started.lock().unwrap() = true;
        self.gate.wait().await;
        7
    }
    fn quick(&self) -> u32 {
        1
    }
    #[zbus(signal)]
    async fn sig(e: &zbus::object_server::SignalEmitter<'_>) -> zbus::Result<()>;
}

struct SlowNoSpawn {
    gate: Gate,
    started: Arc<Mutex<bool>>,
}
#[zbus::interface(name = "a.b.Slow", spawn = false)]
impl SlowNoSpawn {
    async fn work(&self) -> u32 {
        *self.started.lock().unwrap() = true;
        self.gate.wait().await;
        7
    }
}

fn closed(link: &Link) -> bool {
    link.a2b.with(|c| c.writer_dropped || c.closed)
}

enum Handle_ {
    Clone(zbus::Connection),
    Stream(MessageStream),
    RuleStream(MessageStream),
    Proxy(zbus::Proxy<'static>),
    SignalStream(zbus::proxy::SignalStream<'static>),
    IfaceRef(zbus::object_server::InterfaceRef<Slow>),
    /// a proxy whose property cache was started and populated (the peer answered GetAll)
    CachedProxy(zbus::Proxy<'static>),
}

fn handle_name(h: &Handle_) -> &'static str {
    match h {
        Handle_::Clone(_) => "clone",
        Handle_::Stream(_) => "stream",
        Handle_::RuleStream(_) => "rule-stream",
        Handle_::Proxy(_) => "proxy",
        Handle_::SignalStream(_) => "signal-stream",
        Handle_::IfaceRef(_) => "iface-ref",
        Handle_::CachedProxy(_) => "cached-proxy",
    }
}

/// kinds: bitmask over [clone, stream, rule-stream, proxy, signal-stream, iface-ref, cached-proxy]
/// server modes: 0 = no object server; 1 = an interface served from the builder; 2 = the same and
/// one method call was dispatched, handled and answered before the drops begin; 3 = the object
/// server is created on demand after the connection was built (`conn.object_server().at(..)`)
fn drop_scenario(mask: u32, server_mode: u8) -> ExecResult {
    let with_server = server_mode != 0;
    let mut w = World::new();
    w.horizon = 400;
    let link = Link::new();
    let sock = link.end_a(SockCfg::default());
    let built = w
        .complete("build", async move {
            let mut b = Builder::authenticated_socket(sock, GUID)
                .unwrap()
                .p2p()
                .internal_executor(false);
            if server_mode == 1 || server_mode == 2 {
                b = b
                    .serve_at("/s", Slow { gate: Gate::default(), started: Default::default() })
                    .unwrap();
            }
            let conn = b.build().await.unwrap();
            if server_mode == 3 {
                conn.object_server()
                    .at("/s", Slow { gate: Gate::default(), started: Default::default() })
                    .await
                    .unwrap();
            }
            let mut hs: Vec<Handle_> = vec![];
            if mask & 1 != 0 {
                hs.push(Handle_::Clone(conn.clone()));
            }
            if mask & 2 != 0 {
                hs.push(Handle_::Stream(MessageStream::from(&conn)));
            }
            if mask & 4 != 0 {
                let rule = MatchRule::builder().msg_type(zbus::message::Type::Signal).interface("a.b").unwrap().build();
                hs.push(Handle_::RuleStream(MessageStream::for_match_rule(rule, &conn, None).await.unwrap()));
            }
            if mask & (8 | 16) != 0 {
                let proxy: zbus::Proxy<'static> = zbus::proxy::Builder::new(&conn)
                    .destination(":1.5")
                    .unwrap()
                    .path("/o")
                    .unwrap()
                    .interface("a.b.I")
                    .unwrap()
                    .cache_properties(CacheProperties::No)
                    .build()
                    .await
                    .unwrap();
                if mask & 16 != 0 {
                    hs.push(Handle_::SignalStream(proxy.receive_signal("Sig").await.unwrap()));
                }
                if mask & 8 != 0 {
                    hs.push(Handle_::Proxy(proxy));
                }
            }
            if mask & 32 != 0 && with_server {
                hs.push(Handle_::IfaceRef(conn.object_server().interface::<_, Slow>("/s").await.unwrap()));
            }
            (conn, hs)
        })
        .expect("build");
    let (conn, mut hs) = built;
    if server_mode == 2 {
        // one call goes through dispatch, handler and reply before anything is dropped
        let call = zbus::Message::method_call("/s", "Quick").unwrap().interface("a.b.Slow").unwrap().build(&()).unwrap();
        let serial = call.primary_header().serial_num();
        link.b2a.push(call.data().bytes(), vec![]);
        w.settle();
        let out = link.a2b.written();
        let (msgs, _) = split_messages(&out);
        let answered = msgs.iter().any(|r| parse_message(&out[r.clone()]).map(|m| m.header().reply_serial() == Some(serial)).unwrap_or(false));
        if !answered {
            let mut res = ExecResult::default();
            res.violations.push(v("harness", "the warm-up call was not answered").feat("kind", "harness"));
            return res;
        }
    }
    if mask & 64 != 0 {
        // a proxy with caching on: the harness plays the remote object and answers GetAll
        let c2 = conn.clone();
        let h = w.spawn("cached-proxy", async move {
            let proxy: zbus::Proxy<'static> = zbus::proxy::Builder::new(&c2)
                .destination(":1.5")?
                .path("/o")?
                .interface("a.b.I")?
                .cache_properties(CacheProperties::Yes)
                .build()
                .await?;
            Ok::<_, zbus::Error>(proxy)
        });
        w.settle();
        let out = link.a2b.written();
        let (msgs, _) = split_messages(&out);
        for r in msgs {
            if let Ok(m) = parse_message(&out[r]) {
                if m.header().member().map(|m| m.as_str() == "GetAll").unwrap_or(false) {
                    let mut map: std::collections::HashMap<&str, zbus::zvariant::Value<'_>> = Default::default();
                    map.insert("P", zbus::zvariant::Value::from(1u32));
                    let reply = zbus::Message::method_return(&m.header()).unwrap().build(&(map,)).unwrap();
                    link.b2a.push(reply.data().bytes(), vec![]);
                }
            }
        }
        w.settle();
        match h.take() {
            Some(Ok(p)) => {
                let _ = p.cached_property::<u32>("P");
                hs.push(Handle_::CachedProxy(p));
            }
            other => {
                let mut res = ExecResult::default();
                res.violations.push(v("harness", format!("cached proxy could not be built: {:?}", other.map(|r| r.map(|_| ()).map_err(|e| e.to_string())))).feat("kind", "harness"));
                return res;
            }
        }
    }
    let mut handles: Vec<Option<Handle_>> = hs.into_iter().map(Some).collect();
    let mut main = Some(conn);
    let mut res = ExecResult::default();
    let mut early = false;
    loop {
        let remaining: Vec<usize> = handles.iter().enumerate().filter(|(_, h)| h.is_some()).map(|(i, _)| i).collect();
        let n_env = remaining.len() + main.is_some() as usize;
        let live = n_env;
        if live > 0 && closed(&link) && !early {
            early = true;
            res.violations.push(
                v("closed-only-when-all-handles-gone", format!("the transport closed while {live} handle(s) are still alive; trace={:?}", w.trace))
                    .feat("kind", "closed-early"),
            );
        }
        match w.step(n_env) {
            Step::Ran(_) => {}
            Step::Env(k) => {
                if k < remaining.len() {
                    let h = handles[remaining[k]].take().unwrap();
                    w.obs(format!("drop {}", handle_name(&h)));
                    drop(h);
                } else {
                    w.obs("drop main connection handle");
                    main.take();
                }
            }
            _ => break,
        }
    }
    res.capped = w.hit_horizon;
    res.steps = w.steps;
    let all_gone = handles.iter().all(|h| h.is_none()) && main.is_none();
    w.obs(format!("all handles gone={all_gone} closed={}", closed(&link)));
    if !w.hit_horizon && all_gone && !closed(&link) {
        res.violations.push(
            v("closed-when-last-handle-dropped", format!("every handle was dropped and nothing is runnable, but the peer does not see the transport closing (write half alive); trace={:?}", w.trace))
                .feat("kind", "never-closed")
                .feat("with_server", with_server)
                .feat("server_mode", server_mode as u64),
        );
    }
    res.log = std::mem::take(&mut w.log);
    res
}

/// modes: 0 = the handler is in flight (gated) when shutdown is requested; 1 = the handler was
/// released and has replied before shutdown is requested; 2 = no object server was ever created
/// and no call was made
fn shutdown_scenario(spawn: bool, extra_clone: bool, mode: u8) -> ExecResult {
    let mut w = World::new();
    w.horizon = 400;
    let link = Link::new();
    let sock = link.end_a(SockCfg::default());
    let gate = Gate::default();
    let started: Arc<Mutex<bool>> = Default::default();
    let (g2, s2) = (gate.clone(), started.clone());
    let conn = w
        .complete("build", async move {
            let b = Builder::authenticated_socket(sock, GUID)
                .unwrap()
                .p2p()
                .internal_executor(false);
            let b = if mode == 2 {
                b
            } else if spawn {
                b.serve_at("/s", Slow { gate: g2, started: s2 }).unwrap()
            } else {
                b.serve_at("/s", SlowNoSpawn { gate: g2, started: s2 }).unwrap()
            };
            b.build().await.unwrap()
        })
        .expect("build");
    let call = zbus::Message::method_call("/s", "Work").unwrap().interface("a.b.Slow").unwrap().build(&()).unwrap();
    let call_serial = call.primary_header().serial_num();
    let mut res = ExecResult::default();
    let no_call = mode == 2;
    let replied = move |link: &Link| {
        if no_call {
            return true;
        }
        let out = link.a2b.written();
        let (msgs, _) = split_messages(&out);
        msgs.iter().any(|r| parse_message(&out[r.clone()]).map(|m| m.header().reply_serial() == Some(call_serial)).unwrap_or(false))
    };
    let mut released = false;
    if mode != 2 {
        link.b2a.push(call.data().bytes(), vec![]);
        // let the handler start (default schedule; not part of the explored space)
        w.settle();
        if !*started.lock().unwrap() {
            res.violations.push(v("harness", "the gated handler did not start").feat("kind", "harness"));
            return res;
        }
    }
    if mode == 1 {
        gate.open();
        released = true;
        w.settle();
        if !replied(&link) {
            res.violations.push(v("harness", "the released handler did not reply").feat("kind", "harness"));
            return res;
        }
    }
    if mode == 2 {
        released = true;
    }
    let mut clone = if extra_clone { Some(conn.clone()) } else { None };
    let shutdown = w.spawn("graceful_shutdown", conn.graceful_shutdown());
    let mut early = false;
    loop {
        if shutdown.is_done() && !replied(&link) && !early {
            early = true;
            res.violations.push(
                v("shutdown-waits-for-inflight-handlers", format!("graceful_shutdown completed although the in-flight handler has not replied yet (released={released}); trace={:?}", w.trace))
                    .feat("kind", "shutdown-early")
                    .feat("spawn", spawn),
            );
        }
        if shutdown.is_done() && clone.is_some() && !early {
            early = true;
            res.violations.push(
                v("shutdown-waits-for-inflight-handlers", format!("graceful_shutdown completed while another handle to the connection is alive; trace={:?}", w.trace))
                    .feat("kind", "shutdown-with-live-clone")
                    .feat("spawn", spawn),
            );
        }
        let mut menu = vec![];
        if !released {
            menu.push("release");
        }
        if clone.is_some() {
            menu.push("drop-clone");
        }
        match w.step(menu.len()) {
            Step::Ran(_) => {}
            Step::Env(k) => {
                w.obs(menu[k]);
                if menu[k] == "release" {
                    released = true;
                    gate.open();
                } else {
                    clone.take();
                }
            }
            _ => break,
        }
    }
    res.capped = w.hit_horizon;
    res.steps = w.steps;
    w.obs(format!("shutdown done={} replied={} closed={}", shutdown.is_done(), replied(&link), closed(&link)));
    if !w.hit_horizon && released && clone.is_none() {
        if !replied(&link) {
            res.violations.push(v("inflight-handler-replies", format!("the handler was released but its reply never reached the wire; trace={:?}", w.trace)).feat("kind", "reply-lost").feat("spawn", spawn));
        }
        if !shutdown.is_done() {
            res.violations.push(
                v("shutdown-completes-once-handlers-replied", format!("the handler replied, every handle is gone, nothing is runnable, but graceful_shutdown never completed; trace={:?}", w.trace))
                    .feat("kind", "shutdown-hangs")
                    .feat("spawn", spawn)
                    .feat("mode", mode as u64),
            );
        }
    }
    res.log = std::mem::take(&mut w.log);
    res
}

pub fn main(args: &Args) -> i32 {
    if let Some(p) = &args.replay {
        return crate::sched::replay(p, |name, j| {
            if name.starts_with("drop-handles") {
                let mask = j["mask"].as_u64().unwrap_or(0) as u32;
                let ws = j["server_mode"].as_u64().map(|m| m as u8).unwrap_or(j["with_server"].as_bool().unwrap_or(false) as u8);
                Some(Box::new(move || drop_scenario(mask, ws)))
            } else {
                let spawn = j["spawn"].as_bool().unwrap_or(true);
                let ec = j["extra_clone"].as_bool().unwrap_or(false);
                let mode = j["mode"].as_u64().unwrap_or(0) as u8;
                Some(Box::new(move || shutdown_scenario(spawn, ec, mode)))
            }
        });
    }
    let report = Report::new("C39", args.tier, args.seed, "model_checking");
    let totals = Mutex::new(Totals::default());
    let quick = args.tier == vcommon::Tier::Quick;
    for server_mode in [0u8, 1, 2, 3] {
        let with_server = server_mode != 0;
        for mask in 0u32..128 {
            if !with_server && mask & 32 != 0 {
                continue;
            }
            // modes 2 and 3 differ from mode 1 only in what happened before the drops: quick
            // tier runs them for ≤ 1 handle kind and the full set
            if quick && server_mode >= 2 && !(mask.count_ones() <= 1 || mask == 127) {
                continue;
            }
            let n = mask.count_ones();
            // quick: all subsets of ≤ 2 handle kinds, those of 3 that include the cached proxy
            // (+ the full sets); thorough: all subsets
            if quick && !(n <= 2 || (n == 3 && mask & 64 != 0) || mask == 127 || mask == 95 || mask == 63 || mask == 31) {
                continue;
            }
            let plan = SchedPlan {
                bounds: match (quick, n) {
                    (true, 0..=2) => vec![None],
                    (true, 3) => vec![Some(4)],
                    (true, _) => vec![Some(3)],
                    (false, 0..=3) => vec![None],
                    (false, _) => vec![Some(4)],
                },
                max_execs: args.tier.pick(2_000_000, 50_000_000),
                time_budget_s: args.tier.pick(120.0, 900.0),
            };
            run_scenario(
                &report,
                &totals,
                &format!("drop-handles-mask{mask:07b}-{}", ["plain", "server", "server-after-a-call", "server-on-demand"][server_mode as usize]),
                json!({"mask": mask, "with_server": with_server, "server_mode": server_mode}),
                &plan,
                move || drop_scenario(mask, server_mode),
            );
        }
    }
    for (spawn, mode) in [(true, 0u8), (false, 0), (true, 1), (false, 1), (true, 2)] {
        for extra_clone in [false, true] {
            let plan = SchedPlan {
                bounds: if quick { vec![Some(6)] } else { vec![None] },
                max_execs: 20_000_000,
                time_budget_s: args.tier.pick(120.0, 900.0),
            };
            run_scenario(
                &report,
                &totals,
                &format!(
                    "graceful-shutdown-{}{}{}",
                    if spawn { "spawn" } else { "nospawn" },
                    ["", "-handler-finished-before", "-no-object-server"][mode as usize],
                    if extra_clone { "-clone" } else { "" }
                ),
                json!({"spawn": spawn, "extra_clone": extra_clone, "mode": mode}),
                &plan,
                move || shutdown_scenario(spawn, extra_clone, mode),
            );
        }
    }
    report.assume("the peer observes closing as the write half being dropped/closed (in-memory transport)");
    report.assume("tasks spawned through the seam that are still queued when the last handle goes are polled by the harness (an executor that is dropped cancels them instead)");
    finish_model_checking(
        &report,
        &totals,
        "A: every subset of handle kinds × object server {none, from the builder, from the builder after one handled call, created on demand} × every drop order × task polls (DFS, deviation bound); B: graceful shutdown with a gated in-flight handler, with a handler that finished before, and without an object server (spawn on/off, extra clone), release/drop as environment events",
    )
}
