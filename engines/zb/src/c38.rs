//! C38 — transport failures end pending work with errors, never hangs.
//!
//! Fault enumeration: one scripted session (2 pending calls, a rule stream, a second rule stream
//! whose queue holds one message, the unfiltered stream, inbound [signal, reply to call 0, signal], outbound [call 0, call 1, signal]) × fault
//! ∈ {EOF, EIO} at EVERY byte offset of the inbound stream, and EIO at EVERY sendmsg call index;
//! around each fault the schedule is explored with a deviation bound.

use std::{io::ErrorKind, sync::Mutex};

use futures_lite::StreamExt;
use serde_json::json;
use vcommon::{Args, Report};
use zbus::{connection::Builder, MatchRule, Message, MessageStream};

use crate::{
    explore::ExecResult,
    sched::{finish_model_checking, run_scenario, v, SchedPlan, Totals},
    world::{parse_message, split_messages, Link, SockCfg, Step, World, GUID},
};

#[derive(Clone, Copy, Debug)]
enum Fault {
    ReadEof(usize),
    ReadErr(usize),
    WriteErr(usize),
}

fn sig(member: &str, n: u32) -> Message {
    Message::signal("/p", "a.b", member).unwrap().build(&(n,)).unwrap()
}

fn scenario(fault: Fault) -> ExecResult {
    let mut w = World::new();
    w.horizon = 500;
    let link = Link::new();
    let sock = link.end_a(SockCfg::default());
    let conn = w
        .complete("build", async move {
            Builder::authenticated_socket(sock, GUID)
                .unwrap()
                .p2p()
                .internal_executor(false)
                .build()
                .await
                .unwrap()
        })
        .expect("build");
    if let Fault::WriteErr(j) = fault {
        link.a2b.with(|c| c.write_fault = Some((j, ErrorKind::Other)));
    }
    // streams
    let c2 = conn.clone();
    let streams = w
        .complete("streams", async move {
            let rule = MatchRule::builder()
                .msg_type(zbus::message::Type::Signal)
                .interface("a.b")
                .unwrap()
                .build();
            let rs = MessageStream::for_match_rule(rule, &c2, None).await;
            // a second rule (its own channel) with room for ONE queued message: the socket reader
            // has to wait for this consumer, also when it hands out the failure
            let small = MatchRule::builder()
                .msg_type(zbus::message::Type::Signal)
                .path("/p")
                .unwrap()
                .build();
            let ss = MessageStream::for_match_rule(small, &c2, Some(1)).await;
            let us = MessageStream::from(&c2);
            (rs, ss, us)
        })
        .expect("streams");
    let (rs, ss, us) = streams;
    let rs = rs.expect("rule stream before any fault");
    let ss = ss.expect("small-queue stream before any fault");
    let consume = |mut s: MessageStream| async move {
        let mut items: Vec<Result<String, String>> = vec![];
        while let Some(it) = s.next().await {
            items.push(match it {
                Ok(m) => Ok(m.header().member().map(|m| m.to_string()).unwrap_or_else(|| format!("{:?}", m.message_type()))),
                Err(e) => Err(e.to_string()),
            });
            if items.len() > 32 {
                break;
            }
        }
        items
    };
    let rule_consumer = w.spawn("rule-consumer", consume(rs));
    let small_consumer = w.spawn("small-queue-consumer", consume(ss));
    let unf_consumer = w.spawn("unfiltered-consumer", consume(us));
    let mut callers = vec![];
    for i in 0..2 {
        let c = conn.clone();
        callers.push(w.spawn(&format!("caller{i}"), async move {
            c.call_method(None::<&str>, "/p", Some("a.b"), format!("M{i}").as_str(), &())
                .await
                .map(|m| m.header().reply_serial().map(|s| s.get()))
                .map_err(|e| e.to_string())
        }));
    }
    let c3 = conn.clone();
    let emitter = w.spawn("emitter", async move {
        c3.emit_signal(None::<&str>, "/p", "a.b", "Out", &(1u32,)).await.map_err(|e| e.to_string())
    });

    let mut injected = false;
    let mut read_killed_after_write_fault = false;
    let mut complete_inbound: Vec<&'static str> = vec![];
    let mut reply0_complete = false;
    let mut call0_serial = None;
    loop {
        if !read_killed_after_write_fault && link.a2b.with(|c| c.write_broken.is_some()) {
            // the socket is dead in both directions
            read_killed_after_write_fault = true;
            link.b2a.set_read_err(ErrorKind::Other);
            w.obs("write fault hit; socket dead");
        }
        let env = match fault {
            Fault::WriteErr(_) => 0,
            _ => (!injected) as usize,
        };
        match w.step(env) {
            Step::Ran(_) => {}
            Step::Env(_) => {
                injected = true;
                // what has the connection sent so far?
                let out = link.a2b.written();
                let (msgs, _) = split_messages(&out);
                for r in msgs {
                    if let Ok(m) = parse_message(&out[r]) {
                        if m.header().member().map(|m| m.as_str() == "M0").unwrap_or(false) {
                            call0_serial = Some(m.primary_header().serial_num().get());
                        }
                    }
                }
                let mut parts: Vec<(&'static str, Vec<u8>)> = vec![("S1", sig("S1", 1).data().bytes().to_vec())];
                if let Some(s) = call0_serial {
                    let call = Message::method_call("/p", "M0").unwrap().build(&()).unwrap();
                    let mut b = call.data().bytes().to_vec();
                    b[8..12].copy_from_slice(&s.to_le_bytes());
                    let call = parse_message(&b).unwrap();
                    parts.push(("reply0", Message::method_return(&call.header()).unwrap().build(&(5u32,)).unwrap().data().bytes().to_vec()));
                }
                parts.push(("S2", sig("S2", 2).data().bytes().to_vec()));
                let stream: Vec<u8> = parts.iter().flat_map(|p| p.1.clone()).collect();
                let (k, eof) = match fault {
                    Fault::ReadEof(k) => (k, true),
                    Fault::ReadErr(k) => (k, false),
                    _ => unreachable!(),
                };
                let k = k.min(stream.len());
                let mut end = 0;
                for (name, b) in &parts {
                    end += b.len();
                    if end <= k {
                        complete_inbound.push(name);
                        if *name == "reply0" {
                            reply0_complete = true;
                        }
                    }
                }
                link.b2a.push(&stream[..k], vec![]);
                if eof {
                    link.b2a.set_eof();
                } else {
                    link.b2a.set_read_err(ErrorKind::Other);
                }
                w.obs(format!("fault after {k} inbound bytes; complete: {complete_inbound:?}"));
            }
            _ => break,
        }
    }
    let mut res = ExecResult {
        capped: w.hit_horizon,
        steps: w.steps,
        ..Default::default()
    };
    let failed = injected || read_killed_after_write_fault;
    let fk = match fault {
        Fault::ReadEof(_) => "read-eof",
        Fault::ReadErr(_) => "read-error",
        Fault::WriteErr(_) => "write-error",
    };
    if failed && !w.hit_horizon {
        for (i, c) in callers.iter().enumerate() {
            match c.take() {
                None => res.violations.push(
                    v("pending-calls-complete-with-error", format!("caller{i} is still pending after the transport failed ({fault:?}) and nothing is runnable; trace={:?}", w.trace))
                        .feat("fault", fk)
                        .feat("what", "call-hangs"),
                ),
                Some(Ok(rs)) => {
                    if !(i == 0 && reply0_complete) {
                        res.violations.push(
                            v("pending-calls-complete-with-error", format!("caller{i} completed successfully ({rs:?}) although its reply was not completely received before the failure ({fault:?})"))
                                .feat("fault", fk)
                                .feat("what", "call-succeeds"),
                        );
                    }
                    w.obs(format!("caller{i}: ok"));
                }
                Some(Err(_)) => {
                    // The property demands an error for calls whose reply did not arrive; a call
                    // whose reply DID arrive completely must not be lost.
                    if i == 0 && reply0_complete {
                        res.violations.push(
                            v("messages-before-failure-delivered", format!("caller0's reply was completely received before the failure ({fault:?}) but the call failed"))
                                .feat("fault", fk)
                                .feat("what", "reply-lost"),
                        );
                    }
                    w.obs(format!("caller{i}: error"));
                }
            }
        }
        match emitter.take() {
            None => res.violations.push(
                v("no-hang", format!("emit_signal never completed after the transport failed ({fault:?}); trace={:?}", w.trace))
                    .feat("fault", fk)
                    .feat("what", "emit-hangs"),
            ),
            Some(_) => {}
        }
        for (name, h, want) in [
            (
                "rule",
                &rule_consumer,
                complete_inbound.iter().filter(|n| n.starts_with('S')).map(|s| s.to_string()).collect::<Vec<_>>(),
            ),
            (
                "small-queue",
                &small_consumer,
                complete_inbound.iter().filter(|n| n.starts_with('S')).map(|s| s.to_string()).collect::<Vec<_>>(),
            ),
            (
                "unfiltered",
                &unf_consumer,
                complete_inbound.iter().map(|s| if *s == "reply0" { "MethodReturn".to_string() } else { s.to_string() }).collect::<Vec<_>>(),
            ),
        ] {
            match h.take() {
                None => res.violations.push(
                    v("streams-end-after-failure", format!("the {name} stream never ended after the transport failed ({fault:?}); trace={:?}", w.trace))
                        .feat("fault", fk)
                        .feat("what", "stream-never-ends"),
                ),
                Some(items) => {
                    let oks: Vec<String> = items.iter().filter_map(|i| i.clone().ok()).collect();
                    w.obs(format!("{name} stream: {items:?}"));
                    if oks != want {
                        res.violations.push(
                            v("messages-before-failure-delivered", format!("the {name} stream yielded {oks:?}; completely received before the failure: {want:?} ({fault:?})"))
                                .feat("fault", fk)
                                .feat("what", "stream-content"),
                        );
                    }
                }
            }
        }
        // later work fails promptly
        let c4 = conn.clone();
        let late_call = w.spawn("late-call", async move {
            c4.call_method(None::<&str>, "/p", Some("a.b"), "Late", &()).await.map(|_| ()).map_err(|e| e.to_string())
        });
        let c5 = conn.clone();
        let late_sub = w.spawn("late-subscribe", async move {
            let rule = MatchRule::builder().msg_type(zbus::message::Type::Signal).interface("x.y").unwrap().build();
            MessageStream::for_match_rule(rule, &c5, None).await.map(|_| ()).map_err(|e| e.to_string())
        });
        loop {
            match w.step(0) {
                Step::Ran(_) => {}
                _ => break,
            }
        }
        match late_call.take() {
            None => res.violations.push(
                v("later-work-fails-promptly", format!("a call issued after the failure ({fault:?}) hangs; trace={:?}", w.trace)).feat("fault", fk).feat("what", "late-call-hangs"),
            ),
            Some(Ok(())) => res.violations.push(
                v("later-work-fails-promptly", format!("a call issued after the failure ({fault:?}) succeeded")).feat("fault", fk).feat("what", "late-call-succeeds"),
            ),
            Some(Err(_)) => {}
        }
        match late_sub.take() {
            None => res.violations.push(
                v("later-work-fails-promptly", format!("a subscription made after the failure ({fault:?}) hangs; trace={:?}", w.trace)).feat("fault", fk).feat("what", "late-subscribe-hangs"),
            ),
            Some(Ok(())) => res.violations.push(
                v("later-work-fails-promptly", format!("a subscription made after the failure ({fault:?}) succeeded")).feat("fault", fk).feat("what", "late-subscribe-succeeds"),
            ),
            Some(Err(_)) => {}
        }
    }
    res.log = std::mem::take(&mut w.log);
    drop(conn);
    res
}

pub fn main(args: &Args) -> i32 {
    if let Some(p) = &args.replay {
        return crate::sched::replay(p, |name, _| {
            let (kind, n) = name.split_once('@')?;
            let n: usize = n.trim_start_matches("call").parse().ok()?;
            let f = match kind {
                "read-eof" => Fault::ReadEof(n),
                "read-err" => Fault::ReadErr(n),
                "write-err" => Fault::WriteErr(n),
                _ => return None,
            };
            Some(Box::new(move || scenario(f)))
        });
    }
    let report = Report::new("C38", args.tier, args.seed, "fault_enumeration");
    let totals = Mutex::new(Totals::default());
    let quick = args.tier == vcommon::Tier::Quick;
    // inbound stream length (with the reply present): measured from the same constructors
    let inbound_len = {
        let call = Message::method_call("/p", "M0").unwrap().build(&()).unwrap();
        sig("S1", 1).data().bytes().len()
            + Message::method_return(&call.header()).unwrap().build(&(5u32,)).unwrap().data().bytes().len()
            + sig("S2", 2).data().bytes().len()
    };
    let mut faults: Vec<(String, Fault)> = vec![];
    for k in 0..=inbound_len {
        faults.push((format!("read-eof@{k}"), Fault::ReadEof(k)));
        faults.push((format!("read-err@{k}"), Fault::ReadErr(k)));
    }
    // sendmsg calls in the fault-free session: 3 messages = 3 calls (+ the late call)
    for j in 0..4 {
        faults.push((format!("write-err@call{j}"), Fault::WriteErr(j)));
    }
    report.set("fault_points", json!(faults.len()));
    report.set("inbound_stream_bytes", json!(inbound_len));
    for (name, f) in faults {
        let plan = SchedPlan {
            bounds: if quick { vec![Some(2)] } else { vec![Some(3)] },
            max_execs: 5_000_000,
            time_budget_s: args.tier.pick(60.0, 600.0),
        };
        report.nontrivial(vcommon::hash64(&name));
        run_scenario(&report, &totals, &name, json!({"fault": name}), &plan, move || scenario(f));
    }
    report.assume("a write error means the socket is dead in both directions (the read side fails right after)");
    report.assume("interleaving granularity is one task poll; the fault itself is an environment event placed by the explorer");
    {
        let t = totals.lock().unwrap();
        report.set("evaluations", json!(t.execs));
    }
    finish_model_checking(
        &report,
        &totals,
        "fault ∈ {EOF, I/O error} at every byte offset of the inbound stream and I/O error at every sendmsg call of one scripted session; around each fault all schedules up to the deviation bound; distinct_nontrivial = distinct observation logs",
    )
}
