//! Development binary with only the centrally written modules (so that work in progress in other
//! modules cannot break this build). Same command line as `zb`.
#![allow(dead_code)]

mod explore;
mod sched;
mod world;

mod c14;
mod c15;
mod c18;
mod c19;
mod c20;
mod c29;
mod c30;
mod c31;
mod c38;
mod c39;

fn main() {
    vcommon::quiet_panics();
    let args = vcommon::parse_args();
    let code = match args.id.as_str() {
        "C14" => c14::main(&args),
        "C15" => c15::main(&args),
        "C18" => c18::main(&args),
        "C19" => c19::main(&args),
        "C20" => c20::main(&args),
        "C29" => c29::main(&args),
        "C30" => c30::main(&args),
        "C31" => c31::main(&args),
        "C38" => c38::main(&args),
        "C39" => c39::main(&args),
        other => vcommon::machinery_failure(&format!("zbm: unknown property id {other}")),
    };
    std::process::exit(code);
}
