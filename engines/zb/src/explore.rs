//! Stateless depth-first exploration with re-execution and a deviation bound.
//!
//! The subject code (and the transports, and the scheduling loop) call `choose(n, tag)` wherever
//! the environment or the scheduler has `n` possible answers. Answer 0 is the default; any other
//! answer costs one deviation. `explore` runs the scenario closure once per choice sequence.

use std::{
    cell::RefCell,
    collections::HashSet,
    sync::{
        atomic::{AtomicBool, AtomicU64, AtomicUsize, Ordering},
        Mutex,
    },
    time::Instant,
};

use vcommon::{hash64, machinery_failure, Violation};

#[derive(Default)]
struct Ctx {
    active: bool,
    /// (choice, expected n) to replay.
    prefix: Vec<(usize, usize)>,
    /// recorded points of this execution: (n, chosen)
    points: Vec<(usize, usize)>,
    tags: Vec<&'static str>,
    diverged: Option<String>,
}

thread_local! {
    static CTX: RefCell<Ctx> = RefCell::new(Ctx::default());
}

/// A choice point with `n` alternatives. Returns the alternative to take.
pub fn choose(n: usize, tag: &'static str) -> usize {
    if n <= 1 {
        return 0;
    }
    CTX.with(|c| {
        let mut c = c.borrow_mut();
        if !c.active {
            return 0;
        }
        let i = c.points.len();
        let pick = if i < c.prefix.len() {
            let (ch, exp_n) = c.prefix[i];
            if (exp_n != 0 && exp_n != n) || ch >= n {
                if c.diverged.is_none() {
                    c.diverged = Some(format!(
                        "replay divergence at point {i} ({tag}): expected {exp_n} alternatives, found {n}, choice {ch}"
                    ));
                }
                0
            } else {
                ch
            }
        } else {
            0
        };
        c.points.push((n, pick));
        c.tags.push(tag);
        pick
    })
}

/// Result of one execution of a scenario.
#[derive(Default, Clone)]
pub struct ExecResult {
    /// Property-level observation log.
    pub log: Vec<String>,
    pub violations: Vec<Violation>,
    /// The execution hit its step horizon.
    pub capped: bool,
    /// Scheduler / transport steps executed.
    pub steps: usize,
}

pub struct Trace {
    pub choices: Vec<usize>,
    pub ns: Vec<usize>,
    pub tags: Vec<&'static str>,
}

/// Run the scenario once under the given choice prefix.
pub fn run_once<F: Fn() -> ExecResult>(prefix: &[(usize, usize)], f: &F) -> (ExecResult, Trace) {
    CTX.with(|c| {
        let mut c = c.borrow_mut();
        c.active = true;
        c.prefix = prefix.to_vec();
        c.points.clear();
        c.tags.clear();
        c.diverged = None;
    });
    let res = f();
    let (trace, diverged) = CTX.with(|c| {
        let mut c = c.borrow_mut();
        c.active = false;
        let t = Trace {
            choices: c.points.iter().map(|p| p.1).collect(),
            ns: c.points.iter().map(|p| p.0).collect(),
            tags: c.tags.clone(),
        };
        (t, c.diverged.take())
    });
    if let Some(d) = diverged {
        machinery_failure(&format!("harness nondeterminism: {d}"));
    }
    if trace.choices.len() < prefix.len() {
        machinery_failure(&format!(
            "harness nondeterminism: replay of a {}-point prefix ended after {} points",
            prefix.len(),
            trace.choices.len()
        ));
    }
    (res, trace)
}

#[derive(Clone, Debug)]
pub struct ExploreCfg {
    /// Maximum number of deviations (None = full DFS).
    pub bound: Option<usize>,
    pub max_execs: u64,
    pub time_budget_s: f64,
    pub threads: usize,
}

#[derive(Default, Debug, Clone)]
pub struct ExploreStats {
    pub bound: Option<usize>,
    pub execs: u64,
    pub transitions: u64,
    pub distinct_logs: u64,
    pub states: u64,
    pub max_points: usize,
    pub capped_execs: u64,
    pub complete: bool,
    pub violating_execs: u64,
    pub wall_s: f64,
}

/// Explore all executions with at most `cfg.bound` deviations. `on_exec` sees every execution.
pub fn explore<F, G>(cfg: &ExploreCfg, f: F, on_exec: G) -> ExploreStats
where
    F: Fn() -> ExecResult + Sync,
    G: Fn(&Trace, &ExecResult) + Sync,
{
    let start = Instant::now();
    let stack: Mutex<Vec<Vec<(usize, usize)>>> = Mutex::new(vec![vec![]]);
    let in_flight = AtomicUsize::new(0);
    let execs = AtomicU64::new(0);
    let transitions = AtomicU64::new(0);
    let capped = AtomicU64::new(0);
    let violating = AtomicU64::new(0);
    let max_points = AtomicUsize::new(0);
    let stop = AtomicBool::new(false);
    let logs: Mutex<HashSet<u64>> = Mutex::new(HashSet::new());
    let states: Mutex<HashSet<u64>> = Mutex::new(HashSet::new());
    const SET_CAP: usize = 4_000_000;

    let worker = || {
        let mut local_logs: HashSet<u64> = HashSet::new();
        let mut local_states: HashSet<u64> = HashSet::new();
        loop {
            let item = {
                let mut s = stack.lock().unwrap();
                let it = s.pop();
                if it.is_some() {
                    in_flight.fetch_add(1, Ordering::SeqCst);
                }
                it
            };
            let Some(prefix) = item else {
                if in_flight.load(Ordering::SeqCst) == 0 {
                    break;
                }
                std::thread::yield_now();
                continue;
            };
            if stop.load(Ordering::Relaxed) {
                in_flight.fetch_sub(1, Ordering::SeqCst);
                continue;
            }
            let (res, trace) = run_once(&prefix, &f);
            let n = execs.fetch_add(1, Ordering::Relaxed) + 1;
            transitions.fetch_add(res.steps.max(trace.choices.len()) as u64, Ordering::Relaxed);
            max_points.fetch_max(trace.choices.len(), Ordering::Relaxed);
            if res.capped {
                capped.fetch_add(1, Ordering::Relaxed);
            }
            if !res.violations.is_empty() {
                violating.fetch_add(1, Ordering::Relaxed);
            }
            if local_logs.len() < SET_CAP {
                local_logs.insert(hash64(&res.log));
            }
            if local_states.len() < SET_CAP {
                let mut h = 0xcbf29ce484222325u64;
                for l in &res.log {
                    h = hash64(&(h, l));
                    local_states.insert(h);
                }
            }
            on_exec(&trace, &res);
            // children
            let mut children = vec![];
            let mut devs = prefix.iter().filter(|p| p.0 != 0).count();
            for i in prefix.len()..trace.choices.len() {
                // choices beyond the prefix are all 0 (default)
                let allowed = cfg.bound.map(|b| devs + 1 <= b).unwrap_or(true);
                if allowed {
                    for alt in 1..trace.ns[i] {
                        let mut p: Vec<(usize, usize)> = (0..i)
                            .map(|j| (trace.choices[j], trace.ns[j]))
                            .collect();
                        p.push((alt, trace.ns[i]));
                        children.push(p);
                    }
                }
                if trace.choices[i] != 0 {
                    devs += 1;
                }
            }
            if n >= cfg.max_execs || start.elapsed().as_secs_f64() > cfg.time_budget_s {
                stop.store(true, Ordering::Relaxed);
            }
            {
                let mut s = stack.lock().unwrap();
                // push in reverse so that the simplest (earliest, lowest alt) is popped first
                for c in children.into_iter().rev() {
                    s.push(c);
                }
            }
            in_flight.fetch_sub(1, Ordering::SeqCst);
        }
        logs.lock().unwrap().extend(local_logs);
        states.lock().unwrap().extend(local_states);
    };

    let threads = cfg.threads.max(1);
    if threads == 1 {
        worker();
    } else {
        std::thread::scope(|s| {
            for _ in 0..threads {
                s.spawn(&worker);
            }
        });
    }
    let leftover = stack.lock().unwrap().len();
    let n_logs = logs.lock().unwrap().len() as u64;
    let n_states = states.lock().unwrap().len() as u64;
    ExploreStats {
        bound: cfg.bound,
        execs: execs.load(Ordering::Relaxed),
        transitions: transitions.load(Ordering::Relaxed),
        distinct_logs: n_logs,
        states: n_states,
        max_points: max_points.load(Ordering::Relaxed),
        capped_execs: capped.load(Ordering::Relaxed),
        complete: !stop.load(Ordering::Relaxed) && leftover == 0,
        violating_execs: violating.load(Ordering::Relaxed),
        wall_s: start.elapsed().as_secs_f64(),
    }
}

/// Replay one choice sequence three times and require identical observation logs.
pub fn confirm_deterministic<F: Fn() -> ExecResult>(choices: &[usize], f: &F) -> ExecResult {
    let prefix: Vec<(usize, usize)> = choices.iter().map(|c| (*c, 0)).collect();
    let (a, _) = run_once(&prefix, f);
    let (b, _) = run_once(&prefix, f);
    if a.log != b.log {
        machinery_failure(&format!(
            "harness nondeterminism: the same schedule produced different logs:\n{:?}\n{:?}",
            a.log, b.log
        ));
    }
    a
}

/// Trim trailing default choices (they are implied).
pub fn trim(choices: &[usize]) -> Vec<usize> {
    let mut v = choices.to_vec();
    while v.last() == Some(&0) {
        v.pop();
    }
    v
}
