//! C23 — D-Bus addresses round-trip through their string form, and parsing percent-decodes.
//!
//! Direction 1 (value → string → value): every transport the build offers (unix path / abstract /
//! dir / tmpdir, unixexec with argv0 and 0..2 arguments, tcp / nonce-tcp with family, bind,
//! nonce file; with and without guid) with field values over byte strings of bounded length
//! from a byte-class alphabet, built through the public constructors; `Address::from_str(
//! &addr.to_string()) == addr`.
//!
//! Direction 2 (string → value): every syntactically valid single-entry address string over the
//! known keys with values made of literal characters and `%xx` escapes; when zbus accepts the
//! string, every value it reports equals the specification's percent-decoding (refaddr) of the
//! text. refaddr itself is audited against libdbus's `dbus_parse_address` on the same strings.
//!
//! Identity of a failure: (transport, key, value class ∈ {plain, escaped, empty}). Single-field
//! sweeps establish which (transport, key, class) fail alone; a multi-field failure none of whose
//! fields fails alone is reported as an interaction.

use std::{
    collections::BTreeSet,
    ffi::OsString,
    os::unix::ffi::{OsStrExt, OsStringExt},
    path::PathBuf,
    str::FromStr,
    sync::Mutex,
};

use serde_json::{json, Value as J};
use vcommon::{catch, enumerate, hash64, hex, machinery_failure, par_for, unhex, Args, Report, Tier, Violation};
use zbus::address::{
    transport::{Tcp, TcpTransportFamily, Transport, Unix, UnixSocket, Unixexec},
    Address,
};

use crate::{refaddr, refmatch::ffi};

const CLAUSE: &str = "address-string-denotes-the-same-endpoint";
const GUID: &str = "0123456789abcdef0123456789abcdef";

/// Byte classes: unreserved, '%', ',', ':', '=', space, NUL, 0x80, 0xff, '/', ';', '\\'
const BYTES: &[u8] = &[b'a', b'%', b',', b':', b'=', b' ', 0x00, 0x80, 0xff, b'/', b';', b'\\'];

fn byte_values(max_len: usize) -> Vec<Vec<u8>> {
    let mut out = vec![];
    let mut v = vec![];
    // index 0 (the empty string) is left out: `key=` without a value is not an address
    // (libdbus: "'=' character not found or has no value following it"), so a field that is
    // empty has no string form at all
    for i in 1..enumerate::count_strings(BYTES.len(), max_len) {
        enumerate::nth_string(BYTES.len(), i, &mut v);
        out.push(v.iter().map(|x| BYTES[*x]).collect());
    }
    out
}

fn class_of(v: &[u8]) -> &'static str {
    if v.is_empty() {
        "empty"
    } else if v.iter().all(|b| refaddr::optionally_escaped(*b)) {
        "plain"
    } else {
        "escaped"
    }
}

/// Bytes → text for fields that are `String` in the API (host, bind): bytes ≥ 0x80 become the
/// code point of that value.
fn as_text(v: &[u8]) -> String {
    v.iter().map(|b| *b as char).collect()
}

// ---------------------------------------------------------------------------------------------
// descriptors

#[derive(Clone, Debug, PartialEq, Eq, Hash)]
enum TDesc {
    /// kind: 0 path, 1 abstract, 2 dir, 3 tmpdir
    Unix { kind: u8, val: Vec<u8> },
    Exec { path: Vec<u8>, arg0: Option<Vec<u8>>, args: Vec<Vec<u8>> },
    Tcp { host: String, port: u16, bind: Option<String>, family: Option<u8>, nonce: Option<Vec<u8>> },
}

#[derive(Clone, Debug, PartialEq, Eq, Hash)]
struct ADesc {
    t: TDesc,
    guid: bool,
}

const UNIX_KEYS: [&str; 4] = ["path", "abstract", "dir", "tmpdir"];

impl ADesc {
    fn transport_name(&self) -> &'static str {
        match &self.t {
            TDesc::Unix { .. } => "unix",
            TDesc::Exec { .. } => "unixexec",
            TDesc::Tcp { .. } => "tcp",
        }
    }
    /// (key family, value bytes) of every value-carrying field present.
    fn fields(&self) -> Vec<(&'static str, Vec<u8>)> {
        match &self.t {
            TDesc::Unix { kind, val } => vec![(UNIX_KEYS[*kind as usize], val.clone())],
            TDesc::Exec { path, arg0, args } => {
                let mut f = vec![("path", path.clone())];
                if let Some(a) = arg0 {
                    f.push(("argv0", a.clone()));
                }
                for a in args {
                    f.push(("argvN", a.clone()));
                }
                f
            }
            TDesc::Tcp { host, bind, nonce, .. } => {
                let mut f = vec![("host", host.as_bytes().to_vec())];
                if let Some(b) = bind {
                    f.push(("bind", b.as_bytes().to_vec()));
                }
                if let Some(n) = nonce {
                    f.push(("noncefile", n.clone()));
                }
                f
            }
        }
    }
    fn build(&self) -> Result<Address, String> {
        let os = |v: &Vec<u8>| OsString::from_vec(v.clone());
        let t = match &self.t {
            TDesc::Unix { kind, val } => Transport::Unix(Unix::new(match kind {
                0 => UnixSocket::File(PathBuf::from(os(val))),
                1 => UnixSocket::Abstract(os(val)),
                2 => UnixSocket::Dir(PathBuf::from(os(val))),
                _ => UnixSocket::TmpDir(PathBuf::from(os(val))),
            })),
            TDesc::Exec { path, arg0, args } => Transport::Unixexec(Unixexec::new(
                PathBuf::from(os(path)),
                arg0.as_ref().map(os),
                args.iter().map(os).collect(),
            )),
            TDesc::Tcp { host, port, bind, family, nonce } => Transport::Tcp(
                Tcp::new(host, *port)
                    .set_bind(bind.clone())
                    .set_family(family.map(|f| if f == 4 { TcpTransportFamily::Ipv4 } else { TcpTransportFamily::Ipv6 }))
                    .set_nonce_file(nonce.clone()),
            ),
        };
        let a = Address::new(t);
        if self.guid {
            let g = zbus::Guid::try_from(GUID).map_err(|e| e.to_string())?;
            a.set_guid(g).map_err(|e: zbus::Error| e.to_string())
        } else {
            Ok(a)
        }
    }
    fn to_json(&self) -> J {
        let t = match &self.t {
            TDesc::Unix { kind, val } => json!({"unix": UNIX_KEYS[*kind as usize], "value_hex": hex(val)}),
            TDesc::Exec { path, arg0, args } => json!({"unixexec": {"path_hex": hex(path), "argv0_hex": arg0.as_ref().map(|a| hex(a)),
                "args_hex": args.iter().map(|a| hex(a)).collect::<Vec<_>>()}}),
            TDesc::Tcp { host, port, bind, family, nonce } => json!({"tcp": {"host": host, "port": port, "bind": bind, "family": family,
                "noncefile_hex": nonce.as_ref().map(|n| hex(n))}}),
        };
        json!({"transport": t, "guid": self.guid})
    }
    fn from_json(v: &J) -> Option<ADesc> {
        let t = &v["transport"];
        let td = if let Some(k) = t["unix"].as_str() {
            TDesc::Unix {
                kind: UNIX_KEYS.iter().position(|x| *x == k)? as u8,
                val: unhex(t["value_hex"].as_str()?),
            }
        } else if t["unixexec"].is_object() {
            let e = &t["unixexec"];
            TDesc::Exec {
                path: unhex(e["path_hex"].as_str()?),
                arg0: e["argv0_hex"].as_str().map(unhex),
                args: e["args_hex"].as_array()?.iter().filter_map(|a| a.as_str().map(unhex)).collect(),
            }
        } else {
            let e = &t["tcp"];
            TDesc::Tcp {
                host: e["host"].as_str()?.to_string(),
                port: e["port"].as_u64()? as u16,
                bind: e["bind"].as_str().map(String::from),
                family: e["family"].as_u64().map(|f| f as u8),
                nonce: e["noncefile_hex"].as_str().map(unhex),
            }
        };
        Some(ADesc {
            t: td,
            guid: v["guid"].as_bool().unwrap_or(false),
        })
    }
}

#[derive(Clone, Debug, PartialEq, Eq)]
enum Back {
    Same,
    Different(String),
    Error(String),
    Panic(String),
}

impl Back {
    fn class(&self) -> &'static str {
        match self {
            Back::Same => "same-address",
            Back::Different(_) => "different-address",
            Back::Error(_) => "parse-error",
            Back::Panic(_) => "panic",
        }
    }
}

fn round_trip(d: &ADesc) -> (String, Back) {
    let a = d
        .build()
        .unwrap_or_else(|e| machinery_failure(&format!("C23: cannot construct {}: {e}", d.to_json())));
    let text = match catch(|| a.to_string()) {
        Ok(t) => t,
        Err(p) => return (String::new(), Back::Panic(format!("Display: {p}"))),
    };
    let back = match catch(|| Address::from_str(&text)) {
        Ok(Ok(b)) if b == a => Back::Same,
        Ok(Ok(b)) => Back::Different(format!("{b:?}")),
        Ok(Err(e)) => Back::Error(e.to_string()),
        Err(p) => Back::Panic(p),
    };
    (text, back)
}

type FailSet = BTreeSet<(String, String, String)>;

fn violation_rt(d: &ADesc, key: &str, val: &[u8], text: &str, back: &Back, kind: &str) -> Violation {
    let what = match back {
        Back::Same => unreachable!(),
        Back::Different(b) => format!("parses as a different address: {b}"),
        Back::Error(e) => format!("does not parse: {e}"),
        Back::Panic(p) => format!("panics: {p}"),
    };
    Violation::new(
        CLAUSE,
        format!("{} is formatted as `{text}`, which {what}", d.to_json()),
        json!({"address": d.to_json()}),
    )
    .feat("direction", "format-then-parse")
    .feat("kind", kind)
    .feat("transport", d.transport_name())
    .feat("key", key)
    .feat("value_class", class_of(val))
    .feat("outcome", back.class())
}

fn plain_exec() -> TDesc {
    TDesc::Exec { path: b"/x".to_vec(), arg0: None, args: vec![] }
}
fn plain_tcp() -> TDesc {
    TDesc::Tcp { host: "h".into(), port: 1, bind: None, family: None, nonce: None }
}

/// Single-field sweeps: one field takes every value, the others are plain.
fn singles(values: &[Vec<u8>]) -> Vec<(ADesc, &'static str, Vec<u8>)> {
    let mut out = vec![];
    for v in values {
        for guid in [false, true] {
            for kind in 0..4u8 {
                out.push((ADesc { t: TDesc::Unix { kind, val: v.clone() }, guid }, UNIX_KEYS[kind as usize], v.clone()));
            }
        }
        out.push((ADesc { t: TDesc::Exec { path: v.clone(), arg0: None, args: vec![] }, guid: false }, "path", v.clone()));
        out.push((ADesc { t: TDesc::Exec { path: b"/x".to_vec(), arg0: Some(v.clone()), args: vec![] }, guid: false }, "argv0", v.clone()));
        out.push((ADesc { t: TDesc::Exec { path: b"/x".to_vec(), arg0: None, args: vec![v.clone()] }, guid: false }, "argvN", v.clone()));
        out.push((
            ADesc { t: TDesc::Exec { path: b"/x".to_vec(), arg0: None, args: vec![b"p".to_vec(), v.clone()] }, guid: false },
            "argvN",
            v.clone(),
        ));
        let text = as_text(v);
        let tb = text.as_bytes().to_vec();
        out.push((ADesc { t: TDesc::Tcp { host: text.clone(), port: 1, bind: None, family: None, nonce: None }, guid: false }, "host", tb.clone()));
        out.push((
            ADesc { t: TDesc::Tcp { host: "h".into(), port: 1, bind: Some(text.clone()), family: None, nonce: None }, guid: false },
            "bind",
            tb,
        ));
        out.push((
            ADesc { t: TDesc::Tcp { host: "h".into(), port: 1, bind: None, family: None, nonce: Some(v.clone()) }, guid: false },
            "noncefile",
            v.clone(),
        ));
    }
    let _ = (plain_exec(), plain_tcp());
    out
}

/// Presence-subset products with short values.
fn products(short: &[Vec<u8>]) -> Vec<ADesc> {
    let mut out = vec![];
    let opt = |vals: &[Vec<u8>]| -> Vec<Option<Vec<u8>>> {
        let mut o = vec![None];
        o.extend(vals.iter().cloned().map(Some));
        o
    };
    // unixexec: path x argv0 presence x 0..2 args
    let mut argvs: Vec<Vec<Vec<u8>>> = vec![vec![]];
    for a in short {
        argvs.push(vec![a.clone()]);
    }
    for a in short {
        for b in short {
            argvs.push(vec![a.clone(), b.clone()]);
        }
    }
    for path in short {
        for arg0 in opt(short) {
            for args in &argvs {
                for guid in [false, true] {
                    if guid && !(args.len() == 2) {
                        continue;
                    }
                    out.push(ADesc { t: TDesc::Exec { path: path.clone(), arg0: arg0.clone(), args: args.clone() }, guid });
                }
            }
        }
    }
    // tcp: host x port x bind presence x family x noncefile presence
    for host in short {
        for port in [0u16, 1, 65535] {
            for bind in opt(short) {
                for family in [None, Some(4u8), Some(6u8)] {
                    for nonce in opt(short) {
                        out.push(ADesc {
                            t: TDesc::Tcp {
                                host: as_text(host),
                                port,
                                bind: bind.as_ref().map(|b| as_text(b)),
                                family,
                                nonce: nonce.clone(),
                            },
                            guid: port == 1 && family.is_none(),
                        });
                    }
                }
            }
        }
    }
    out
}

fn direction1(report: &Report, tier: Tier) {
    let mut values = byte_values(tier.pick(2, 3));
    // single-field sweeps only: every single byte value too (alone and after a plain character).
    // The set of bytes that may stay unescaped is a union of ranges, and its edges ('[', '^', '`',
    // '{', '@', '+', ...) are exactly where an encoder/decoder table goes wrong.
    for b in 0..=255u8 {
        if !BYTES.contains(&b) {
            values.push(vec![b]);
            values.push(vec![b'a', b]);
        }
    }
    let short = byte_values(1);
    report.set("byte_values", json!(values.len()));
    report.note("empty field values are outside the space: `key=` with nothing after it is not an address (libdbus rejects it), so such a value has no string form");
    let mut fails: FailSet = BTreeSet::new();
    let singles = singles(&values);
    let results: Mutex<Vec<Option<(String, Back)>>> = Mutex::new(vec![None; singles.len()]);
    par_for(singles.len(), 64, |i| {
        let r = round_trip(&singles[i].0);
        results.lock().unwrap()[i] = Some(r);
    });
    let results = results.into_inner().unwrap();
    let mut bind_unjudged = false;
    for (i, ((d, key, val), r)) in singles.iter().zip(results).enumerate() {
        let (text, back) = r.unwrap_or_else(|| machinery_failure("C23: missing result"));
        report.eval(1);
        report.nontrivial(hash64(&("rt", d)));
        if *key == "bind" && matches!(&back, Back::Error(e) if e.contains("`bind` isn't yet supported")) {
            // Tcp::set_bind and Display exist, the parser refuses the key with an explicit
            // "not yet supported": a documented restriction, recorded and not judged
            report.outcome("format-then-parse: tcp bind= refused by the parser as 'not yet supported' (not judged)");
            bind_unjudged = true;
            continue;
        }
        report.outcome(&format!("format-then-parse: {}", back.class()));
        if i % (singles.len() / 6 + 1) == 3 {
            report.sample(json!({"address": d.to_json(), "display": text, "read_back": back.class()}));
        }
        if back != Back::Same {
            fails.insert((d.transport_name().to_string(), key.to_string(), class_of(val).to_string()));
            report.violation(violation_rt(d, key, val, &text, &back, "single-field"));
        }
    }
    report.set(
        "format_then_parse_failing_field_classes",
        json!(fails.iter().map(|(t, k, c)| format!("{t}:{k}:{c}")).collect::<Vec<_>>()),
    );
    let prods = products(&short);
    report.set("presence_products", json!(prods.len()));
    let results: Mutex<Vec<Option<(String, Back)>>> = Mutex::new(vec![None; prods.len()]);
    par_for(prods.len(), 64, |i| {
        let r = round_trip(&prods[i]);
        results.lock().unwrap()[i] = Some(r);
    });
    for (d, r) in prods.iter().zip(results.into_inner().unwrap()) {
        let (text, back) = r.unwrap_or_else(|| machinery_failure("C23: missing result"));
        report.eval(1);
        report.nontrivial(hash64(&("rt", d)));
        if bind_unjudged && matches!(&d.t, TDesc::Tcp { bind: Some(_), .. }) && matches!(&back, Back::Error(e) if e.contains("`bind` isn't yet supported")) {
            report.outcome("format-then-parse: tcp bind= refused by the parser as 'not yet supported' (not judged)");
            continue;
        }
        report.outcome(&format!("format-then-parse: {}", back.class()));
        if back == Back::Same {
            continue;
        }
        let explained = d
            .fields()
            .iter()
            .any(|(k, v)| fails.contains(&(d.transport_name().to_string(), k.to_string(), class_of(v).to_string())));
        if explained {
            report.add("product_failures_explained_by_single_field_findings", 1);
            continue;
        }
        let keys: Vec<&str> = d.fields().iter().map(|(k, _)| *k).collect();
        report.violation(violation_rt(d, &keys.join("+"), b"a", &text, &back, "field-interaction"));
    }
}

// ---------------------------------------------------------------------------------------------
// Direction 2: strings

const ATOMS: &[&str] = &[
    "a", "/", ".", "\\", "*", "-", "_", "7", "%41", "%25", "%2c", "%2C", "%3a", "%3d", "%20", "%00", "%80", "%ff", "%fF", "%2f", "%3b",
];

fn atom_values(max_len: usize) -> Vec<String> {
    let mut out = vec![];
    let mut v = vec![];
    for i in 1..enumerate::count_strings(ATOMS.len(), max_len) {
        enumerate::nth_string(ATOMS.len(), i, &mut v);
        out.push(v.iter().map(|x| ATOMS[*x]).collect::<String>());
    }
    out
}

/// (address string, keys whose values are under test)
fn address_strings(tier: Tier) -> Vec<(String, Vec<&'static str>)> {
    let one = atom_values(tier.pick(2, 3));
    let two = atom_values(tier.pick(1, 2));
    let mut out = vec![];
    for v in &one {
        for k in UNIX_KEYS {
            out.push((format!("unix:{k}={v}"), vec![k]));
        }
        out.push((format!("unix:path={v},guid={GUID}"), vec!["path"]));
        out.push((format!("unixexec:path={v}"), vec!["path"]));
        out.push((format!("tcp:host={v},port=1"), vec!["host"]));
        out.push((format!("tcp:host=h,port=1,noncefile={v}"), vec!["noncefile"]));
        out.push((format!("nonce-tcp:host=h,port=1,family=ipv4,noncefile={v}"), vec!["noncefile"]));
    }
    for v1 in &two {
        for v2 in &two {
            out.push((format!("unixexec:path={v1},argv0={v2}"), vec!["path", "argv0"]));
            out.push((format!("unixexec:path={v1},argv1={v2}"), vec!["path", "argv1"]));
            out.push((format!("unixexec:argv2={v2},argv1={v1},path=x"), vec!["argv1", "argv2"]));
            out.push((format!("nonce-tcp:noncefile={v1},host={v2},port=65535"), vec!["noncefile", "host"]));
        }
    }
    out
}

/// What zbus reports for `key` after parsing, as bytes.
fn zbus_value(a: &Address, key: &str) -> Option<Vec<u8>> {
    match a.transport() {
        Transport::Unix(u) => match (u.path(), key) {
            (UnixSocket::File(p), "path") | (UnixSocket::Dir(p), "dir") | (UnixSocket::TmpDir(p), "tmpdir") => {
                Some(p.as_os_str().as_bytes().to_vec())
            }
            (UnixSocket::Abstract(n), "abstract") => Some(n.as_bytes().to_vec()),
            _ => None,
        },
        Transport::Unixexec(e) => match key {
            "path" => Some(e.path().as_os_str().as_bytes().to_vec()),
            "argv0" => e.arg0().map(|a| a.as_bytes().to_vec()),
            k if k.starts_with("argv") => {
                let n: usize = k[4..].parse().ok()?;
                e.args().get(n.checked_sub(1)?).map(|a| a.as_bytes().to_vec())
            }
            _ => None,
        },
        Transport::Tcp(t) => match key {
            "host" => Some(t.host().as_bytes().to_vec()),
            "bind" => t.bind().map(|b| b.as_bytes().to_vec()),
            "noncefile" => t.nonce_file().map(|n| n.to_vec()),
            _ => None,
        },
        _ => None,
    }
}

fn key_family(k: &str) -> &str {
    if k.starts_with("argv") && k != "argv0" {
        "argvN"
    } else {
        k
    }
}

enum Parsed {
    Rejected,
    Panic(String),
    /// value zbus reports per key under test
    Values(Vec<Option<Vec<u8>>>),
}

fn direction2(report: &Report, tier: Tier, lib: Option<&ffi::Lib>) {
    let strings = address_strings(tier);
    report.set("address_strings", json!(strings.len()));
    let audited = std::sync::atomic::AtomicU64::new(0);
    let results: Mutex<Vec<Option<Parsed>>> = Mutex::new((0..strings.len()).map(|_| None).collect());
    par_for(strings.len(), 64, |i| {
        let (s, keys) = &strings[i];
        let want = refaddr::parse_entry(s)
            .unwrap_or_else(|e| machinery_failure(&format!("C23: generated address {s:?} is not valid for the reference grammar: {e}")));
        // audit of the reference decoder against libdbus (NUL cannot be observed through a C string)
        if let Some(lib) = lib {
            if !s.contains("%00") {
                match refaddr::libdbus_parse(lib, s, keys) {
                    Ok((method, vals)) => {
                        for (k, v) in keys.iter().zip(vals) {
                            if method != want.transport || v.as_deref() != want.get(k) {
                                machinery_failure(&format!(
                                    "C23 audit: refaddr and libdbus disagree on {s:?} key {k}: refaddr {:?}, libdbus {:?}",
                                    want.get(k),
                                    v
                                ));
                            }
                        }
                        audited.fetch_add(1, std::sync::atomic::Ordering::Relaxed);
                    }
                    Err(e) => machinery_failure(&format!("C23 audit: libdbus rejects {s:?} ({e}) which refaddr accepts")),
                }
            }
        }
        let r = match catch(|| Address::from_str(s)) {
            Ok(Ok(a)) => Parsed::Values(keys.iter().map(|k| zbus_value(&a, k)).collect()),
            Ok(Err(_)) => Parsed::Rejected,
            Err(p) => Parsed::Panic(p),
        };
        results.lock().unwrap()[i] = Some(r);
    });
    for (i, ((s, keys), r)) in strings.iter().zip(results.into_inner().unwrap()).enumerate() {
        report.eval(1);
        let want = refaddr::parse_entry(s).unwrap_or_else(|e| machinery_failure(&e));
        let got = match r.unwrap_or_else(|| machinery_failure("C23: missing result")) {
            Parsed::Values(v) => v,
            Parsed::Rejected => {
                report.outcome("parse-string: valid address string rejected by zbus (not judged)");
                continue;
            }
            Parsed::Panic(p) => {
                report.outcome("parse-string: panic");
                report.violation(
                    Violation::new(CLAUSE, format!("Address::from_str({s:?}) panics: {p}"), json!({"string": s}))
                        .feat("direction", "parse-string")
                        .feat("outcome", "panic"),
                );
                continue;
            }
        };
        report.nontrivial(hash64(&("str", s)));
        let mut all_ok = true;
        for (k, g) in keys.iter().zip(&got) {
            let w = want.get(k).unwrap_or(&[]);
            if *k == "host" && std::str::from_utf8(w).is_err() {
                report.outcome("parse-string: decoded host is not UTF-8 (not judged)");
                continue;
            }
            if g.as_deref() == Some(w) {
                continue;
            }
            all_ok = false;
            let raw = s
                .split([':', ','])
                .find_map(|kv| kv.strip_prefix(&format!("{k}=")))
                .unwrap_or("");
            report.violation(
                Violation::new(
                    CLAUSE,
                    format!(
                        "{s:?}: the value of {k} denotes the bytes {:?} (percent-decoded), zbus reports {:?}",
                        String::from_utf8_lossy(w),
                        g.as_ref().map(|g| String::from_utf8_lossy(g).into_owned())
                    ),
                    json!({"string": s, "key": k}),
                )
                .feat("direction", "parse-string")
                .feat("kind", "single-field")
                .feat("transport", match want.transport.as_str() {
                    "nonce-tcp" => "tcp",
                    t => t,
                })
                .feat("key", key_family(k))
                .feat("value_class", if raw.contains('%') { "escaped" } else { "plain" })
                .feat("outcome", if g.as_deref() == Some(raw.as_bytes()) { "raw-text-not-decoded" } else { "other-value" }),
            );
        }
        report.outcome(if all_ok {
            "parse-string: values equal the percent-decoding"
        } else {
            "parse-string: some value differs from the percent-decoding"
        });
        if i % (strings.len() / 5 + 1) == 11 {
            report.sample(json!({"string": s, "keys": keys, "decoded": keys.iter().map(|k| want.get(k).map(|v| String::from_utf8_lossy(v).into_owned())).collect::<Vec<_>>(),
                "zbus": got.iter().map(|v| v.as_ref().map(|v| String::from_utf8_lossy(v).into_owned())).collect::<Vec<_>>()}));
        }
    }
    if let Some(lib) = lib {
        // accept/reject agreement on near-miss strings (unescaped reserved bytes, truncated escapes, empty values)
        let atoms = ["a", "/", "%41", "%2c", " ", "%", "%4", "%zz", ",", "=", ":", ";", "%00"];
        let mut v = vec![];
        let (mut acc, mut rej) = (0u64, 0u64);
        for i in 0..enumerate::count_strings(atoms.len(), 3) {
            enumerate::nth_string(atoms.len(), i, &mut v);
            let val: String = v.iter().map(|x| atoms[*x]).collect();
            if val.contains(';') {
                continue; // entry separator: a list, not a single entry
            }
            let s = format!("unix:path={val}");
            let ours = refaddr::parse_entry(&s).is_ok();
            let theirs = refaddr::libdbus_parse(lib, &s, &["path"]).is_ok();
            if ours != theirs {
                machinery_failure(&format!("C23 audit: refaddr accepts={ours}, libdbus accepts={theirs} for {s:?}"));
            }
            if ours {
                acc += 1
            } else {
                rej += 1
            }
        }
        report.set(
            "audit_refaddr_vs_libdbus",
            json!({"valid_strings_values_compared": audited.into_inner(), "near_miss_strings_accept_reject_compared": acc + rej, "accepted_by_both": acc, "rejected_by_both": rej}),
        );
        report.assume("refaddr (grammar and percent-decoding) agrees with libdbus dbus_parse_address on every enumerated string without %00 and on the near-miss strings");
    }
}

// ---------------------------------------------------------------------------------------------

fn replay(path: &str) -> i32 {
    let v = vcommon::load_replay(path);
    let r = &v["replay"];
    if let Some(s) = r["string"].as_str() {
        println!("string: {s:?}");
        match refaddr::parse_entry(s) {
            Ok(e) => {
                for (k, val) in &e.kv {
                    println!("  reference: {k} = {:?} (hex {})", String::from_utf8_lossy(val), hex(val));
                }
                match catch(|| Address::from_str(s)) {
                    Ok(Ok(a)) => {
                        println!("zbus: {a:?}");
                        let mut bad = 0;
                        for (k, val) in &e.kv {
                            if let Some(g) = zbus_value(&a, k) {
                                let ok = g == *val;
                                println!("  zbus: {k} = {:?} {}", String::from_utf8_lossy(&g), if ok { "EQUAL" } else { "DIFFERENT" });
                                if !ok {
                                    bad = 1;
                                }
                            }
                        }
                        return bad;
                    }
                    other => println!("zbus: {other:?}"),
                }
            }
            Err(e) => println!("reference grammar rejects: {e}"),
        }
        return 0;
    }
    let Some(d) = ADesc::from_json(&r["address"]) else {
        machinery_failure("C23 replay: unreadable payload");
    };
    let (text, back) = round_trip(&d);
    println!("address: {}", d.to_json());
    println!("Display: {text}");
    println!("Address::from_str(Display): {back:?}");
    (back != Back::Same) as i32
}

pub fn main(args: &Args) -> i32 {
    if let Some(p) = &args.replay {
        return replay(p);
    }
    let report = Report::new("C23", args.tier, args.seed, "exploration");
    let lib = match ffi::Lib::load() {
        Ok(l) => Some(l),
        Err(e) => {
            if args.tier == Tier::Thorough {
                machinery_failure(&format!("C23 audit: {e}"));
            }
            report.note(format!("libdbus not loadable, refaddr audit skipped in the quick tier: {e}"));
            None
        }
    };
    direction1(&report, args.tier);
    direction2(&report, args.tier, lib.as_ref());
    report.note("transports in this build: unix (path/abstract/dir/tmpdir), unixexec, tcp/nonce-tcp. vsock needs the `vsock`/`tokio-vsock` cargo feature, which the harness crate does not enable; autolaunch and launchd are not compiled on Linux");
    report.assume("the reference grammar and percent-decoding are those of the specification's Server Addresses section (refaddr), audited against libdbus");
    report.assume("a String-typed field (host, bind) stands for its UTF-8 bytes");
    report.finish(
        "direction 1: every transport x single-field sweeps over all byte strings of bounded length from the byte-class alphabet (others plain) + presence-subset products with values of length <= 1, built with the public constructors, Display then from_str; direction 2: every valid single-entry address string over the known keys with values of bounded length over literal characters and %xx escapes. non-trivial = distinct address values / distinct accepted strings",
        true,
    )
}
